package main

import (
	"go/parser"
	"strings"
	"fmt"
	"hash/fnv"
	"regexp"
	"go/ast"
	"go/constant"
	"go/token"
	"go/types"
	"math/big"
)

// ---------- expression evaluation (Go semantics: machine integers) ----------

type frame struct {
	c        *FuncCtx
	ret      func(st *State, vals []Value)
	brk      func(st *State)
	cont     func(st *State)
}

func (c *FuncCtx) constOf(e ast.Expr) (Value, bool) {
	tv, ok := c.info.Types[e]
	if !ok || tv.Value == nil {
		return nil, false
	}
	switch tv.Value.Kind() {
	case constant.Int:
		b, ok := new(big.Int).SetString(tv.Value.ExactString(), 10)
		if ok {
			return IntV{Const(b)}, true
		}
	case constant.Bool:
		return BoolV{Bool(constant.BoolVal(tv.Value))}, true
	}
	return nil, false
}

func (c *FuncCtx) typeOf(e ast.Expr) types.Type {
	t := c.info.TypeOf(e)
	if t == nil {
		panic(verr("no type for %s", exprString(e)))
	}
	return t
}

// wrap reduces a mathematical result to the machine type, emitting an overflow
// obligation for signed types (lattigo never relies on signed wrap-around).
func (c *FuncCtx) wrapTo(st *State, t *Term, typ types.Type, at ast.Node, what string) *Term {
	k, ok := intKindOf(typ)
	if !ok || k.bits == 0 {
		return t
	}
	lo, hi := k.rng()
	if t.IsConst() {
		if t.Val.Cmp(lo) >= 0 && t.Val.Cmp(hi) <= 0 {
			return t
		}
	}
	if k.signed {
		c.oblige(st, "overflow", what, And(Le(Const(lo), t), Le(t, Const(hi))), at)
		return t
	}
	return Mod(t, Const(pow2(k.bits)))
}

func (c *FuncCtx) evalInt(st *State, e ast.Expr) *Term { return asInt(c.eval(st, e)) }

func (c *FuncCtx) eval(st *State, e ast.Expr) Value {
	v := c.eval0(st, e)
	switch e.(type) {
	case *ast.BinaryExpr, *ast.UnaryExpr, *ast.CallExpr, *ast.IndexExpr:
		st.tmps[exprString(e)] = v
	}
	return v
}

func isFloatType(t types.Type) bool {
	b, ok := t.Underlying().(*types.Basic)
	return ok && b.Info()&types.IsFloat != 0
}

func (c *FuncCtx) eval0(st *State, e ast.Expr) Value {
	if v, ok := c.constOf(e); ok {
		return v
	}
	// floating point is not modelled: an arithmetic expression, literal or conversion of float type is
	// an opaque value (its operands are not evaluated: no call with effects may hide in them, checked)
	if t := c.info.TypeOf(e); t != nil && isFloatType(t) {
		opaque := false
		switch n := e.(type) {
		case *ast.BinaryExpr, *ast.UnaryExpr, *ast.BasicLit:
			opaque = true
		case *ast.CallExpr:
			if tv, ok := c.info.Types[n.Fun]; ok && tv.IsType() {
				opaque = true
			} else if f, ok := c.calleeObj(n).(*types.Func); ok && f.Pkg() != nil && f.Pkg().Path() == "math" {
				opaque = true
			}
		}
		if opaque {
			ast.Inspect(e, func(m ast.Node) bool {
				if call, ok := m.(*ast.CallExpr); ok {
					if tv, ok := c.info.Types[call.Fun]; !ok || !tv.IsType() {
						if f, ok := c.calleeObj(call).(*types.Func); ok && f.Pkg() != nil && f.Pkg().Path() == "math" {
							return true // a pure function of package math
						}
						panic(verr("call inside a floating-point expression at %s", c.prog.pos(call)))
					}
				}
				return true
			})
			return OpaqueV{Desc: exprString(e), T: t}
		}
	}
	switch n := e.(type) {
	case *ast.ParenExpr:
		return c.eval(st, n.X)
	case *ast.Ident:
		if n.Name == "nil" {
			return NilV{}
		}
		obj := c.info.Uses[n]
		if obj == nil {
			obj = c.info.Defs[n]
		}
		if v, ok := st.vars[obj]; ok {
			return v
		}
		if vr, ok := obj.(*types.Var); ok && !vr.IsField() && vr.Parent() == vr.Pkg().Scope() {
			panic(verr("read of package-level variable %s", n.Name))
		}
		panic(verr("unbound identifier %s", n.Name))
	case *ast.BinaryExpr:
		return c.evalBinary(st, n)
	case *ast.UnaryExpr:
		switch n.Op {
		case token.NOT:
			return BoolV{Not(asBool(c.eval(st, n.X)))}
		case token.SUB:
			x := c.evalInt(st, n.X)
			typ := c.typeOf(n)
			k, _ := intKindOf(typ)
			if !k.signed && k.bits > 0 {
				return IntV{c.named(st, "neg", Ite(Eq(x, ConstI(0)), ConstI(0), Sub(Const(pow2(k.bits)), x)), typ)}
			}
			return IntV{c.wrapTo(st, Neg(x), typ, n, "neg")}
		case token.ADD:
			return c.eval(st, n.X)
		case token.AND:
			// &x of a struct value (a parameter, a literal): pointers to structs and struct values are
			// the same symbolic object here (no pointer identity, no aliasing through it is modelled:
			// sound for reads; a write through the pointer in a callee is that callee's frame)
			if v, ok := c.eval(st, n.X).(*StructV); ok {
				return v
			}
			panic(verr("unsupported address-of at %s", c.prog.pos(n)))
		case token.XOR:
			x := c.evalInt(st, n.X)
			typ := c.typeOf(n)
			k, _ := intKindOf(typ)
			if !k.signed && k.bits > 0 {
				return IntV{Sub(Const(new(big.Int).Sub(pow2(k.bits), bigOne)), x)}
			}
			return IntV{Sub(ConstI(-1), x)}
		}
		panic(verr("unsupported unary operator %s at %s", n.Op, c.prog.pos(n)))
	case *ast.CallExpr:
		vs := c.evalCall(st, n)
		if len(vs) == 1 {
			return vs[0]
		}
		return TupleV{vs}
	case *ast.IndexExpr:
		return c.evalIndex(st, n)
	case *ast.SliceExpr:
		return c.evalSlice(st, n)
	case *ast.SelectorExpr:
		if sel, ok := c.info.Selections[n]; ok && sel.Kind() == types.FieldVal {
			sv, name := c.fieldOwner(st, n, sel)
			return c.field(st, sv, name)
		}
		panic(verr("unsupported selector %s at %s", exprString(n), c.prog.pos(n)))
	case *ast.CompositeLit:
		typ := c.typeOf(n)
		if at, ok := typ.Underlying().(*types.Array); ok {
			arr := ArrV{Elems: make([]Value, at.Len())}
			for i := range arr.Elems {
				arr.Elems[i] = c.zeroValue(at.Elem())
			}
			idx := 0
			for _, el := range n.Elts {
				if kv, ok := el.(*ast.KeyValueExpr); ok {
					kvv, _ := c.constOf(kv.Key)
					idx = int(asInt(kvv).Val.Int64())
					el = kv.Value
				}
				arr.Elems[idx] = c.eval(st, el)
				idx++
			}
			return arr
		}
		if stt, ok := typ.Underlying().(*types.Struct); ok {
			// a struct literal with field names: a fresh struct value holding the given fields,
			// the zero value in the others
			sv := &StructV{T: typ, Prefix: c.freshName("lit"), F: map[string]Value{}}
			for i := 0; i < stt.NumFields(); i++ {
				sv.F[stt.Field(i).Name()] = c.zeroValue(stt.Field(i).Type())
			}
			for _, el := range n.Elts {
				kv, ok := el.(*ast.KeyValueExpr)
				if !ok {
					panic(verr("struct literal without field names at %s", c.prog.pos(n)))
				}
				sv.F[kv.Key.(*ast.Ident).Name] = c.eval(st, kv.Value)
			}
			return sv
		}
		if sl, ok := typ.Underlying().(*types.Slice); ok && len(n.Elts) == 0 {
			// the empty slice literal: fresh zero-length storage
			if _, isInt := intKindOf(sl.Elem()); isInt {
				return c.freshSlice(st, sl.Elem(), ConstI(0), ConstI(0))
			}
		}
		panic(verr("unsupported composite literal %s at %s", exprString(n), c.prog.pos(n)))
	case *ast.StarExpr:
		v := c.eval(st, n.X)
		switch v.(type) {
		case *StructV:
			return v
		}
		panic(verr("unsupported dereference at %s", c.prog.pos(n)))
	}
	panic(verr("unsupported expression %s (%T) at %s", exprString(e), e, c.prog.pos(e)))
}

// nilEq compares error / slice values with nil (or two errors by nil-ness only when one is nil).
func nilEq(a, b Value) *Term {
	isNil := func(v Value) *Term {
		switch x := v.(type) {
		case NilV:
			return TTrue
		case ErrV:
			return x.IsNil
		case SliceV:
			return Eq(x.Addr, ConstI(0))
		case *StructV:
			// a pointer to a struct reachable from the inputs: its nil-ness is a boolean of its own, named
			// after the access path (dereferences are NOT checked against it: pointers the code dereferences
			// unconditionally are assumed valid, as everywhere in this engine)
			if x.Prefix != "" && x.Key == nil {
				return Var(x.Prefix+"$isnil", SBool)
			}
		}
		return nil
	}
	_, an := a.(NilV)
	_, bn := b.(NilV)
	if !an && !bn {
		return nil
	}
	x, y := isNil(a), isNil(b)
	if x == nil || y == nil {
		return nil
	}
	return Eq(x, y)
}

func (c *FuncCtx) zeroValue(t types.Type) Value {
	if isErrorType(t) {
		return ErrV{TTrue}
	}
	if isBoolType(t) {
		return BoolV{TFalse}
	}
	if _, ok := intKindOf(t); ok {
		return IntV{ConstI(0)}
	}
	if at, ok := t.Underlying().(*types.Array); ok && at.Len() <= 64 {
		a := ArrV{}
		for i := int64(0); i < at.Len(); i++ {
			a.Elems = append(a.Elems, c.zeroValue(at.Elem()))
		}
		return a
	}
	if sl, ok := t.Underlying().(*types.Slice); ok {
		return SliceV{Addr: ConstI(0), Len: ConstI(0), Cap: ConstI(0), Elem: sl.Elem()}
	}
	return OpaqueV{Desc: "zero", T: t}
}

func (c *FuncCtx) evalBinary(st *State, n *ast.BinaryExpr) Value {
	switch n.Op {
	case token.LAND, token.LOR:
		l := asBool(c.eval(st, n.X))
		// the right operand is only evaluated (and may only panic) when needed
		guard := l
		if n.Op == token.LOR {
			guard = Not(l)
		}
		s2 := st.clone()
		s2.assume(guard)
		r := asBool(c.eval(s2, n.Y))
		// facts learnt while evaluating the right operand hold under the guard only
		for _, f := range s2.path[len(st.path):] {
			if f.Key() != guard.Key() {
				st.assume(Implies(guard, f))
			}
		}
		for hn, h := range s2.heaps {
			if old, ok := st.heaps[hn]; ok && old != h {
				panic(verr("heap-modifying call in the right operand of %s at %s", n.Op, c.prog.pos(n)))
			}
		}
		if n.Op == token.LAND {
			return BoolV{And(l, r)}
		}
		return BoolV{Or(l, r)}
	}
	switch n.Op {
	case token.LSS, token.LEQ, token.GTR, token.GEQ:
		if isFloatType(c.typeOf(n.X)) || isFloatType(c.typeOf(n.Y)) {
			// an order test between floats: an unknown boolean named after the source text
			c.noFloatAssignTo(n.X, n.Y)
			return BoolV{Var(feqName(n.X, n.Y)+"$"+map[token.Token]string{token.LSS: "lt", token.LEQ: "le", token.GTR: "gt", token.GEQ: "ge"}[n.Op]+c.intOperandsKey(st, n), SBool)}
		}
	}
	if n.Op == token.EQL || n.Op == token.NEQ {
		if b, ok := c.typeOf(n.X).Underlying().(*types.Basic); ok && b.Info()&types.IsFloat != 0 {
			// floating point is not modelled: the outcome of an (in)equality test between float
			// expressions is an unknown boolean, the same one for the same source text (sound as long
			// as the function does not assign to a float, which is checked)
			c.noFloatAssignTo(n.X, n.Y)
			eq := Var(feqName(n.X, n.Y), SBool)
			if n.Op == token.NEQ {
				eq = Not(eq)
			}
			return BoolV{eq}
		}
	}
	lv, rv := c.eval(st, n.X), c.eval(st, n.Y)
	switch n.Op {
	case token.EQL, token.NEQ:
		var eq *Term
		switch a := lv.(type) {
		case BoolV:
			eq = Eq(a.T, asBool(rv))
		case IntV:
			eq = Eq(a.T, asInt(rv))
		case ErrV, NilV, SliceV, *StructV:
			eq = nilEq(lv, rv)
			if eq == nil {
				panic(verr("unsupported comparison at %s", c.prog.pos(n)))
			}
		default:
			panic(verr("unsupported comparison of %T at %s", lv, c.prog.pos(n)))
		}
		if n.Op == token.NEQ {
			eq = Not(eq)
		}
		return BoolV{eq}
	}
	a, b := asInt(lv), asInt(rv)
	switch n.Op {
	case token.LSS:
		return BoolV{Lt(a, b)}
	case token.LEQ:
		return BoolV{Le(a, b)}
	case token.GTR:
		return BoolV{Gt(a, b)}
	case token.GEQ:
		return BoolV{Ge(a, b)}
	}
	typ := c.typeOf(n)
	return IntV{c.arith(st, n.Op, a, b, typ, c.typeOf(n.Y), n)}
}

func (c *FuncCtx) arith(st *State, op token.Token, a, b *Term, typ, rtyp types.Type, at ast.Node) *Term {
	k, ok := intKindOf(typ)
	if !ok {
		panic(verr("arithmetic on non-integer type %s at %s", typ, c.prog.pos(at)))
	}
	M := pow2(k.bits)
	unsigned := !k.signed && k.bits > 0
	switch op {
	case token.ADD:
		s := Add(a, b)
		if unsigned {
			if s.IsConst() {
				return Mod(s, Const(M))
			}
			if c.fits(s, k) {
				return s
			}
			return c.named(st, "add", Ite(Ge(s, Const(M)), Sub(s, Const(M)), s), typ)
		}
		return c.wrapTo(st, s, typ, at, "add")
	case token.SUB:
		s := Sub(a, b)
		if unsigned {
			if s.IsConst() {
				return Mod(s, Const(M))
			}
			return c.named(st, "sub", Ite(Lt(s, ConstI(0)), Add(s, Const(M)), s), typ)
		}
		return c.wrapTo(st, s, typ, at, "sub")
	case token.MUL:
		p := c.product(st, a, b)
		if unsigned && (a.IsConst() || b.IsConst()) && c.fits(p, k) {
			return p
		}
		if unsigned {
			return c.named(st, "mul", Mod(p, Const(M)), typ)
		}
		return c.wrapTo(st, p, typ, at, "mul")
	case token.QUO, token.REM:
		if !(b.IsConst() && b.Val.Sign() != 0) {
			c.oblige(st, "divzero", "", Ne(b, ConstI(0)), at)
		}
		if unsigned {
			if op == token.QUO {
				return c.named(st, "quo", Div(a, b), typ)
			}
			return c.named(st, "rem", Mod(a, b), typ)
		}
		// signed: Go truncates toward zero
		absA := Ite(Le(ConstI(0), a), a, Neg(a))
		absB := Ite(Le(ConstI(0), b), b, Neg(b))
		q := Div(absA, absB)
		sameSign := Eq(Le(ConstI(0), a), Le(ConstI(0), b))
		if a.IsConst() && b.IsConst() {
			sameSign = Bool((a.Val.Sign() >= 0) == (b.Val.Sign() >= 0))
		}
		if op == token.QUO {
			return c.named(st, "quo", Ite(sameSign, q, Neg(q)), typ)
		}
		r := Mod(absA, absB)
		return c.named(st, "rem", Ite(Le(ConstI(0), a), r, Neg(r)), typ)
	case token.SHL, token.SHR:
		if !b.IsConst() {
			// variable shift: pow2 is uninterpreted with its defining facts for the range 0..63
			c.oblige(st, "shift", "nonneg", Le(ConstI(0), b), at)
			pw := App("pow2", SInt, b)
			st.assume(And(Le(ConstI(1), pw)))
			c.pow2Facts(st, b, pw, k.bits)
			if op == token.SHR {
				return c.named(st, "shr", Ite(Lt(b, ConstI(int64(k.bits))), Div(a, pw), Ite(Le(ConstI(0), a), ConstI(0), ConstI(-1))), typ)
			}
			p := Mul(a, pw)
			if unsigned {
				return c.named(st, "shl", Ite(Lt(b, ConstI(int64(k.bits))), Mod(p, Const(M)), ConstI(0)), typ)
			}
			return c.wrapTo(st, p, typ, at, "shl")
		}
		sh := int(b.Val.Int64())
		if sh < 0 || sh > 4096 {
			panic(verr("bad shift amount at %s", c.prog.pos(at)))
		}
		if op == token.SHR {
			return c.named(st, "shr", Div(a, Const(pow2(sh))), typ)
		}
		p := MulC(pow2(sh), a)
		if unsigned {
			if c.fits(p, k) {
				return p
			}
			return c.named(st, "shl", Mod(p, Const(M)), typ)
		}
		return c.wrapTo(st, p, typ, at, "shl")
	case token.AND:
		for _, pr := range [][2]*Term{{a, b}, {b, a}} {
			x, m := pr[0], pr[1]
			if m.IsConst() && m.Val.Sign() >= 0 {
				m1 := new(big.Int).Add(m.Val, bigOne)
				if new(big.Int).And(m1, m.Val).Sign() == 0 { // mask 2^k-1
					if k.signed {
						// two's complement: x & (2^k-1) == x mod 2^k for every signed x
						return c.named(st, "and", Mod(x, Const(m1)), typ)
					}
					return c.named(st, "and", Mod(x, Const(m1)), typ)
				}
			}
		}
		if a.IsConst() && b.IsConst() && a.Val.Sign() >= 0 && b.Val.Sign() >= 0 {
			return Const(new(big.Int).And(a.Val, b.Val))
		}
		r := App("bvand", SInt, a, b)
		c.noteRange(st, r, typ)
		if unsigned {
			st.assume(And(Le(r, a), Le(r, b)))
		}
		for _, f := range bitTableFacts("bvand", a, b, r) {
			st.assume(f)
		}
		return r
	case token.OR, token.XOR, token.AND_NOT:
		if a.IsConst() && b.IsConst() && a.Val.Sign() >= 0 && b.Val.Sign() >= 0 {
			switch op {
			case token.OR:
				return Const(new(big.Int).Or(a.Val, b.Val))
			case token.XOR:
				return Const(new(big.Int).Xor(a.Val, b.Val))
			case token.AND_NOT:
				return Const(new(big.Int).AndNot(a.Val, b.Val))
			}
		}
		nm := map[token.Token]string{token.OR: "bvor", token.XOR: "bvxor", token.AND_NOT: "bvandnot"}[op]
		r := App(nm, SInt, a, b)
		c.noteRange(st, r, typ)
		for _, f := range bitTableFacts(nm, a, b, r) {
			st.assume(f)
		}
		return r
	}
	panic(verr("unsupported operator %s at %s", op, c.prog.pos(at)))
}

// pow2Facts gives the uninterpreted pow2(b) its value when b is one of 0..bits-1 (case split
// left to the solver through the ground instances).
func (c *FuncCtx) pow2Facts(st *State, b, pw *Term, bits int) {
	for i := 0; i < bits; i++ {
		st.assume(Implies(Eq(b, ConstI(int64(i))), Eq(pw, Const(pow2(i)))))
	}
}

func (c *FuncCtx) boundsCheck(st *State, idx, length *Term, at ast.Node, what string) {
	goal := And(Le(ConstI(0), idx), Lt(idx, length))
	c.oblige(st, "bounds", what, goal, at)
	st.assume(goal) // execution continues only if the check passed
}

func (c *FuncCtx) evalIndex(st *State, n *ast.IndexExpr) Value {
	base := c.eval(st, n.X)
	switch b := base.(type) {
	case SliceV:
		i := c.evalInt(st, n.Index)
		c.boundsCheck(st, i, b.Len, n, "")
		if _, isSlice := b.Elem.Underlying().(*types.Slice); isSlice {
			r := rowOf(b, i)
			c.sliceFacts(st, r)
			return r
		}
		if _, isInt := intKindOf(b.Elem); !isInt && !isBoolType(b.Elem) {
			return c.elemOf(st, b, i)
		}
		return c.readCell(st, b.Elem, Add(b.Addr, i))
	case WinV:
		i := c.evalInt(st, n.Index)
		if !i.IsConst() || i.Val.Sign() < 0 || i.Val.Int64() >= int64(b.N) {
			c.boundsCheck(st, i, ConstI(int64(b.N)), n, "window")
		}
		return c.readCell(st, b.Elem, Add(b.Addr, i))
	case ArrV:
		i := c.evalInt(st, n.Index)
		if i.IsConst() {
			k := i.Val.Int64()
			if k < 0 || k >= int64(len(b.Elems)) {
				panic(verr("constant index out of range at %s", c.prog.pos(n)))
			}
			return b.Elems[k]
		}
		c.boundsCheck(st, i, ConstI(int64(len(b.Elems))), n, "array")
		var r *Term
		for k := len(b.Elems) - 1; k >= 0; k-- {
			ek := asInt(b.Elems[k])
			if r == nil {
				r = ek
			} else {
				r = Ite(Eq(i, ConstI(int64(k))), ek, r)
			}
		}
		return IntV{c.named(st, "arr", r, c.typeOf(n))}
	}
	panic(verr("unsupported index base %T at %s", base, c.prog.pos(n)))
}

func (c *FuncCtx) evalSlice(st *State, n *ast.SliceExpr) Value {
	base := c.eval(st, n.X)
	s, ok := base.(SliceV)
	if !ok {
		panic(verr("slicing %T at %s", base, c.prog.pos(n)))
	}
	lo := ConstI(0)
	if n.Low != nil {
		lo = c.evalInt(st, n.Low)
	}
	hi := s.Len
	if n.High != nil {
		hi = c.evalInt(st, n.High)
	}
	mx := s.Cap
	if n.Max != nil {
		mx = c.evalInt(st, n.Max)
	}
	goal := And(Le(ConstI(0), lo), Le(lo, hi), Le(hi, mx), Le(mx, s.Cap))
	c.oblige(st, "bounds", "slice", goal, n)
	st.assume(goal)
	return SliceV{Addr: Add(s.Addr, lo), Len: Sub(hi, lo), Cap: Sub(mx, lo), Elem: s.Elem}
}

// ---------- lvalues ----------

func (c *FuncCtx) assign(st *State, lhs ast.Expr, v Value) {
	switch n := lhs.(type) {
	case *ast.ParenExpr:
		c.assign(st, n.X, v)
	case *ast.Ident:
		if n.Name == "_" {
			return
		}
		obj := c.info.Defs[n]
		if obj == nil {
			obj = c.info.Uses[n]
		}
		if obj == nil {
			panic(verr("assignment to unknown %s", n.Name))
		}
		if _, ok := st.vars[obj]; !ok {
			st.declare(obj, v)
		} else {
			st.vars[obj] = v
			st.hist[obj] = append(st.hist[obj][:len(st.hist[obj]):len(st.hist[obj])], v)
		}
	case *ast.IndexExpr:
		base := c.eval(st, n.X)
		switch b := base.(type) {
		case SliceV:
			i := c.evalInt(st, n.Index)
			c.boundsCheck(st, i, b.Len, n, "")
			c.writeCell(st, b.Elem, Add(b.Addr, i), v)
		case WinV:
			i := c.evalInt(st, n.Index)
			if !i.IsConst() || i.Val.Sign() < 0 || i.Val.Int64() >= int64(b.N) {
				c.boundsCheck(st, i, ConstI(int64(b.N)), n, "window")
			}
			c.writeCell(st, b.Elem, Add(b.Addr, i), v)
		case ArrV:
			i := c.evalInt(st, n.Index)
			na := ArrV{Elems: append([]Value(nil), b.Elems...)}
			if i.IsConst() {
				na.Elems[i.Val.Int64()] = v
			} else {
				c.boundsCheck(st, i, ConstI(int64(len(b.Elems))), n, "array")
				for k := range na.Elems {
					na.Elems[k] = IntV{Ite(Eq(i, ConstI(int64(k))), asInt(v), asInt(b.Elems[k]))}
				}
			}
			c.assign(st, n.X, na)
		default:
			panic(verr("unsupported indexed assignment to %T at %s", base, c.prog.pos(n)))
		}
	case *ast.SelectorExpr:
		sel, ok := c.info.Selections[n]
		if !ok || sel.Kind() != types.FieldVal {
			panic(verr("unsupported assignment target %s at %s", exprString(lhs), c.prog.pos(lhs)))
		}
		sv, name := c.fieldOwner(st, n, sel)
		if st.fieldOv == nil {
			st.fieldOv = map[string]Value{}
		}
		st.fieldOv[fieldOvKey(sv, name)] = v
	default:
		panic(verr("unsupported assignment target %s at %s", exprString(lhs), c.prog.pos(lhs)))
	}
}

// fieldOwner walks the (possibly promoted) selection x.f down to the struct that declares f.
func (c *FuncCtx) fieldOwner(st *State, n *ast.SelectorExpr, sel *types.Selection) (*StructV, string) {
	base := c.eval(st, n.X)
	sv, ok := base.(*StructV)
	if !ok {
		panic(verr("field access on %T at %s", base, c.prog.pos(n)))
	}
	idx := sel.Index()
	for d := 0; d < len(idx)-1; d++ {
		stt, ok := sv.T.Underlying().(*types.Struct)
		if !ok {
			panic(verr("promoted field through non-struct at %s", c.prog.pos(n)))
		}
		v := c.field(st, sv, stt.Field(idx[d]).Name())
		nsv, ok := v.(*StructV)
		if !ok {
			panic(verr("promoted field through %T at %s", v, c.prog.pos(n)))
		}
		sv = nsv
	}
	return sv, n.Sel.Name
}

// ---------- statements ----------

func (c *FuncCtx) execBlock(fr *frame, stmts []ast.Stmt, st *State, k func(*State)) {
	if len(stmts) == 0 {
		k(st)
		return
	}
	c.execStmt(fr, stmts[0], st, func(s2 *State) { c.execBlock(fr, stmts[1:], s2, k) })
}

func containsJump(s ast.Node) bool {
	found := false
	ast.Inspect(s, func(n ast.Node) bool {
		switch x := n.(type) {
		case *ast.ReturnStmt, *ast.BranchStmt, *ast.ForStmt, *ast.RangeStmt, *ast.FuncLit:
			found = true
		case *ast.CallExpr:
			if id, ok := x.Fun.(*ast.Ident); ok && id.Name == "panic" {
				found = true
			}
		}
		return !found
	})
	return found
}

func (c *FuncCtx) execStmt(fr *frame, s ast.Stmt, st *State, k func(*State)) {
	switch n := s.(type) {
	case *ast.EmptyStmt:
		k(st)
	case *ast.BlockStmt:
		depth := len(st.scope)
		c.execBlock(fr, n.List, st, func(s2 *State) {
			if len(s2.scope) > depth {
				s2.scope = s2.scope[:depth]
			}
			k(s2)
		})
	case *ast.ExprStmt:
		if call, ok := n.X.(*ast.CallExpr); ok {
			if id, ok := call.Fun.(*ast.Ident); ok && id.Name == "panic" {
				// a reachable panic is a violation, unless the contract says when the function refuses its
				// arguments by panicking (`panics <cond>`, evaluated in the state at the panic - it may name
				// locals): then the obligation is that the refusal condition holds there
				goal := TFalse
				if raws := c.con.Raw["panics"]; len(raws) > 0 {
					var facts []*Term
					env := c.specEnv(st, &facts)
					var ds []*Term
					for _, raw := range raws {
						x, err := parser.ParseExpr(strings.TrimSpace(raw))
						if err != nil {
							panic(verr("%s: bad panics clause %q", c.con.File, raw))
						}
						ds = append(ds, env.Bool(x))
					}
					for _, f := range facts {
						st.assume(f)
					}
					goal = Or(ds...)
				}
				c.oblige(st, "panic", "", goal, n)
				return // path ends
			}
			c.evalCall(st, call)
			k(st)
			return
		}
		panic(verr("unsupported expression statement at %s", c.prog.pos(n)))
	case *ast.DeclStmt:
		gd, ok := n.Decl.(*ast.GenDecl)
		if !ok || gd.Tok != token.VAR {
			if ok && (gd.Tok == token.CONST || gd.Tok == token.TYPE) {
				k(st)
				return
			}
			panic(verr("unsupported declaration at %s", c.prog.pos(n)))
		}
		for _, sp := range gd.Specs {
			vs := sp.(*ast.ValueSpec)
			for i, name := range vs.Names {
				obj := c.info.Defs[name]
				var v Value
				if i < len(vs.Values) {
					v = c.eval(st, vs.Values[i])
				} else {
					v = c.zeroValue(obj.Type())
				}
				if name.Name != "_" {
					st.declare(obj, v)
				}
			}
		}
		k(st)
	case *ast.AssignStmt:
		c.execAssign(st, n)
		k(st)
	case *ast.IncDecStmt:
		x := c.evalInt(st, n.X)
		op := token.ADD
		if n.Tok == token.DEC {
			op = token.SUB
		}
		typ := c.typeOf(n.X)
		c.assign(st, n.X, IntV{c.arith(st, op, x, ConstI(1), typ, typ, n)})
		k(st)
	case *ast.ReturnStmt:
		var vals []Value
		if len(n.Results) == 0 {
			for _, r := range c.results {
				vals = append(vals, st.vars[r])
			}
		} else if len(n.Results) == 1 && len(c.results) > 1 {
			v := c.eval(st, n.Results[0])
			vals = v.(TupleV).Vs
		} else {
			for _, r := range n.Results {
				vals = append(vals, c.eval(st, r))
			}
		}
		fr.ret(st, vals)
	case *ast.IfStmt:
		c.execIf(fr, n, st, k)
	case *ast.ForStmt:
		c.execFor(fr, n, st, k)
	case *ast.RangeStmt:
		c.execRange(fr, n, st, k)
	case *ast.BranchStmt:
		switch n.Tok {
		case token.BREAK:
			if fr.brk == nil || n.Label != nil {
				panic(verr("unsupported break at %s", c.prog.pos(n)))
			}
			fr.brk(st)
		case token.CONTINUE:
			if fr.cont == nil || n.Label != nil {
				panic(verr("unsupported continue at %s", c.prog.pos(n)))
			}
			fr.cont(st)
		default:
			panic(verr("unsupported branch statement at %s", c.prog.pos(n)))
		}
	case *ast.SwitchStmt:
		c.execSwitch(fr, n, st, k)
	default:
		panic(verr("unsupported statement %T at %s", s, c.prog.pos(s)))
	}
}

func (c *FuncCtx) execAssign(st *State, n *ast.AssignStmt) {
	if n.Tok != token.ASSIGN && n.Tok != token.DEFINE {
		// op-assign
		ops := map[token.Token]token.Token{token.ADD_ASSIGN: token.ADD, token.SUB_ASSIGN: token.SUB, token.MUL_ASSIGN: token.MUL,
			token.QUO_ASSIGN: token.QUO, token.REM_ASSIGN: token.REM, token.SHL_ASSIGN: token.SHL, token.SHR_ASSIGN: token.SHR,
			token.AND_ASSIGN: token.AND, token.OR_ASSIGN: token.OR, token.XOR_ASSIGN: token.XOR, token.AND_NOT_ASSIGN: token.AND_NOT}
		op, ok := ops[n.Tok]
		if !ok {
			panic(verr("unsupported assignment operator at %s", c.prog.pos(n)))
		}
		typ := c.typeOf(n.Lhs[0])
		a := c.evalInt(st, n.Lhs[0])
		b := c.evalInt(st, n.Rhs[0])
		c.assign(st, n.Lhs[0], IntV{c.arith(st, op, a, b, typ, c.typeOf(n.Rhs[0]), n)})
		return
	}
	var vals []Value
	if len(n.Rhs) == 1 && len(n.Lhs) > 1 {
		v := c.eval(st, n.Rhs[0])
		t, ok := v.(TupleV)
		if !ok || len(t.Vs) != len(n.Lhs) {
			panic(verr("tuple assignment mismatch at %s", c.prog.pos(n)))
		}
		vals = t.Vs
	} else {
		for _, r := range n.Rhs {
			vals = append(vals, c.eval(st, r))
		}
	}
	for i, l := range n.Lhs {
		c.assign(st, l, vals[i])
	}
}

func (c *FuncCtx) execIf(fr *frame, n *ast.IfStmt, st *State, k func(*State)) {
	depth := len(st.scope)
	after := func(s2 *State) {
		if len(s2.scope) > depth {
			s2.scope = s2.scope[:depth]
		}
		k(s2)
	}
	run := func(st *State) {
		cond := asBool(c.eval(st, n.Cond))
		simple := !containsJump(n.Body) && (n.Else == nil || !containsJump(n.Else))
		if simple && (assignsField(n.Body) || (n.Else != nil && assignsField(n.Else))) {
			// a struct field assigned in a branch: the two outcomes are explored as separate paths
			simple = false
		}
		if cond.IsTrue() {
			c.execBlock(fr, n.Body.List, st, after)
			return
		}
		if cond.IsFalse() {
			if n.Else != nil {
				c.execStmt(fr, n.Else, st, after)
			} else {
				after(st)
			}
			return
		}
		s1 := st.clone()
		s1.assume(cond)
		s2 := st.clone()
		s2.assume(Not(cond))
		if !simple {
			c.execBlock(fr, n.Body.List, s1, after)
			if n.Else != nil {
				c.execStmt(fr, n.Else, s2, after)
			} else {
				after(s2)
			}
			return
		}
		// both branches are straight-line: merge the end states with ite
		var e1, e2 *State
		c.execBlock(fr, n.Body.List, s1, func(s *State) { e1 = s })
		if n.Else != nil {
			c.execStmt(fr, n.Else, s2, func(s *State) { e2 = s })
		} else {
			e2 = s2
		}
		if e1 == nil || e2 == nil {
			panic(verr("internal: straight-line branch did not complete at %s", c.prog.pos(n)))
		}
		after(c.merge(st, cond, e1, e2, depth))
	}
	if n.Init != nil {
		c.execStmt(fr, n.Init, st, run)
	} else {
		run(st)
	}
}

// merge joins two end states of a conditional.
func (c *FuncCtx) merge(base *State, cond *Term, a, b *State, depth int) *State {
	m := base.clone()
	base0 := len(base.path)
	for _, f := range a.path[base0:] {
		if f.Key() == cond.Key() {
			continue
		}
		m.assume(Implies(cond, f))
	}
	nc := Not(cond)
	for _, f := range b.path[base0:] {
		if f.Key() == nc.Key() {
			continue
		}
		m.assume(Implies(nc, f))
	}
	for obj := range base.vars {
		va, vb := a.vars[obj], b.vars[obj]
		m.vars[obj] = c.mergeVal(m, cond, va, vb)
		if len(a.hist[obj]) != len(base.hist[obj]) || len(b.hist[obj]) != len(base.hist[obj]) {
			m.hist[obj] = append(m.hist[obj][:len(m.hist[obj]):len(m.hist[obj])], m.vars[obj])
		}
	}
	for _, hn := range sortedHeapNames(a.heaps) {
		ha := a.heaps[hn]
		hb, ok := b.heaps[hn]
		if !ok {
			hb = c.heap(b, hn)
		}
		m.heaps[hn] = Ite(cond, ha, hb)
	}
	for _, hn := range sortedHeapNames(b.heaps) {
		if _, ok := a.heaps[hn]; !ok {
			m.heaps[hn] = Ite(cond, c.heap(a, hn), b.heaps[hn])
		}
	}
	// struct fields assigned in a branch
	keys := map[string]bool{}
	for k := range a.fieldOv {
		keys[k] = true
	}
	for k := range b.fieldOv {
		keys[k] = true
	}
	for k := range keys {
		va, oka := a.fieldOv[k]
		vb, okb := b.fieldOv[k]
		if oka && okb {
			if m.fieldOv == nil {
				m.fieldOv = map[string]Value{}
			}
			m.fieldOv[k] = c.mergeVal(m, cond, va, vb)
			continue
		}
		panic(verr("a struct field (%s) is assigned in only one branch of a merged conditional: outside the subset", k))
	}
	// allocations of either branch stay known
	seenAlloc := map[string]bool{}
	for _, al := range m.allocs {
		seenAlloc[al.Addr.Key()] = true
	}
	for _, lst := range [][]SliceV{a.allocs, b.allocs} {
		for _, al := range lst {
			if !seenAlloc[al.Addr.Key()] {
				seenAlloc[al.Addr.Key()] = true
				m.allocs = append(m.allocs, al)
			}
		}
	}
	return m
}

func (c *FuncCtx) mergeVal(st *State, cond *Term, a, b Value) Value {
	switch x := a.(type) {
	case IntV:
		y := b.(IntV)
		if x.T.Key() == y.T.Key() {
			return x
		}
		t := Ite(cond, x.T, y.T)
		v := c.named(st, "phi", t, nil)
		// carry the range if both sides have one
		o := &Obligation{Ranges: c.ranges}
		if r, ok := o.rangeOf(t); ok {
			c.setRange(v, r[0], r[1])
			if v != t {
				st.assume(And(Le(Const(r[0]), v), Le(v, Const(r[1]))))
			}
		}
		return IntV{v}
	case BoolV:
		y := b.(BoolV)
		return BoolV{Ite(cond, x.T, y.T)}
	case ErrV:
		y := b.(ErrV)
		return ErrV{Ite(cond, x.IsNil, y.IsNil)}
	case ArrV:
		y := b.(ArrV)
		r := ArrV{Elems: make([]Value, len(x.Elems))}
		for i := range x.Elems {
			r.Elems[i] = c.mergeVal(st, cond, x.Elems[i], y.Elems[i])
		}
		return r
	case SliceV:
		y := b.(SliceV)
		return SliceV{Addr: Ite(cond, x.Addr, y.Addr), Len: Ite(cond, x.Len, y.Len), Cap: Ite(cond, x.Cap, y.Cap), Elem: x.Elem}
	case WinV:
		y := b.(WinV)
		return WinV{Addr: Ite(cond, x.Addr, y.Addr), N: x.N, Elem: x.Elem}
	}
	return a
}

func (c *FuncCtx) execSwitch(fr *frame, n *ast.SwitchStmt, st *State, k func(*State)) {
	// desugar into an if-chain; no fallthrough support
	run := func(st *State) {
		var tag ast.Expr = n.Tag
		var chain func(i int, st *State)
		clauses := n.Body.List
		var deflt *ast.CaseClause
		chain = func(i int, st *State) {
			for i < len(clauses) && clauses[i].(*ast.CaseClause).List == nil {
				deflt = clauses[i].(*ast.CaseClause)
				i++
			}
			if i >= len(clauses) {
				if deflt != nil {
					c.execBlock(fr, deflt.Body, st, k)
				} else {
					k(st)
				}
				return
			}
			cc := clauses[i].(*ast.CaseClause)
			cond := TFalse
			for _, e := range cc.List {
				if tag == nil {
					cond = Or(cond, asBool(c.eval(st, e)))
				} else {
					tv := c.eval(st, tag)
					ev := c.eval(st, e)
					if tb, ok := tv.(BoolV); ok {
						cond = Or(cond, Eq(tb.T, asBool(ev)))
					} else {
						cond = Or(cond, Eq(asInt(tv), asInt(ev)))
					}
				}
			}
			s1 := st.clone()
			s1.assume(cond)
			s2 := st.clone()
			s2.assume(Not(cond))
			if !cond.IsFalse() {
				c.execBlock(fr, cc.Body, s1, k)
			}
			if !cond.IsTrue() {
				chain(i+1, s2)
			}
		}
		nfr := *fr
		nfr.brk = k
		fr = &nfr
		chain(0, st)
	}
	if n.Init != nil {
		c.execStmt(fr, n.Init, st, run)
	} else {
		run(st)
	}
}

// noFloatAssign: the function under verification never assigns to a floating-point location
// (the condition under which float comparisons may be named after their source text).
// noFloatAssignTo: naming the outcome of a float comparison after its source text is sound when
// the same text denotes the same value each time it is evaluated ON ONE PATH between two
// assignments.  Conservative rule: the identifiers occurring in the compared expressions are
// assigned at most once in the function (their declaration), or the comparison is evaluated once
// per assignment because both sit in the same loop body; otherwise each evaluation gets a fresh name.
func (c *FuncCtx) noFloatAssignTo(xs ...ast.Expr) {
	names := map[string]bool{}
	for _, x := range xs {
		ast.Inspect(x, func(m ast.Node) bool {
			if id, ok := m.(*ast.Ident); ok {
				names[id.Name] = true
			}
			return true
		})
	}
	counts := map[string]int{}
	ast.Inspect(c.fi.Decl.Body, func(n ast.Node) bool {
		if as, ok := n.(*ast.AssignStmt); ok {
			for _, l := range as.Lhs {
				if id, ok := l.(*ast.Ident); ok && names[id.Name] {
					if t := c.info.TypeOf(l); t != nil && isFloatType(t) {
						counts[id.Name]++
					}
				}
			}
		}
		return true
	})
	for nm, k := range counts {
		if k > 1 {
			panic(verr("float variable %s is assigned %d times and compared: comparisons cannot be named after their text", nm, k))
		}
	}
}

func (c *FuncCtx) noFloatAssign() {
	ast.Inspect(c.fi.Decl.Body, func(n ast.Node) bool {
		as, ok := n.(*ast.AssignStmt)
		if !ok {
			return true
		}
		for _, l := range as.Lhs {
			if t := c.info.TypeOf(l); t != nil {
				if b, ok := t.Underlying().(*types.Basic); ok && b.Info()&types.IsFloat != 0 {
					panic(verr("float assignment in a function whose float comparisons are abstracted, at %s", c.prog.pos(as)))
				}
			}
		}
		return true
	})
}

var feqSafe = regexp.MustCompile(`[^A-Za-z0-9_.]`)

// feqName: the symbol standing for the outcome of a float (in)equality test, named after its source text.
func feqName(x, y ast.Expr) string {
	return "feq$" + feqSafe.ReplaceAllString(exprString(x), "_") + "$" + feqSafe.ReplaceAllString(exprString(y), "_")
}

// bitTableFacts: the value of an uninterpreted bit operation on operands in 0..3 (the bit
// arithmetic of flags and two-bit indices), as ground implications.
func bitTableFacts(op string, a, b, r *Term) []*Term {
	var out []*Term
	for x := int64(0); x < 4; x++ {
		for y := int64(0); y < 4; y++ {
			var v int64
			switch op {
			case "bvand":
				v = x & y
			case "bvor":
				v = x | y
			case "bvxor":
				v = x ^ y
			case "bvandnot":
				v = x &^ y
			default:
				return nil
			}
			out = append(out, Implies(And(Eq(a, ConstI(x)), Eq(b, ConstI(y))), Eq(r, ConstI(v))))
		}
	}
	return out
}

// calleeObj: the object a call expression calls (nil when it is not a named function or method).
func (c *FuncCtx) calleeObj(call *ast.CallExpr) types.Object {
	switch f := call.Fun.(type) {
	case *ast.Ident:
		return c.info.Uses[f]
	case *ast.SelectorExpr:
		return c.info.Uses[f.Sel]
	}
	return nil
}

// intOperandsKey: the current values of the integer-typed identifiers inside a float comparison,
// as part of the name of its unknown outcome: the same text with the same integer inputs (and the
// float variables unchanged, checked separately) denotes the same test.
func (c *FuncCtx) intOperandsKey(st *State, e ast.Expr) string {
	key := ""
	seen := map[string]bool{}
	ast.Inspect(e, func(m ast.Node) bool {
		id, ok := m.(*ast.Ident)
		if !ok || seen[id.Name] {
			return true
		}
		obj := c.info.Uses[id]
		if obj == nil {
			return true
		}
		if _, isVar := obj.(*types.Var); !isVar {
			return true
		}
		if _, isInt := intKindOf(obj.Type()); !isInt {
			return true
		}
		seen[id.Name] = true
		if v, ok := st.vars[obj]; ok {
			if iv, ok := v.(IntV); ok {
				key += "$" + feqSafe.ReplaceAllString(iv.T.Key(), "_")
			}
		}
		return true
	})
	if len(key) > 160 {
		h := fnv.New64a()
		h.Write([]byte(key))
		key = fmt.Sprintf("$h%x", h.Sum64())
	}
	return key
}

// assignsField: the statement assigns to a selector expression (a struct field).
func assignsField(n ast.Node) bool {
	found := false
	ast.Inspect(n, func(m ast.Node) bool {
		if as, ok := m.(*ast.AssignStmt); ok {
			for _, l := range as.Lhs {
				if _, ok := stripParens(l).(*ast.SelectorExpr); ok {
					found = true
				}
			}
		}
		return !found
	})
	return found
}

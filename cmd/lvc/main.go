package main

import (
	"flag"
	"fmt"
	"os"
	"regexp"
	"sort"
	"strings"
	"time"
)

func usage() {
	fmt.Fprintln(os.Stderr, `usage:
  lvc verify [-repo /repo] [-pkg ./ring,...] [-f regexp] [-t sec] [-v]     (development)
  lvc check <property-id> [--tier quick|thorough]                            (registered checks)
  lvc lemmas                                                                 (prove the lemma library)`)
	os.Exit(2)
}

func main() {
	if len(os.Args) < 2 {
		usage()
	}
	switch os.Args[1] {
	case "verify":
		cmdVerify(os.Args[2:])
	case "lemmas":
		cmdLemmas(os.Args[2:])
	case "check":
		cmdCheck(os.Args[2:])
	default:
		usage()
	}
}

func cmdLemmas(args []string) {
	var obs []*Obligation
	for _, n := range lemmaNames() {
		obs = append(obs, lemmaLib[n].Proof())
	}
	DischargeAll(obs, 30)
	bad := 0
	for _, o := range obs {
		fmt.Printf("%-28s %-8s %-7s %.2fs\n", o.Name, o.Status, o.Solver, o.Seconds)
		if o.Status != "unsat" {
			bad++
		}
	}
	if bad > 0 {
		os.Exit(1)
	}
}

func cmdVerify(args []string) {
	fs := flag.NewFlagSet("verify", flag.ExitOnError)
	repo := fs.String("repo", "/repo", "repository root")
	pkgs := fs.String("pkg", "./ring", "comma separated package patterns")
	filt := fs.String("f", "", "regexp on function key")
	timeout := fs.Int("t", 5, "solver timeout per obligation (s)")
	verbose := fs.Bool("v", false, "print every obligation")
	_ = fs.Parse(args)
	t0 := time.Now()
	prog, err := LoadProgram(*repo, strings.Split(*pkgs, ",")...)
	if err != nil {
		fmt.Fprintln(os.Stderr, err)
		os.Exit(2)
	}
	fmt.Printf("loaded in %.1fs: %d contracts\n", time.Since(t0).Seconds(), len(prog.Contracts))
	var re *regexp.Regexp
	if *filt != "" {
		re = regexp.MustCompile(*filt)
	}
	var results []*FuncResult
	var all []*Obligation
	for _, k := range prog.Order {
		if re != nil && !re.MatchString(k) {
			continue
		}
		r := prog.VerifyFunc(k)
		results = append(results, r)
		all = append(all, r.Obls...)
	}
	used := map[string]bool{}
	for n := range usedLemmas {
		used[n] = true
	}
	var ln []string
	for n := range used {
		ln = append(ln, n)
	}
	sort.Strings(ln)
	for _, n := range ln {
		all = append(all, lemmaLib[n].Proof())
	}
	t1 := time.Now()
	DischargeAll(all, *timeout)
	fmt.Printf("%d obligations discharged in %.1fs\n", len(all), time.Since(t1).Seconds())
	bad := 0
	for _, r := range results {
		ok, n := 0, 0
		for _, o := range r.Obls {
			if o.Kind == "vacuity" {
				continue
			}
			n++
			if o.Status == "unsat" {
				ok++
			}
		}
		status := "ok"
		if r.Err != "" {
			status = "ERROR " + r.Err
			bad++
		} else if r.Trusted {
			status = "trusted"
		} else if ok != n {
			status = "FAILED"
			bad++
		}
		fmt.Printf("%-50s %3d/%3d %s\n", r.Name, ok, n, status)
		for _, o := range r.Obls {
			if o.Kind == "vacuity" {
				if o.Status == "unsat" {
					fmt.Printf("    VACUOUS preconditions: %s\n", o.Name)
					bad++
				}
				continue
			}
			if *verbose || o.Status != "unsat" {
				fmt.Printf("    %-60s %-8s %-7s %.2fs %s\n", o.Name, o.Status, o.Solver, o.Seconds, o.File)
				if o.Status == "sat" && len(o.Model) > 0 {
					var ks []string
					for k := range o.Model {
						ks = append(ks, k)
					}
					sort.Strings(ks)
					var parts []string
					for _, k := range ks {
						if len(parts) < 24 {
							parts = append(parts, k+"="+o.Model[k])
						}
					}
					fmt.Printf("        model: %s\n", strings.Join(parts, " "))
				}
			}
		}
	}
	for _, n := range ln {
		for _, o := range all {
			if o.Name == "lemma/"+n && o.Status != "unsat" {
				fmt.Printf("LEMMA %s: %s\n", n, o.Status)
				bad++
			}
		}
	}
	if bad > 0 {
		os.Exit(1)
	}
}


package rlwe

// Finding F41 (property C08): Scale.UnmarshalBinary has a VALUE receiver and forwards to the
// pointer-receiver UnmarshalJSON of its private copy: the bytes are decoded into the copy and the
// caller's scale keeps its old value; no error is reported.

import "testing"

func TestF41ScaleUnmarshalBinaryIsANoOp(t *testing.T) {
	src := NewScale(12345)
	p, err := src.MarshalBinary()
	if err != nil {
		t.Fatal(err)
	}
	var dst Scale
	if err := dst.UnmarshalBinary(p); err != nil {
		t.Fatal(err)
	}
	if dst.Cmp(src) != 0 {
		t.Errorf("UnmarshalBinary(MarshalBinary(12345)) = %v, want 12345", &dst.Value)
	}
	// control: the JSON entry point decodes
	var ctl Scale
	if err := ctl.UnmarshalJSON(p); err != nil {
		t.Fatal(err)
	}
	if ctl.Cmp(src) != 0 {
		t.Fatalf("control failed: %v", &ctl.Value)
	}
}

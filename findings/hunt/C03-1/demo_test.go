package rlwe

import (
	"math"
	"math/big"
	"testing"

	"github.com/tuneinsight/lattigo/v6/ring"
	"github.com/tuneinsight/lattigo/v6/utils/sampling"
)

// A secret-key encryptor writing into a degree-2 receiver in the coefficient (non-NTT) domain
// must produce a ciphertext that decrypts to the plaintext plus a small error.
func TestC03SkEncryptDegree2NonNTT(t *testing.T) {
	params, err := NewParametersFromLiteral(ParametersLiteral{
		LogN: 9,
		Q:    []uint64{0x200000440001, 0x7fff80001},
		P:    []uint64{0x3ffffffb80001},
		// NTTFlag false: plaintexts/ciphertexts are in the coefficient domain by default
	})
	if err != nil {
		t.Fatal(err)
	}

	kgen := NewKeyGenerator(params)
	sk := kgen.GenSecretKeyNew()
	enc := NewEncryptor(params, sk)
	dec := NewDecryptor(params, sk)

	prng, _ := sampling.NewKeyedPRNG([]byte("c03"))
	ringQ := params.RingQ()

	for _, degree := range []int{1, 2} {
		pt := NewPlaintext(params, params.MaxLevel())
		ring.NewUniformSampler(prng, ringQ).Read(pt.Value)
		if pt.IsNTT {
			t.Fatal("expected a non-NTT plaintext")
		}

		ct := NewCiphertext(params, degree, params.MaxLevel())
		if err := enc.Encrypt(pt, ct); err != nil {
			t.Fatal(err)
		}

		out := dec.DecryptNew(ct)

		if !out.MetaData.Equal(pt.MetaData) {
			t.Errorf("degree %d: metadata differs", degree)
		}

		diff := ringQ.NewPoly()
		ringQ.Sub(out.Value, pt.Value, diff)
		coeffs := make([]*big.Int, ringQ.N())
		for i := range coeffs {
			coeffs[i] = new(big.Int)
		}
		ringQ.PolyToBigintCentered(diff, 1, coeffs)
		var max float64
		for i := range coeffs {
			f, _ := new(big.Float).SetInt(coeffs[i]).Float64()
			max = math.Max(max, math.Abs(f))
		}

		if bound := params.NoiseBound() + 1; max > bound {
			t.Errorf("degree %d receiver: |Dec(Enc(pt)) - pt|_inf = %g, want <= %g", degree, max, bound)
		}
	}
}

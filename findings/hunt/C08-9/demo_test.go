package rlwe_test

import (
	"testing"

	"github.com/tuneinsight/lattigo/v6/core/rlwe"
	"github.com/tuneinsight/lattigo/v6/ring"
)

// The encoding of an Element explicitly supports a nil MetaData (leading flag byte 0), e.g. the
// elements returned by rlwe.NewElementAtLevelFromPoly ("Returned Element's MetaData is nil"). Such an object is written and read
// back correctly, but the equality check on it (Ciphertext.Equal / Plaintext.Equal / Element.Equal,
// which is also what buffer.RequireSerializerCorrect relies on through cmp.Equal) panics.
func TestC08EqualWithoutMetaData(t *testing.T) {

	el, err := rlwe.NewElementAtLevelFromPoly(1, []ring.Poly{ring.NewPoly(16, 1), ring.NewPoly(16, 1)})
	if err != nil {
		t.Fatal(err)
	}
	ct := &rlwe.Ciphertext{Element: *el}
	if ct.MetaData != nil {
		t.Fatal("expected a ciphertext without MetaData")
	}

	data, err := ct.MarshalBinary()
	if err != nil {
		t.Fatal(err)
	}

	got := new(rlwe.Ciphertext)
	if err = got.UnmarshalBinary(data); err != nil {
		t.Fatal(err)
	}

	var equal bool
	var p interface{}
	func() {
		defer func() { p = recover() }()
		equal = ct.Equal(got)
	}()

	if p != nil {
		t.Fatalf("Ciphertext.Equal panics on a (correctly) round-tripped ciphertext without MetaData: %v", p)
	}
	if !equal {
		t.Fatalf("round-tripped ciphertext not equal to the original")
	}
}

package probe2

import (
	"testing"

	"github.com/tuneinsight/lattigo/v6/core/rlwe"
	"github.com/tuneinsight/lattigo/v6/schemes/bgv"
)

// F10b: a literal with more than 32 Q moduli is accepted, then the basis extension used by the
// scale-invariant (BFV-style) multiplication indexes its [32]uint64 lane buffers out of range.
func TestManyModuli(t *testing.T) {
	logQ := make([]int, 34)
	for i := range logQ {
		logQ[i] = 30
	}
	p, err := bgv.NewParametersFromLiteral(bgv.ParametersLiteral{LogN: 10, LogQ: logQ, LogP: []int{30, 30}, PlaintextModulus: 0x10001})
	if err != nil {
		t.Logf("rejected: %v", err)
		return
	}
	t.Logf("accepted: %d Q moduli, %d P moduli", p.QCount(), p.PCount())
	defer func() {
		if e := recover(); e != nil {
			t.Errorf("panic with an accepted parameter set: %v", e)
		}
	}()
	kg := rlwe.NewKeyGenerator(p)
	sk := kg.GenSecretKeyNew()
	enc := rlwe.NewEncryptor(p, sk)
	pt := bgv.NewPlaintext(p, p.MaxLevel())
	ct, err := enc.EncryptNew(pt)
	if err != nil {
		t.Fatal(err)
	}
	eval := bgv.NewEvaluator(p, nil, true)
	out := rlwe.NewCiphertext(p, 2, p.MaxLevel())
	if err := eval.MulScaleInvariant(ct, ct, out); err != nil {
		t.Fatal(err)
	}
}

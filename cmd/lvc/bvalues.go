package main

// Engine B: symbolic execution of the go/ssa form of the code above the ring layer against
// *abstract* contracts.  Polynomials are not arrays of coefficients here but elements of an
// abstract commutative ring, tracked in ghost state:
//
//	val(p)   the ring element p represents, with every Montgomery factor stripped (an Int variable:
//	         a polynomial identity with integer coefficients that holds for all integer assignments
//	         is the zero polynomial, hence holds in every commutative ring, in particular in
//	         Z_Q[X]/(X^N+1))
//	mexp(p)  the number of Montgomery factors 2^64 carried by the representation
//	isntt(p) whether the representation is in the NTT domain
//
// The identity of a polynomial is the identity of its Coeffs backing array (a Go object), so
// copies of a ring.Poly struct alias exactly as they do in Go.  Arithmetic leaves (ring.Ring,
// ringqp.Ring, samplers, basis extender) carry abstract contracts (`abstract` blocks in the
// contract files); every other module function called from a function under contract is either
// under contract itself or executed inline (accessors such as Level(), RingQ(), AtLevel()).

import (
	"golang.org/x/tools/go/ssa"
	"runtime/debug"
	"os"
	"fmt"
	"go/types"
	"sort"
	"strings"
)

type bVal interface{}

type bScalar struct{ t *Term } // Int- or Bool-sorted term

// bPtr points to the location path inside object obj ("" = the whole object).
type bPtr struct {
	obj  int
	path string
	nilv *Term // non-nil: the pointer is nil exactly when this boolean holds (contracts with `nilable`)
}

// bStruct is a struct value.  Missing fields are materialised lazily: symbolically (named
// sym.field) when sym != "", as zero values otherwise.
type bStruct struct {
	typ types.Type
	f   map[string]bVal
	sym string
	ver int // bumped by every store into the struct (or below it): the contents' identity is (sym, ver)
}

// bSlice: a slice value over the array object arr.
type bSlice struct {
	arr int
	len *Term
	cap *Term // nil: unknown (not tracked)
	nil_ bool
}

type bIface struct {
	dyn types.Type // nil: unknown dynamic type (symbolic)
	val bVal
	sym string
	isNil bool
}

type bOpaque struct {
	typ  types.Type
	name string
}

type bTuple []bVal

type bFuncVal struct {
	name string
	fn   *ssa.Function // known function (a function literal, a bound method value): can be called
	free []bVal        // values of its free variables
}

// bObject: a heap object (allocation or symbolic input object).
type bObject struct {
	id   int
	typ  types.Type // type of the contents (struct type, or element type for arrays)
	arr  bool       // array object: contents keyed "[k]"
	root bVal       // for non-array objects: the contents (bStruct or any value for *T with scalar T)
	elems map[string]bVal
	sym  string
	ver  int // bumped by every store into an array object
}

func (o *bObject) clone() *bObject {
	n := *o
	n.root = cloneVal(o.root)
	if o.elems != nil {
		n.elems = make(map[string]bVal, len(o.elems))
		for k, v := range o.elems {
			n.elems[k] = cloneVal(v)
		}
	}
	return &n
}

func cloneVal(v bVal) bVal {
	switch x := v.(type) {
	case *bStruct:
		n := &bStruct{typ: x.typ, sym: x.sym, ver: x.ver, f: make(map[string]bVal, len(x.f))}
		for k, f := range x.f {
			n.f[k] = cloneVal(f)
		}
		return n
	case *bIface:
		n := *x
		n.val = cloneVal(x.val)
		return &n
	case bTuple:
		n := make(bTuple, len(x))
		for i := range x {
			n[i] = cloneVal(x[i])
		}
		return n
	}
	return v
}

// symbolic object ids are a function of their access-path name, so that every path (and every
// lazily materialising branch) agrees on them.
type bRegistry struct {
	ids   map[string]int
	next  int
	types map[int]types.Type
	meta  map[int]bObjMeta
}

// bObjMeta lets any path re-create a symbolic input object it has not touched yet.
type bObjMeta struct {
	name string
	typ  types.Type
	arr  bool
}

func newRegistry() *bRegistry {
	return &bRegistry{ids: map[string]int{}, next: 1000, types: map[int]types.Type{}, meta: map[int]bObjMeta{}}
}

func (r *bRegistry) idFor(name string) int {
	if id, ok := r.ids[name]; ok {
		return id
	}
	r.next++
	r.ids[name] = r.next
	return r.next
}

type bFrame struct {
	fn     interface{} // *ssa.Function
	vals   map[interface{}]bVal
	block  int
	prev   int
	pc     int
	call   interface{} // the call instruction in the caller waiting for this frame's result
	visits map[int]int // loop-header visit counts
	abs    map[int]bool // loop headers entered in abstracted form (loopabs)
}

type bState struct {
	frames []*bFrame
	objs   map[int]*bObject
	ghost  map[string]*Term // ghost arrays (val, mexp, ntt) and ghost counters
	path   []*Term
	seen   map[string]bool
	nextID int
	consts map[string]*Term // scalar variables pinned to constants by the path
	calls  []string         // inlining stack (recursion guard)
	branch map[string]bool  // path entries that are branch conditions (the others are facts: contract postconditions, ranges)
	mapv   map[string]map[string]bMapEntry // what is known of the maps: identity -> rendered key -> entry (see mapLookup)
}

// bMapEntry: the value a map holds for a key, and whether the key is present.
type bMapEntry struct {
	val bVal
	ok  *Term
}

func (s *bState) clone() *bState {
	n := &bState{objs: make(map[int]*bObject, len(s.objs)), ghost: make(map[string]*Term, len(s.ghost)),
		seen: make(map[string]bool, len(s.seen)), nextID: s.nextID, consts: make(map[string]*Term, len(s.consts))}
	for _, f := range s.frames {
		nf := *f
		nf.vals = make(map[interface{}]bVal, len(f.vals))
		for k, v := range f.vals {
			nf.vals[k] = cloneVal(v)
		}
		nf.visits = make(map[int]int, len(f.visits))
		for k, v := range f.visits {
			nf.visits[k] = v
		}
		if f.abs != nil {
			nf.abs = make(map[int]bool, len(f.abs))
			for k, v := range f.abs {
				nf.abs[k] = v
			}
		}
		n.frames = append(n.frames, &nf)
	}
	for k, o := range s.objs {
		n.objs[k] = o.clone()
	}
	for k, v := range s.ghost {
		n.ghost[k] = v
	}
	for k, v := range s.seen {
		n.seen[k] = v
	}
	for k, v := range s.consts {
		n.consts[k] = v
	}
	n.path = append([]*Term(nil), s.path...)
	n.calls = append([]string(nil), s.calls...)
	if s.mapv != nil {
		n.mapv = make(map[string]map[string]bMapEntry, len(s.mapv))
		for k, m := range s.mapv {
			nm := make(map[string]bMapEntry, len(m))
			for kk, en := range m {
				nm[kk] = bMapEntry{val: cloneVal(en.val), ok: en.ok}
			}
			n.mapv[k] = nm
		}
	}
	if s.branch != nil {
		n.branch = make(map[string]bool, len(s.branch))
		for k, v := range s.branch {
			n.branch[k] = v
		}
	}
	return n
}

// assumeBranch records a branch condition (as opposed to a fact).
func (s *bState) assumeBranch(t *Term) {
	if s.branch == nil {
		s.branch = map[string]bool{}
	}
	var mark func(t *Term)
	mark = func(t *Term) {
		if t.Op == "and" {
			for _, a := range t.Args {
				mark(a)
			}
			return
		}
		s.branch[t.Key()] = true
	}
	mark(t)
	s.assume(t)
}

func (s *bState) assume(t *Term) {
	if t.IsTrue() {
		return
	}
	if t.Op == "and" {
		for _, a := range t.Args {
			s.assume(a)
		}
		return
	}
	k := t.Key()
	if s.seen[k] {
		return
	}
	s.seen[k] = true
	if t.IsFalse() && os.Getenv("LVC_DEBUG") != "" {
		fmt.Fprintf(os.Stderr, "assume(false) at:\n%s\n", debug.Stack())
	}
	s.path = append(s.path, t)
	// pin variables to constants
	if t.Op == "eq" {
		a, b := t.Args[0], t.Args[1]
		if a.Op == "var" && b.IsConst() {
			s.consts[a.Name] = b
		} else if b.Op == "var" && a.IsConst() {
			s.consts[b.Name] = a
		} else if a.Op == "var" && b.Op == "var" && a.Sort == SInt && b.Sort == SInt && a.Name != b.Name {
			// two input quantities the contract equates (ring degrees of two ciphertexts): one name for both,
			// so that a comparison between them is decided
			if _, seen := s.consts[b.Name]; !seen {
				if _, seen := s.consts[a.Name]; !seen {
					s.consts[a.Name] = b
				}
			}
		} else if a.Op == "var" && b.Op == "app" && (strings.HasPrefix(b.Name, "cmpval") || strings.HasPrefix(b.Name, "uf_")) && strings.Contains(a.Name, ".res") {
			// the result of a comparison under contract is the (uninterpreted) outcome the contract names:
			// a branch on it is then decided by what the preconditions say about that outcome
			s.consts[a.Name] = b
		}
	}
	if t.Op == "var" && t.Sort == SBool {
		s.consts[t.Name] = TTrue
	}
	if t.Op == "not" && t.Args[0].Op == "var" {
		s.consts[t.Args[0].Name] = TFalse
	}
}

// norm substitutes the variables pinned by the path.
func (s *bState) norm(t *Term) *Term {
	if len(s.consts) == 0 || t == nil {
		return t
	}
	has := false
	t.walk(func(x *Term) {
		if x.Op == "var" {
			if _, ok := s.consts[x.Name]; ok {
				has = true
			}
		}
	})
	if !has {
		return t
	}
	return t.Subst(s.consts)
}

func bTypeName(t types.Type) string {
	return types.TypeString(t, func(p *types.Package) string { return p.Name() })
}

func sortedKeys(m map[string]bVal) []string {
	var ks []string
	for k := range m {
		ks = append(ks, k)
	}
	sort.Strings(ks)
	return ks
}

func describeVal(v bVal) string {
	switch x := v.(type) {
	case bScalar:
		return x.t.Key()
	case bPtr:
		return fmt.Sprintf("&obj%d%s", x.obj, x.path)
	case *bStruct:
		return "struct " + bTypeName(x.typ) + "{" + strings.Join(sortedKeys(x.f), ",") + "}"
	case bSlice:
		return fmt.Sprintf("slice(obj%d)", x.arr)
	case *bIface:
		return "iface"
	case bOpaque:
		return "opaque " + x.name
	}
	return fmt.Sprintf("%T", v)
}

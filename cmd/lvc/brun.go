package main

import (
	"fmt"
	"math/big"
	"os"
	"go/ast"
	"go/parser"
	"go/token"
	"go/types"
	"sort"
	"strings"

	"golang.org/x/tools/go/ssa"
)

// ---------- contracts ----------

func isAbstract(c *Contract) bool { _, ok := c.Raw["abstract"]; return ok }

func (e *bEngine) contractFor(fn *ssa.Function) (*Contract, string) {
	key := frameKey(fn)
	if key == "" {
		return nil, ""
	}
	if fn.Synthetic != "" && !strings.Contains(fn.Synthetic, "instance") {
		// wrappers of promoted methods, bound-method closures and thunks are executed inline: they
		// call the declared method, which is where the contract applies
		return nil, key
	}
	if c, ok := e.prog.AContracts[key]; ok {
		return c, key
	}
	return nil, key
}

func paramNamesSSA(fn *ssa.Function) []string {
	var n []string
	for _, p := range fn.Params {
		n = append(n, p.Name())
	}
	return n
}

func (e *bEngine) env(st, old *bState, bind, obind map[string]bVal, con *Contract, pkg string) *bEnv {
	return &bEnv{e: e, st: st, old: old, bind: bind, obind: obind, lets: con.Lets, pkg: pkg}
}

func rawExprs(con *Contract, key string) []ast.Expr {
	var out []ast.Expr
	for _, s := range con.Raw[key] {
		for _, part := range splitTop(s, ',') {
			part = strings.TrimSpace(part)
			if part == "" {
				continue
			}
			x, err := parser.ParseExpr(part)
			if err != nil {
				panic(verr("%s: %s %q: %v", con.File, key, part, err))
			}
			out = append(out, x)
		}
	}
	return out
}

// havocPoly gives fresh ghost attributes to a polynomial (or to both halves of a ringqp.Poly).
func (e *bEngine) havocPoly(st *bState, v bVal, what string) {
	if id, ok := e.polyID(st, v); ok {
		for _, g := range []string{"val", "mexp", "ntt", "uni"} {
			arr := e.ghostArr(st, g)
			st.ghost[g] = Store(arr, ConstI(int64(id)), Var(e.freshName(g), SInt))
		}
		return
	}
	if sv, ok := v.(*bStruct); ok && fieldType(sv.typ, "Q") != nil && fieldType(sv.typ, "P") != nil {
		e.havocPoly(st, e.field(st, sv, "Q"), what)
		if _, ok := e.polyID(st, e.field(st, sv, "P")); ok {
			e.havocPoly(st, e.field(st, sv, "P"), what)
		}
		return
	}
	if p, ok := v.(bPtr); ok && p.obj != 0 {
		e.havocPoly(st, e.loadAt(st, p), what)
		return
	}
	// a nil / empty polynomial: nothing to havoc
}

func shallowOld(st *bState) *bState {
	o := &bState{objs: st.objs, ghost: map[string]*Term{}, path: st.path, seen: st.seen, consts: st.consts, frames: st.frames}
	for k, v := range st.ghost {
		o.ghost[k] = v
	}
	return o
}

func (e *bEngine) applyContract(st *bState, con *Contract, callee *ssa.Function, args []bVal, at string) bVal {
	if con.Trusted {
		e.note("ASSUMED (trusted leaf, contract applied not verified): " + shortPkg(frameKeyOrName(callee)))
	} else {
		e.note("callee replaced by its contract (verified under its own name): " + shortPkg(frameKeyOrName(callee)))
	}
	bind := map[string]bVal{}
	for i, n := range paramNamesSSA(callee) {
		if i < len(args) {
			bind[n] = args[i]
		}
	}
	pkg := ""
	if callee.Pkg != nil {
		pkg = callee.Pkg.Pkg.Path()
	} else if o := callee.Origin(); o != nil && o.Pkg != nil {
		pkg = o.Pkg.Pkg.Path()
	}
	short := shortPkg(frameKey(callee))
	if frameKey(callee) == frameKey(e.fn) && e.topBind != nil {
		// a recursive call of the function under verification: its measure (decreases clause) must
		// go down and stay non-negative, otherwise the recursion need not end (stack overflow)
		for i, ds := range con.Raw["decreases"] {
			dx, err := parser.ParseExpr(strings.TrimSpace(ds))
			if err != nil {
				panic(verr("%s: bad decreases clause %q", con.File, ds))
			}
			m0 := e.env(e.entry, e.entry, e.topBind, nil, con, pkg).Term(dx)
			m1 := e.env(st, st, bind, nil, con, pkg).Term(dx)
			e.oblige(st, "decreases", fmt.Sprintf("%s.%d", short, i), And(Le(ConstI(0), m1), Lt(m1, m0)), at)
		}
		if len(con.Raw["decreases"]) == 0 {
			e.note("recursive call without a decreases clause: termination of the recursion is not checked")
		}
	}
	for i, r := range con.Requires {
		g := e.env(st, st, bind, nil, con, pkg).Term(r.Expr)
		e.oblige(st, "requires", fmt.Sprintf("%s.%d", short, i), g, at)
		st.assume(g)
	}
	// rowsafe <cond>: the memory-safety precondition of a leaf over the ROWS of its operands (every polynomial it
	// touches has more rows than the level of the ring).  Owed only by callers that ask for it (`safety rows`):
	// most contracts say nothing about the shape of their inputs.
	if e.safetyRows {
		for i, raw := range con.Raw["rowsafe"] {
			x, err := parser.ParseExpr(strings.TrimSpace(raw))
			if err != nil {
				panic(verr("%s: bad rowsafe clause %q", con.File, raw))
			}
			g := e.env(st, st, bind, nil, con, pkg).Term(x)
			e.oblige(st, "requires", fmt.Sprintf("%s.rows%d", short, i), g, at)
			st.assume(g)
		}
	}
	// wlog <cond> given <guard>: the callee may choose the interpretation of a uniform element;
	// the caller only owes the guard
	for i, w := range con.Raw["wlog"] {
		_, guard := parseWlog(w, con.File)
		g := e.env(st, st, bind, nil, con, pkg).Term(guard)
		e.oblige(st, "requires", fmt.Sprintf("%s.wlog%d", short, i), g, at)
		st.assume(g)
	}
	pre := shallowOld(st)
	for _, x := range con.Assigns {
		e.havocPoly(st, e.env(st, st, bind, nil, con, pkg).Eval(x), short)
	}
	// clobbers <expr>: the callee may write every polynomial REACHABLE from that value (a receiver handed over
	// as an interface, a matrix of rows whose shape the contract does not fix): their ghost attributes are forgotten
	for _, raw := range con.Raw["clobbers"] {
		for _, part := range splitTop(raw, ',') {
			x, err := parser.ParseExpr(strings.TrimSpace(part))
			if err != nil {
				panic(verr("%s: bad clobbers clause %q", con.File, raw))
			}
			e.clobber(st, e.env(st, st, bind, nil, con, pkg).Eval(x), map[string]bool{}, 0)
		}
	}
	e.applyDraws(st, con, bind, pkg)
	e.applyHavocs(st, con, bind, pkg, func(name string) types.Type {
		for _, p := range callee.Params {
			if p.Name() == name {
				return p.Type()
			}
		}
		return nil
	})
	// results
	var res bVal
	rs := callee.Signature.Results()
	b2 := map[string]bVal{}
	for k, v := range bind {
		b2[k] = v
	}
	var tuple bTuple
	for i := 0; i < rs.Len(); i++ {
		v := e.symVal(st, e.freshName(short+".res"), rs.At(i).Type())
		tuple = append(tuple, v)
		if n := rs.At(i).Name(); n != "" {
			b2[n] = v
		}
		b2[fmt.Sprintf("result%d", i)] = v
	}
	if len(tuple) == 1 {
		res = tuple[0]
		b2["result"] = tuple[0]
	} else if len(tuple) > 1 {
		res = tuple
	}
	for _, en := range con.Ensures {
		env := e.env(st, pre, b2, bind, con, pkg)
		env.callee = true
		g := env.Term(en.Expr)
		if st.norm(g).IsFalse() {
			// a postcondition that is plainly false in the state after the callee's declared effects
			// would silently make the rest of the path vacuous: the callee's contract does not
			// describe its effects (assigns / draw / gset) at this call
			panic(verr("the postcondition `%s` of %s is contradictory after its declared effects at %s (the path would be vacuous)", exprString(en.Expr), short, at))
		}
		st.assume(g)
	}
	return res
}

// havoc <pointer parameter>: the pointee receives a fresh symbolic value of its type.
// gset <ghost>(<expr>) = <expr> | *: a ghost counter of an object is set (or forgotten).
func (e *bEngine) applyHavocs(st *bState, con *Contract, bind map[string]bVal, pkg string, paramType func(string) types.Type) {
	for _, s := range con.Raw["havoc"] {
		for _, name := range strings.Fields(strings.ReplaceAll(s, ",", " ")) {
			v, ok := bind[name]
			if !ok {
				panic(verr("%s: havoc %s: not a parameter", con.File, name))
			}
			p, isPtr := v.(bPtr)
			pt := paramType(name)
			if !isPtr || pt == nil {
				panic(verr("%s: havoc %s: not a pointer parameter", con.File, name))
			}
			if p.obj == 0 {
				continue
			}
			p = e.nonNil(st, p)
			pp, ok := pt.Underlying().(*types.Pointer)
			if !ok {
				panic(verr("%s: havoc %s: not a pointer parameter", con.File, name))
			}
			et := pp.Elem()
			if o := e.obj(st, p.obj); p.path == "" && !o.arr && o.typ != nil {
				// a scalar written through a reinterpreting pointer cast (*int as *uint64): the
				// object keeps its own type, every bit pattern of it is possible
				if _, isBasic := o.typ.Underlying().(*types.Basic); isBasic {
					et = o.typ
				}
			}
			e.storeAt(st, p, e.symVal(st, e.freshName("hv."+name), et))
		}
	}
	// setlen <pointer param>.<slice field> = <expr>: the callee re-slices / grows a slice field of its receiver
	for _, s := range con.Raw["setlen"] {
		// setlen x.f = n ; zero : the elements the slice GAINS are polynomials holding the zero element
		// ... ; rows <expr> : afterwards every element of the slice is a polynomial with that many rows
		// (Element.Resize brings every component to the requested level)
		zeroNew := false
		var rowsExpr ast.Expr
		if i := strings.Index(s, ";"); i >= 0 {
			for _, opt := range strings.Split(s[i+1:], ";") {
				opt = strings.TrimSpace(opt)
				switch {
				case opt == "zero":
					zeroNew = true
				case strings.HasPrefix(opt, "rows "):
					rx, err := parser.ParseExpr(strings.TrimSpace(strings.TrimPrefix(opt, "rows ")))
					if err != nil {
						panic(verr("%s: setlen: bad rows expression %q", con.File, opt))
					}
					rowsExpr = rx
				default:
					panic(verr("%s: setlen: unknown option %q", con.File, opt))
				}
			}
			s = s[:i]
		}
		kv := strings.SplitN(s, "=", 2)
		if len(kv) != 2 {
			panic(verr("%s: setlen expects: x.f = expr", con.File))
		}
		lx, err1 := parser.ParseExpr(strings.TrimSpace(kv[0]))
		rx, err2 := parser.ParseExpr(strings.TrimSpace(kv[1]))
		sel, isSel := lx.(*ast.SelectorExpr)
		if err1 != nil || err2 != nil || !isSel {
			panic(verr("%s: bad setlen clause %q", con.File, s))
		}
		env := e.env(st, st, bind, nil, con, pkg)
		base, ok := env.Eval(sel.X).(bPtr)
		if !ok || base.obj == 0 {
			panic(verr("%s: setlen: %s is not a non-nil pointer", con.File, exprString(sel.X)))
		}
		base = e.nonNil(st, base)
		fp := bPtr{obj: base.obj, path: base.path + "/" + sel.Sel.Name}
		cur, ok := e.loadAt(st, fp).(bSlice)
		if !ok {
			panic(verr("%s: setlen: %s is not a slice", con.File, exprString(lx)))
		}
		n := env.Term(rx)
		if cur.nil_ {
			st.nextID++
			st.objs[st.nextID] = &bObject{id: st.nextID, arr: true, elems: map[string]bVal{}, sym: e.freshName("grown")}
			if pt := paramType(exprString(sel.X)); pt != nil {
				if ft := fieldType(deref(pt), sel.Sel.Name); ft != nil {
					if sl, ok := ft.Underlying().(*types.Slice); ok {
						st.objs[st.nextID].typ = sl.Elem()
					}
				}
			}
			cur = bSlice{arr: st.nextID}
		}
		oldLen := st.norm(cur.len)
		cur.len, cur.cap = n, nil
		e.storeAt(st, fp, cur)
		if nl := st.norm(n); rowsExpr != nil && nl.IsConst() && nl.Val.IsInt64() {
			rows := env.Term(rowsExpr)
			for i := int64(0); i < nl.Val.Int64(); i++ {
				ep := bPtr{obj: cur.arr, path: fmt.Sprintf("/[%d]", i)}
				if pv, ok := e.loadAt(st, ep).(*bStruct); ok && fieldType(pv.typ, "Coeffs") != nil {
					if cs, ok := e.field(st, pv, "Coeffs").(bSlice); ok && !cs.nil_ {
						cs.len, cs.cap = rows, nil
						e.storeAt(st, bPtr{obj: cur.arr, path: ep.path + "/Coeffs"}, cs)
					}
				}
			}
		}
		if nl := st.norm(n); zeroNew && oldLen != nil && oldLen.IsConst() && nl.IsConst() && nl.Val.IsInt64() && oldLen.Val.IsInt64() {
			for i := oldLen.Val.Int64(); i < nl.Val.Int64(); i++ {
				pv := e.loadAt(st, bPtr{obj: cur.arr, path: fmt.Sprintf("/[%d]", i)})
				if id, ok := e.polyID(st, pv); ok {
					st.ghost["val"] = Store(e.ghostArr(st, "val"), ConstI(int64(id)), ConstI(0))
					st.ghost["ntt"] = Store(e.ghostArr(st, "ntt"), ConstI(int64(id)), ConstI(2))
				}
			}
		}
	}
	for _, s := range con.Raw["gset"] {
		kv := strings.SplitN(s, "=", 2)
		if len(kv) != 2 {
			panic(verr("%s: gset expects: ghost(expr) = expr|*", con.File))
		}
		lx, err := parser.ParseExpr(strings.TrimSpace(kv[0]))
		call, isCall := lx.(*ast.CallExpr)
		if err != nil || !isCall || len(call.Args) != 1 {
			panic(verr("%s: bad gset clause %q", con.File, s))
		}
		g := exprString(call.Fun)
		env := e.env(st, st, bind, nil, con, pkg)
		id := ConstI(int64(e.objectIdentity(st, env.Eval(call.Args[0]), call.Args[0])))
		var val *Term
		if strings.TrimSpace(kv[1]) == "*" {
			val = Var(e.freshName(g), SInt)
			st.assume(Le(ConstI(0), val))
		} else {
			rx, err := parser.ParseExpr(strings.TrimSpace(kv[1]))
			if err != nil {
				panic(verr("%s: bad gset clause %q", con.File, s))
			}
			val = env.Term(rx)
		}
		st.ghost[g] = Store(e.ghostArr(st, g), id, val)
	}
}

func parseWlog(s, where string) (cond, guard ast.Expr) {
	i := strings.Index(s, " given ")
	if i < 0 {
		panic(verr("%s: wlog expects: <cond> given <guard>", where))
	}
	c, err1 := parser.ParseExpr(strings.TrimSpace(s[:i]))
	g, err2 := parser.ParseExpr(strings.TrimSpace(s[i+7:]))
	if err1 != nil || err2 != nil {
		panic(verr("%s: bad wlog clause %q", where, s))
	}
	return c, g
}

// draw <dist expr> <poly expr>: the polynomial receives the next fresh value of the distribution.
func (e *bEngine) applyDraws(st *bState, con *Contract, bind map[string]bVal, pkg string) {
	for _, s := range con.Raw["draw"] {
		parts := splitTop(s, ',')
		if len(parts) == 1 && strings.TrimSpace(parts[0]) != "" {
			// draw <dist>: one value of the distribution is consumed; where it goes is said by the postconditions
			dx, err := parser.ParseExpr(strings.TrimSpace(parts[0]))
			if err != nil {
				panic(verr("%s: bad draw clause %q", con.File, s))
			}
			d := e.env(st, st, bind, nil, con, pkg).Term(dx)
			cnt := e.ghostArr(st, "draws")
			st.ghost["draws"] = Store(cnt, d, Add(Select(cnt, d), ConstI(1)))
			continue
		}
		if len(parts) < 2 {
			panic(verr("%s: draw expects: dist[, poly[, add]]", con.File))
		}
		dx, err1 := parser.ParseExpr(strings.TrimSpace(parts[0]))
		px, err2 := parser.ParseExpr(strings.TrimSpace(parts[1]))
		if err1 != nil || err2 != nil {
			panic(verr("%s: bad draw clause %q", con.File, s))
		}
		add := len(parts) > 2 && strings.TrimSpace(parts[2]) == "add"
		env := e.env(st, st, bind, nil, con, pkg)
		d := env.Term(dx)
		pv := env.Eval(px)
		var polys []bVal
		if _, ok := e.polyID(st, pv); ok {
			polys = []bVal{pv}
		} else if sv, ok := pv.(*bStruct); ok && fieldType(sv.typ, "Q") != nil {
			polys = append(polys, e.field(st, sv, "Q"))
			if _, ok := e.polyID(st, e.field(st, sv, "P")); ok {
				polys = append(polys, e.field(st, sv, "P"))
			}
		} else {
			panic(verr("%s: draw target is not a polynomial", con.File))
		}
		cnt := e.ghostArr(st, "draws")
		n := Select(cnt, d)
		fresh := App("fresh", SInt, d, n)
		for _, p := range polys {
			id, _ := e.polyID(st, p)
			idt := ConstI(int64(id))
			va := e.ghostArr(st, "val")
			if add {
				st.ghost["val"] = Store(va, idt, Add(Select(va, idt), fresh))
			} else {
				st.ghost["val"] = Store(va, idt, fresh)
			}
		}
		st.ghost["draws"] = Store(cnt, d, Add(n, ConstI(1)))
	}
}

// ---------- the machine ----------

func isLoopHeader(b *ssa.BasicBlock) bool {
	for _, p := range b.Preds {
		if b.Dominates(p) {
			return true
		}
	}
	return false
}

// pureScalarLoop: the natural loop of header h contains only scalar computation (no store, no
// call, no map update, no allocation) and its loop-carried values are scalars.
func pureScalarLoop(h *ssa.BasicBlock) bool {
	body := map[*ssa.BasicBlock]bool{h: true}
	var stack []*ssa.BasicBlock
	for _, p := range h.Preds {
		if h.Dominates(p) && !body[p] {
			body[p] = true
			stack = append(stack, p)
		}
	}
	for len(stack) > 0 {
		b := stack[len(stack)-1]
		stack = stack[:len(stack)-1]
		for _, p := range b.Preds {
			if !body[p] && h.Dominates(p) {
				body[p] = true
				stack = append(stack, p)
			}
		}
	}
	for b := range body {
		for _, ins := range b.Instrs {
			switch x := ins.(type) {
			case *ssa.Phi:
				if _, ok := x.Type().Underlying().(*types.Basic); !ok {
					return false
				}
			case *ssa.BinOp, *ssa.UnOp, *ssa.Convert, *ssa.ChangeType, *ssa.If, *ssa.Jump, *ssa.DebugRef:
				if u, ok := ins.(*ssa.UnOp); ok && u.Op == token.MUL {
					return false // loads: the loop reads memory, keep it concrete
				}
			default:
				return false
			}
		}
	}
	return true
}

type leafLoop struct {
	body   map[*ssa.BasicBlock]bool
	stores []*ssa.IndexAddr
	exit   *ssa.BasicBlock
	exitOn bool // the exit edge is taken when the header condition is exitOn
	cond   ssa.Value
}

// leafArrayLoop recognises a loop whose body consists of scalar computation, element loads,
// re-slicing, calls of functions outside the module (treated as pure) and stores into slice
// elements, with a single exit at the header.
func leafArrayLoop(h *ssa.BasicBlock) *leafLoop {
	body := map[*ssa.BasicBlock]bool{h: true}
	var stack []*ssa.BasicBlock
	for _, p := range h.Preds {
		if h.Dominates(p) && !body[p] {
			body[p] = true
			stack = append(stack, p)
		}
	}
	for len(stack) > 0 {
		b := stack[len(stack)-1]
		stack = stack[:len(stack)-1]
		for _, p := range b.Preds {
			if !body[p] && h.Dominates(p) {
				body[p] = true
				stack = append(stack, p)
			}
		}
	}
	ll := &leafLoop{body: body}
	iff, ok := h.Instrs[len(h.Instrs)-1].(*ssa.If)
	if !ok || len(h.Succs) != 2 {
		return nil
	}
	switch {
	case body[h.Succs[0]] && !body[h.Succs[1]]:
		ll.exit, ll.exitOn = h.Succs[1], false
	case body[h.Succs[1]] && !body[h.Succs[0]]:
		ll.exit, ll.exitOn = h.Succs[0], true
	default:
		return nil
	}
	ll.cond = iff.Cond
	for b := range body {
		for _, s := range b.Succs {
			if !body[s] && b != h {
				return nil // another exit (break, return)
			}
		}
		for _, ins := range b.Instrs {
			switch x := ins.(type) {
			case *ssa.Phi:
				if _, ok := x.Type().Underlying().(*types.Basic); !ok {
					return nil
				}
			case *ssa.BinOp, *ssa.UnOp, *ssa.Convert, *ssa.ChangeType, *ssa.If, *ssa.Jump, *ssa.DebugRef, *ssa.Slice, *ssa.IndexAddr, *ssa.Index:
			case *ssa.Store:
				ia, ok := x.Addr.(*ssa.IndexAddr)
				if !ok {
					return nil
				}
				ll.stores = append(ll.stores, ia)
			case *ssa.Call:
				if f, ok := x.Call.Value.(*ssa.Function); !ok || isModuleFunc(f) {
					return nil
				}
			default:
				return nil
			}
		}
	}
	return ll
}

// skipLeafLoop performs the abstraction; false when the stored arrays cannot be named at the header.
func (e *bEngine) skipLeafLoop(st *bState, fr *bFrame, h *ssa.BasicBlock, ll *leafLoop) bool {
	var arrs []int
	for _, ia := range ll.stores {
		v, ok := fr.vals[ia.X]
		if !ok {
			return false
		}
		switch b := v.(type) {
		case bSlice:
			if b.nil_ {
				return false
			}
			arrs = append(arrs, b.arr)
		case bPtr:
			arrs = append(arrs, b.obj)
		default:
			return false
		}
	}
	for _, id := range arrs {
		o := e.obj(st, id)
		if !o.arr {
			return false
		}
		o.elems = map[string]bVal{}
		o.sym = e.freshName("loopwritten")
		o.ver++
	}
	for _, ins := range h.Instrs {
		if phi, ok := ins.(*ssa.Phi); ok {
			fr.vals[phi] = e.symVal(st, e.freshName("loop."+phi.Name()), phi.Type())
		}
	}
	// evaluate the header up to its condition with the unknown loop-carried values
	for _, ins := range h.Instrs {
		switch x := ins.(type) {
		case *ssa.Phi, *ssa.DebugRef, *ssa.If:
		case *ssa.BinOp:
			fr.vals[x] = e.binop(st, x.Op, e.get(st, fr, x.X), e.get(st, fr, x.Y), x.Type())
		default:
			return false
		}
	}
	c, ok := asScalar(e.get(st, fr, ll.cond))
	if !ok {
		return false
	}
	if ll.exitOn {
		st.assumeBranch(c)
	} else {
		st.assumeBranch(Not(c))
	}
	fr.prev = fr.block
	fr.block = ll.exit.Index
	fr.pc = 0
	return true
}

func (e *bEngine) pushFrame(st *bState, fn *ssa.Function, args []bVal, call ssa.CallInstruction, bindings []bVal) {
	fr := &bFrame{fn: fn, vals: map[interface{}]bVal{}, visits: map[int]int{}, prev: -1}
	for i, p := range fn.Params {
		if i < len(args) {
			fr.vals[p] = args[i]
		}
	}
	for i, fv := range fn.FreeVars {
		if i < len(bindings) {
			fr.vals[fv] = bindings[i]
		}
	}
	if call != nil {
		fr.call = call
	}
	st.frames = append(st.frames, fr)
	st.calls = append(st.calls, fn.String())
}

func (e *bEngine) runAll(init *bState, atReturn func(st *bState, res bVal)) {
	work := []*bState{init}
	for len(work) > 0 {
		st := work[len(work)-1]
		work = work[:len(work)-1]
		e.paths++
		if e.paths > bMaxPaths && e.paths > e.maxPaths {
			panic(verr("more than %d paths", max(bMaxPaths, e.maxPaths)))
		}
		e.runPath(st, &work, atReturn)
	}
}

func (e *bEngine) endPath(why string) {
	e.ended[why]++
}

func (e *bEngine) runPath(st *bState, work *[]*bState, atReturn func(st *bState, res bVal)) {
	defer func() {
		if r := recover(); r != nil {
			if pe, ok := r.(bPathEnd); ok {
				e.endPath(pe.why)
				return
			}
			if _, ok := r.(verifError); ok {
				// an unsupported construct on an infeasible path is harmless: ask the solver
				o := &Obligation{Name: e.name + "/feasibility", Func: e.name, Kind: "feasibility", Goal: TFalse, Native: true}
				o.Assume = append([]*Term(nil), st.path...)
				o.Discharge(3)
				if o.Status == "unsat" {
					e.endPath("infeasible path pruned")
					return
				}
			}
			panic(r)
		}
	}()
	for steps := 0; ; steps++ {
		if steps > 200000 {
			panic(verr("path too long"))
		}
		fr := st.frames[len(st.frames)-1]
		fn := fr.fn.(*ssa.Function)
		blk := fn.Blocks[fr.block]
		if fr.pc == 0 && e.uptoLoop && len(st.frames) == 1 && isLoopHeader(blk) {
			// `upto firstloop`: a prefix contract.  The path ends where the first loop of the function
			// under contract starts; the ensures clauses are checked on the state reached there
			e.note("PREFIX contract (upto firstloop): the clauses describe the state in which the first loop of the function starts; the loop and what follows are not covered")
			st.frames = st.frames[:0]
			atReturn(st, nil)
			return
		}
		if fr.pc == 0 && e.loopAbs && isLoopHeader(blk) && !pureScalarLoop(blk) && leafArrayLoop(blk) != nil {
			// loopabs, second kind: a loop that only moves scalars in and out of slice elements
			// (decode / encode loops) is skipped: the arrays it stores to and its loop-carried
			// scalars become unknown, and execution continues at its exit with the loop condition
			// false.  Panics inside such a loop (index out of range) are NOT checked.
			la := leafArrayLoop(blk)
			if e.skipLeafLoop(st, fr, blk, la) {
				e.note("loopabs: loops that only copy scalars to / from slice elements are skipped (stored arrays and loop-carried values unknown afterwards; run-time panics inside them are not checked)")
				continue
			}
		}
		if fr.pc == 0 && e.loopAbs && isLoopHeader(blk) && pureScalarLoop(blk) {
			// loopabs: a loop that only computes scalars is cut with the invariant `true`: its header
			// is entered once with every loop-carried value unknown; the back edge adds nothing
			if fr.abs == nil {
				fr.abs = map[int]bool{}
			}
			if fr.abs[fr.block] {
				e.endPath("back edge of an abstracted scalar loop")
				return
			}
			fr.abs[fr.block] = true
			e.note("loopabs: scalar-only loops are cut with invariant true (loop-carried values unknown at the header)")
		} else if fr.pc == 0 && isLoopHeader(blk) {
			fr.visits[fr.block]++
			if fr.visits[fr.block] > e.maxUnwind+1 {
				// unwinding assertion: under the contract's preconditions the loop has exited by now
				e.oblige(st, "unwind", fmt.Sprintf("%s.b%d", fn.Name(), fr.block), TFalse, e.fp.fset.Position(blk.Instrs[0].Pos()).String())
				e.endPath("loop unwound to the bound")
				return
			}
		}
		ins := blk.Instrs[fr.pc]
		fr.pc++
		switch x := ins.(type) {
		case *ssa.DebugRef:
		case *ssa.Phi:
			if fr.abs[fr.block] {
				fr.vals[x] = e.symVal(st, e.freshName("loop."+x.Name()), x.Type())
				break
			}
			var chosen ssa.Value
			for i, p := range blk.Preds {
				if p.Index == fr.prev {
					chosen = x.Edges[i]
				}
			}
			if chosen == nil {
				panic(verr("phi without matching predecessor in %s", fn.String()))
			}
			fr.vals[x] = e.get(st, fr, chosen)
		case *ssa.Alloc:
			st.nextID++
			id := st.nextID
			et := deref(x.Type())
			o := &bObject{id: id, typ: et}
			if at, ok := et.Underlying().(*types.Array); ok {
				// arrays are array objects so that they can be sliced (variadic argument packs)
				o.typ, o.arr, o.elems = at.Elem(), true, map[string]bVal{}
			} else {
				o.root = e.zeroVal(et)
			}
			st.objs[id] = o
			fr.vals[x] = bPtr{obj: id}
		case *ssa.FieldAddr:
			p, ok := e.get(st, fr, x.X).(bPtr)
			if !ok {
				panic(verr("FieldAddr on %s", describeVal(e.get(st, fr, x.X))))
			}
			if p.obj == 0 {
				panic(bPathEnd{"nil pointer dereference"})
			}
			p = e.nonNil(st, p)
			fr.vals[x] = bPtr{obj: p.obj, path: p.path + "/" + fieldName(x.X.Type(), x.Field)}
		case *ssa.Field:
			sv, ok := e.get(st, fr, x.X).(*bStruct)
			if !ok {
				panic(verr("Field on %s", describeVal(e.get(st, fr, x.X))))
			}
			fr.vals[x] = e.field(st, sv, fieldName(x.X.Type(), x.Field))
		case *ssa.IndexAddr:
			idx, ok := asScalar(e.get(st, fr, x.Index))
			if !ok {
				panic(verr("non-scalar index"))
			}
			idx = st.norm(idx)
			var key string
			if !idx.IsConst() {
				// a read at a symbolic index yields the element named by the index term (two different
				// terms name unrelated elements: imprecise, never wrong for reads); stores are refused
				key = "[?" + idx.Key() + "]"
				e.note("reads at a symbolic index yield an element named by the index term")
			} else {
				key = "[" + idx.Val.String() + "]"
			}
			switch b := e.get(st, fr, x.X).(type) {
			case bSlice:
				if b.nil_ {
					panic(bPathEnd{"index into nil slice"})
				}
				ln := st.norm(b.len)
				if e.safetyIndex {
					// `safety index`: an index expression on a slice owes 0 <= i < len (a run-time panic otherwise)
					e.oblige(st, "index", fmt.Sprintf("%s.b%d", fn.Name(), fr.block), And(Le(ConstI(0), idx), Lt(idx, ln)), e.fp.fset.Position(x.Pos()).String())
				}
				if ln.IsConst() && idx.IsConst() && (idx.Val.Sign() < 0 || idx.Val.Cmp(ln.Val) >= 0) {
					panic(bPathEnd{"index out of range"})
				}
				fr.vals[x] = bPtr{obj: b.arr, path: "/" + key}
			case bPtr:
				b = e.nonNil(st, b)
				fr.vals[x] = bPtr{obj: b.obj, path: b.path + "/" + key}
			default:
				panic(verr("IndexAddr on %s", describeVal(b)))
			}
		case *ssa.Index:
			idx, _ := asScalar(e.get(st, fr, x.Index))
			idx = st.norm(idx)
			sv, ok := e.get(st, fr, x.X).(*bStruct)
			if !ok || idx == nil || !idx.IsConst() {
				panic(verr("unsupported Index at %s", e.fp.fset.Position(x.Pos())))
			}
			fr.vals[x] = e.field(st, sv, "["+idx.Val.String()+"]")
		case *ssa.UnOp:
			v := e.get(st, fr, x.X)
			switch x.Op {
			case token.MUL:
				p, ok := v.(bPtr)
				if !ok {
					panic(verr("load from %s", describeVal(v)))
				}
				p = e.nonNil(st, p)
				fr.vals[x] = cloneVal(e.loadAt(st, p))
			case token.NOT:
				t, _ := asScalar(v)
				fr.vals[x] = bScalar{Not(t)}
			case token.SUB:
				t, ok := asScalar(v)
				if !ok {
					fr.vals[x] = e.symVal(st, e.freshName("neg"), x.Type())
				} else {
					fr.vals[x] = bScalar{Neg(t)}
					e.signedRange(st, Neg(t), x.Type(), "neg", x.Pos())
				}
			default:
				fr.vals[x] = e.symVal(st, e.freshName("unop"), x.Type())
			}
		case *ssa.BinOp:
			if os.Getenv("LVC_DEBUG") != "" {
				fmt.Fprintf(os.Stderr, "binop %s: %s | %s | %s\n", e.fp.fset.Position(x.Pos()), x.String(), describeVal(e.get(st, fr, x.X)), describeVal(e.get(st, fr, x.Y)))
			}
			fr.vals[x] = e.binop(st, x.Op, e.get(st, fr, x.X), e.get(st, fr, x.Y), x.Type())
			if x.Op == token.ADD || x.Op == token.SUB || x.Op == token.MUL {
				if r, ok := fr.vals[x].(bScalar); ok {
					e.signedRange(st, r.t, x.Type(), x.Op.String(), x.Pos())
				}
			}
		case *ssa.Store:
			p, ok := e.get(st, fr, x.Addr).(bPtr)
			if !ok {
				panic(verr("store to %s", describeVal(e.get(st, fr, x.Addr))))
			}
			p = e.nonNil(st, p)
			e.storeAt(st, p, e.get(st, fr, x.Val))
		case *ssa.ChangeType:
			fr.vals[x] = e.get(st, fr, x.X)
		case *ssa.Convert:
			v := e.get(st, fr, x.X)
			if _, ok := v.(bScalar); ok {
				if b, isB := x.Type().Underlying().(*types.Basic); isB && b.Info()&types.IsInteger != 0 {
					fr.vals[x] = v
					break
				}
				fr.vals[x] = e.symVal(st, e.freshName("conv"), x.Type())
			} else if b, isB := x.Type().Underlying().(*types.Basic); isB && b.Info()&(types.IsInteger|types.IsBoolean) != 0 {
				// float -> int and the like: an unconstrained value of the target type
				fr.vals[x] = e.symVal(st, e.freshName("conv"), x.Type())
			} else {
				fr.vals[x] = v
			}
		case *ssa.ChangeInterface:
			fr.vals[x] = e.get(st, fr, x.X)
		case *ssa.MakeInterface:
			fr.vals[x] = &bIface{dyn: x.X.Type(), val: e.get(st, fr, x.X)}
		case *ssa.TypeAssert:
			e.typeAssert(st, fr, x, work, atReturn)
		case *ssa.Extract:
			t, ok := e.get(st, fr, x.Tuple).(bTuple)
			if !ok || x.Index >= len(t) {
				panic(verr("Extract from %s", describeVal(e.get(st, fr, x.Tuple))))
			}
			fr.vals[x] = t[x.Index]
		case *ssa.Slice:
			v := e.get(st, fr, x.X)
			if pv, ok := v.(bPtr); ok && pv.obj != 0 {
				if at, isArr := deref(x.X.Type()).Underlying().(*types.Array); isArr && (pv.path != "" || !e.obj(st, pv.obj).arr) {
					// a[lo:hi] of an array that is a FIELD of a struct: a view of hi-lo elements whose contents
					// are not related to the array's (element contents are not tracked through such views)
					e.note("slicing an array field yields a view whose elements are unrelated to the array's (contents not tracked)")
					lo, hi := ConstI(0), ConstI(at.Len())
					if x.Low != nil {
						lo, _ = asScalar(e.get(st, fr, x.Low))
					}
					if x.High != nil {
						hi, _ = asScalar(e.get(st, fr, x.High))
					}
					st.nextID++
					st.objs[st.nextID] = &bObject{id: st.nextID, typ: at.Elem(), arr: true, elems: map[string]bVal{}, sym: e.freshName("view")}
					fr.vals[x] = bSlice{arr: st.nextID, len: st.norm(Sub(hi, lo)), cap: st.norm(Sub(ConstI(at.Len()), lo))}
					break
				}
			}
			if x.Low != nil {
				if lo, ok := asScalar(e.get(st, fr, x.Low)); !ok || !st.norm(lo).IsConst() || st.norm(lo).Val.Sign() != 0 {
					// s[lo:hi] with lo != 0: a view of hi-lo elements whose contents are not related to
					// the original's (element contents are not tracked through such views)
					b, isSl := v.(bSlice)
					if !ok || !isSl || b.nil_ {
						panic(verr("slicing with a non-zero lower bound at %s", e.fp.fset.Position(x.Pos())))
					}
					e.note("s[lo:] with lo != 0 yields a view whose elements are unrelated to the original's (contents not tracked)")
					hi := b.len
					if x.High != nil {
						hi, _ = asScalar(e.get(st, fr, x.High))
					}
					if e.safety && hi != nil {
						e.oblige(st, "slice-bounds", fn.Name(), And(Le(ConstI(0), lo), Le(lo, hi)), e.fp.fset.Position(x.Pos()).String())
					}
					st.nextID++
					o0 := e.obj(st, b.arr)
					st.objs[st.nextID] = &bObject{id: st.nextID, typ: o0.typ, arr: true, elems: map[string]bVal{}, sym: e.freshName("view")}
					nv := bSlice{arr: st.nextID, len: Sub(hi, lo)}
					if b.cap != nil {
						nv.cap = Sub(b.cap, lo)
					}
					fr.vals[x] = nv
					break
				}
			}
			switch b := v.(type) {
			case bSlice:
				n := b
				if x.High != nil {
					hi, _ := asScalar(e.get(st, fr, x.High))
					if e.safety && hi != nil && b.cap != nil {
						e.oblige(st, "slice-bounds", fn.Name(), And(Le(ConstI(0), hi), Le(hi, b.cap)), e.fp.fset.Position(x.Pos()).String())
					}
					n.len = hi
				}
				fr.vals[x] = n
			case bPtr:
				o := e.obj(st, b.obj)
				at, isArr := deref(x.X.Type()).Underlying().(*types.Array)
				if !o.arr || b.path != "" || !isArr {
					panic(verr("Slice of %s", describeVal(v)))
				}
				n := bSlice{arr: b.obj, len: ConstI(at.Len()), cap: ConstI(at.Len())}
				if x.High != nil {
					hi, _ := asScalar(e.get(st, fr, x.High))
					n.len = hi
				}
				fr.vals[x] = n
			default:
				panic(verr("Slice of %s", describeVal(v)))
			}
		case *ssa.MakeSlice:
			st.nextID++
			id := st.nextID
			et := x.Type().Underlying().(*types.Slice).Elem()
			st.objs[id] = &bObject{id: id, typ: et, arr: true, elems: map[string]bVal{}}
			ln, _ := asScalar(e.get(st, fr, x.Len))
			cp := ln
			if x.Cap != nil {
				if c, ok := asScalar(e.get(st, fr, x.Cap)); ok {
					cp = c
				}
			}
			if e.safety && ln != nil {
				// make panics on a negative length; a length taken from the input must also be bounded
				// by something the input has been checked against (allocation bound)
				e.oblige(st, "make-len", fn.Name(), Le(ConstI(0), ln), e.fp.fset.Position(x.Pos()).String())
				e.oblige(st, "alloc-bounded", fn.Name(), Le(ln, Const(e.allocMax)), e.fp.fset.Position(x.Pos()).String())
				st.assume(Le(ConstI(0), ln))
			}
			fr.vals[x] = bSlice{arr: id, len: ln, cap: cp}
		case *ssa.MakeMap:
			// a new map has an identity of its own (a name): updates and reads of it are followed like those of
			// an input map
			fr.vals[x] = bOpaque{typ: x.Type(), name: e.freshName("newmap")}
		case *ssa.MakeChan:
			fr.vals[x] = bOpaque{typ: x.Type(), name: "make"}
		case *ssa.Lookup:
			// a map read: what an earlier update or read of the SAME map with the SAME key term gave (maps
			// with scalar keys; everything else, and strings, yields an unconstrained value)
			var elemT types.Type = x.Type()
			if x.CommaOk {
				elemT = x.Type().(*types.Tuple).At(0).Type()
			}
			if v, ok, found := e.mapLookup(st, e.get(st, fr, x.X), e.get(st, fr, x.Index), elemT); found {
				if x.CommaOk {
					fr.vals[x] = bTuple{v, bScalar{ok}}
				} else {
					fr.vals[x] = v
				}
				break
			}
			e.note("map/string lookups yield unconstrained values")
			if x.CommaOk {
				fr.vals[x] = bTuple{e.symVal(st, e.freshName("lookup"), elemT), bScalar{Var(e.freshName("ok"), SBool)}}
			} else {
				fr.vals[x] = e.symVal(st, e.freshName("lookup"), x.Type())
			}
		case *ssa.MapUpdate:
			if !e.mapUpdate(st, e.get(st, fr, x.Map), e.get(st, fr, x.Key), e.get(st, fr, x.Value)) {
				e.note("map updates are not modelled")
			}
		case *ssa.MakeClosure:
			fv := bFuncVal{name: x.Fn.String()}
			if f, ok := x.Fn.(*ssa.Function); ok {
				fv.fn = f
				for _, b := range x.Bindings {
					fv.free = append(fv.free, e.get(st, fr, b))
				}
			}
			fr.vals[x] = fv
		case *ssa.RunDefers:
		case *ssa.Jump:
			fr.prev = fr.block
			fr.block = blk.Succs[0].Index
			fr.pc = 0
		case *ssa.If:
			c, ok := asScalar(e.get(st, fr, x.Cond))
			if !ok {
				panic(verr("non-scalar condition"))
			}
			c = st.norm(c)
			tgt := func(s *bState, i int) {
				f := s.frames[len(s.frames)-1]
				f.prev = f.block
				f.block = blk.Succs[i].Index
				f.pc = 0
			}
			switch {
			case c.IsTrue() || st.seen[c.Key()]:
				tgt(st, 0)
			case c.IsFalse() || st.seen[Not(c).Key()]:
				tgt(st, 1)
			default:
				// many open paths: ask the solver whether each side is possible at all before forking
				// (a comparison the contract's preconditions decide, but not syntactically)
				if len(*work) >= 48 || (e.paths >= 300 && e.paths <= 400) {
					feasible := func(t *Term) bool {
						o := &Obligation{Name: e.name + "/branch-feasibility", Func: e.name, Kind: "feasibility", Goal: TFalse, Native: true}
						o.Assume = append(append([]*Term(nil), st.path...), t)
						o.Discharge(2)
						return o.Status != "unsat"
					}
					f1, f0 := feasible(c), feasible(Not(c))
					if f1 && !f0 {
						st.assumeBranch(c)
						tgt(st, 0)
						break
					}
					if f0 && !f1 {
						st.assumeBranch(Not(c))
						tgt(st, 1)
						break
					}
					if !f0 && !f1 {
						e.endPath("infeasible path pruned")
						return
					}
				}
				other := st.clone()
				other.assumeBranch(Not(c))
				tgt(other, 1)
				*work = append(*work, other)
				st.assumeBranch(c)
				tgt(st, 0)
			}
		case *ssa.Return:
			var res bVal
			if len(x.Results) == 1 {
				res = e.get(st, fr, x.Results[0])
			} else if len(x.Results) > 1 {
				var t bTuple
				for _, r := range x.Results {
					t = append(t, e.get(st, fr, r))
				}
				res = t
			}
			st.frames = st.frames[:len(st.frames)-1]
			st.calls = st.calls[:len(st.calls)-1]
			if len(st.frames) == 0 {
				if e.uptoLoop {
					e.endPath("return before the first loop: not described by a prefix contract")
					return
				}
				atReturn(st, res)
				return
			}
			if fr.call != nil {
				if v, ok := fr.call.(ssa.Value); ok && res != nil {
					caller := st.frames[len(st.frames)-1]
					caller.vals[v] = res
				}
			}
		case *ssa.Panic:
			e.endPath("panic")
			return
		case ssa.CallInstruction:
			if _, isDefer := x.(*ssa.Defer); isDefer {
				panic(verr("defer is outside the subset"))
			}
			if _, isGo := x.(*ssa.Go); isGo {
				panic(verr("go statements are outside the subset"))
			}
			e.doCall(st, fr, x)
		default:
			panic(verr("unsupported SSA instruction %T at %s", ins, e.fp.fset.Position(ins.Pos())))
		}
	}
}

func (e *bEngine) typeAssert(st *bState, fr *bFrame, x *ssa.TypeAssert, work *[]*bState, atReturn func(*bState, bVal)) {
	v := e.get(st, fr, x.X)
	iv, ok := v.(*bIface)
	if !ok {
		panic(verr("TypeAssert on %s", describeVal(v)))
	}
	set := func(s *bState, val bVal, okFlag bool) {
		f := s.frames[len(s.frames)-1]
		if x.CommaOk {
			if !okFlag {
				val = e.zeroVal(x.AssertedType)
			}
			f.vals[x] = bTuple{val, bScalar{Bool(okFlag)}}
		} else {
			f.vals[x] = val
		}
	}
	_, toIface := x.AssertedType.Underlying().(*types.Interface)
	if iv.isNil {
		if !x.CommaOk {
			panic(bPathEnd{"type assertion on nil interface"})
		}
		set(st, nil, false)
		return
	}
	if iv.dyn != nil {
		match := false
		if toIface {
			match = types.Implements(iv.dyn, x.AssertedType.Underlying().(*types.Interface))
		} else {
			match = types.Identical(iv.dyn, x.AssertedType)
		}
		if match {
			if toIface {
				set(st, iv, true)
			} else {
				set(st, iv.val, true)
			}
		} else {
			if !x.CommaOk {
				panic(bPathEnd{"failed type assertion"})
			}
			set(st, nil, false)
		}
		return
	}
	// unknown dynamic type: fork
	if toIface {
		e.note("type assertion to an interface on a value of unknown dynamic type: assumed to succeed")
		set(st, iv, true)
		return
	}
	if x.CommaOk {
		other := st.clone()
		set(other, nil, false)
		*work = append(*work, other)
	}
	// success branch: from now on this interface value has that dynamic type
	val := e.symVal(st, iv.sym+"#"+bTypeName(x.AssertedType), x.AssertedType)
	iv.dyn, iv.val = x.AssertedType, val
	set(st, val, true)
}

func (e *bEngine) doCall(st *bState, fr *bFrame, ci ssa.CallInstruction) {
	c := ci.Common()
	setRes := func(v bVal) {
		if val, ok := ci.(ssa.Value); ok && v != nil {
			fr.vals[val] = v
		}
	}
	var resType types.Type
	if val, ok := ci.(ssa.Value); ok {
		resType = val.Type()
	}
	freshRes := func(tag string) bVal {
		if resType == nil {
			return nil
		}
		if tup, ok := resType.(*types.Tuple); ok {
			if tup.Len() == 0 {
				return nil
			}
			var t bTuple
			for i := 0; i < tup.Len(); i++ {
				t = append(t, e.symVal(st, e.freshName(tag), tup.At(i).Type()))
			}
			return t
		}
		return e.symVal(st, e.freshName(tag), resType)
	}
	at := e.fp.fset.Position(ci.Pos()).String()
	var args []bVal
	for _, a := range c.Args {
		args = append(args, e.get(st, fr, a))
	}
	if b, ok := c.Value.(*ssa.Builtin); ok {
		switch b.Name() {
		case "len", "cap":
			switch a := args[0].(type) {
			case bSlice:
				if b.Name() == "cap" {
					if a.cap != nil {
						setRes(bScalar{st.norm(a.cap)})
					} else {
						setRes(freshRes("cap"))
					}
				} else {
					setRes(bScalar{st.norm(a.len)})
				}
			case *bStruct:
				if at, ok := a.typ.Underlying().(*types.Array); ok {
					setRes(bScalar{ConstI(at.Len())})
				} else {
					setRes(freshRes("len"))
				}
			case bOpaque:
				if nt, ok := opaqueNil(a); ok && !isMadeMap(a.name) {
					// the length of an input map is a symbolic integer named after its access path
					ln := Var(a.name+".len", SInt)
					st.assume(Le(ConstI(0), ln))
					st.assume(Implies(nt, Eq(ln, ConstI(0))))
					setRes(bScalar{ln})
				} else {
					setRes(freshRes("len"))
				}
			default:
				setRes(freshRes("len"))
			}
		case "min", "max":
			x, ok1 := asScalar(args[0])
			y, ok2 := asScalar(args[1])
			if ok1 && ok2 && len(args) == 2 {
				if b.Name() == "min" {
					setRes(bScalar{Ite(Le(x, y), x, y)})
				} else {
					setRes(bScalar{Ite(Le(x, y), y, x)})
				}
			} else {
				setRes(freshRes(b.Name()))
			}
		case "copy":
			// copy(dst, src) on slices of machine words (an RNS scalar): the elements of dst are forgotten; when both
			// lengths are the same term the whole of src is copied and dst takes its ghost attributes (the ring
			// element the residues stand for), otherwise those are forgotten too
			d, ok1 := args[0].(bSlice)
			sl, ok2 := args[1].(bSlice)
			if ok1 && ok2 && !d.nil_ && !sl.nil_ && isWordType(e.obj(st, d.arr).typ) && isWordType(e.obj(st, sl.arr).typ) {
				o := e.obj(st, d.arr)
				o.elems = map[string]bVal{}
				o.sym = e.freshName("copied")
				o.ver++
				if d.arr != sl.arr && st.norm(Eq(d.len, sl.len)).IsTrue() {
					for _, g := range []string{"val", "mexp", "ntt", "uni"} {
						arr := e.ghostArr(st, g)
						st.ghost[g] = Store(arr, ConstI(int64(d.arr)), Select(arr, ConstI(int64(sl.arr))))
					}
				} else if d.arr != sl.arr {
					e.havocPoly(st, d, "copy")
				}
			} else {
				e.note("builtin copy on non-polynomial slices is not modelled")
			}
			setRes(freshRes("copy"))
		case "append":
			// append(s, t...) with both lengths known: a new array holding the elements of s, then those of t
			// (the model always reallocates: what the result shares with s is not tracked)
			s1, ok1 := args[0].(bSlice)
			s2, ok2 := args[1].(bSlice)
			if ok1 && ok2 && len(args) == 2 {
				l1, l2 := st.norm(s1.len), st.norm(s2.len)
				if s1.nil_ {
					l1 = ConstI(0)
				}
				if s2.nil_ {
					l2 = ConstI(0)
				}
				if l1.IsConst() && l2.IsConst() && l1.Val.IsInt64() && l2.Val.IsInt64() && l1.Val.Int64()+l2.Val.Int64() <= 64 {
					st.nextID++
					id := st.nextID
					var et types.Type
					if !s1.nil_ {
						et = e.obj(st, s1.arr).typ
					} else if !s2.nil_ {
						et = e.obj(st, s2.arr).typ
					}
					no := &bObject{id: id, typ: et, arr: true, elems: map[string]bVal{}, sym: e.freshName("appended")}
					st.objs[id] = no
					k := int64(0)
					for _, src := range []struct {
						sl bSlice
						n  int64
					}{{s1, l1.Val.Int64()}, {s2, l2.Val.Int64()}} {
						for i := int64(0); i < src.n; i++ {
							no.elems[fmt.Sprintf("[%d]", k)] = cloneVal(e.loadAt(st, bPtr{obj: src.sl.arr, path: fmt.Sprintf("/[%d]", i)}))
							k++
						}
					}
					setRes(bSlice{arr: id, len: ConstI(k), cap: ConstI(k)})
					break
				}
			}
			panic(verr("append with lengths the execution does not know is outside the subset at %s", at))
		default:
			setRes(freshRes(b.Name()))
		}
		return
	}
	var callee *ssa.Function
	var bindings []bVal
	if c.IsInvoke() {
		recv := e.get(st, fr, c.Value)
		iv, _ := recv.(*bIface)
		if iv != nil && iv.isNil {
			// a method call on a nil interface value panics
			if e.nilsafe {
				e.oblige(st, "nil-deref", "nil-interface-call."+c.Method.Name(), TFalse, at)
			}
			panic(bPathEnd{"method call on a nil interface"})
		}
		if iv != nil && iv.dyn != nil {
			ms := e.fp.prog.MethodSets.MethodSet(iv.dyn)
			if sel := ms.Lookup(c.Method.Pkg(), c.Method.Name()); sel != nil {
				callee = e.fp.prog.MethodValue(sel)
				args = append([]bVal{iv.val}, args...)
			}
		}
		if callee == nil {
			// contract on the interface method
			var keys []string
			if named, ok := c.Value.Type().(*types.Named); ok && named.Obj().Pkg() != nil {
				keys = append(keys, named.Obj().Pkg().Path()+"."+named.Obj().Name()+"."+c.Method.Name())
			}
			// the interface that declares the method (io.Writer for buffer.Writer.Write)
			if fnm := c.Method.FullName(); strings.HasPrefix(fnm, "(") {
				keys = append(keys, strings.Replace(strings.TrimPrefix(fnm, "("), ").", ".", 1))
			}
			for _, key := range keys {
				if con, ok := e.prog.AContracts[key]; ok {
					setRes(e.applyIfaceContract(st, con, key, c.Method, append([]bVal{recv}, args...), at))
					return
				}
			}
			e.unknownCall(st, "interface method "+c.Method.FullName(), at)
			setRes(freshRes("invoke"))
			return
		}
	} else {
		switch f := c.Value.(type) {
		case *ssa.Function:
			callee = f
		case *ssa.MakeClosure:
			e.unknownCall(st, "closure", at)
			setRes(freshRes("closure"))
			return
		default:
			// a function value the execution knows (a bound method value such as ringQ.AtLevel(l).Sub
			// handed to a helper, a function literal): called like any other function
			if fv, ok := e.get(st, fr, c.Value).(bFuncVal); ok && fv.fn != nil && len(fv.fn.Blocks) > 0 {
				callee, bindings = fv.fn, fv.free
				break
			}
			if e.callbackPure != "" {
				// `callback <reason>`: a function value supplied by the user is ASSUMED to work on its own
				// arguments only (the contract says why); recorded as an assumption of the check
				e.note("ASSUMED (callback): a user-supplied function value does not touch polynomial storage: " + e.callbackPure)
			} else {
				e.unknownCall(st, "function value", at)
			}
			setRes(freshRes("dyncall"))
			return
		}
	}
	if con, _ := e.contractFor(callee); con != nil && !strings.HasPrefix(callee.Synthetic, "bound method wrapper") {
		setRes(e.applyContract(st, con, callee, args, at))
		return
	}
	if callee.Pkg != nil && (callee.Pkg.Pkg.Path() == "fmt" && callee.Name() == "Errorf" || callee.Pkg.Pkg.Path() == "errors" && callee.Name() == "New") {
		setRes(&bIface{val: bOpaque{name: "error"}})
		return
	}
	if !isModuleFunc(callee) || len(callee.Blocks) == 0 {
		// outside the module: assumed not to touch polynomial storage
		setRes(freshRes(callee.Name()))
		return
	}
	// a two-way scalar choice (utils.Min / utils.Max ...): one if-then-else term instead of two paths
	if v, ok := e.tryIteCall(st, callee, args); ok {
		setRes(v)
		return
	}
	// a module function without abstract contract: execute it inline
	name := callee.String()
	// a function may re-enter itself once (Add(ct, int64) forwards to Add(ct, *big.Int)); deeper recursion
	// without a contract is an unknown call
	depth := 0
	for _, c := range st.calls {
		if c == name {
			depth++
		}
	}
	if depth >= 2 {
		e.unknownCall(st, "recursive call of "+name, at)
		setRes(freshRes("rec"))
		return
	}
	if len(st.frames) >= bMaxDepth {
		e.unknownCall(st, "call depth exceeded at "+name, at)
		setRes(freshRes("deep"))
		return
	}
	e.inlined[shortPkg(frameKeyOrName(callee))] = true
	e.pushFrame(st, callee, args, ci, bindings)
}

func frameKeyOrName(f *ssa.Function) string {
	if k := frameKey(f); k != "" {
		return k
	}
	return f.String()
}

// unknownCall: a callee that is neither under contract nor executable inline may do anything to
// polynomial storage: every ghost attribute is forgotten.
func (e *bEngine) unknownCall(st *bState, what, at string) {
	e.note("unknown callee (" + what + "): all ghost state havocked")
	for _, g := range []string{"val", "mexp", "ntt", "uni", "draws", "pending"} {
		st.ghost[g] = Var(e.freshName("G."+g), SArr)
	}
}

func (e *bEngine) applyIfaceContract(st *bState, con *Contract, key string, m *types.Func, args []bVal, at string) bVal {
	e.note("ASSUMED (interface method, contract applied not verified): " + shortPkg(key))
	// parameter names: receiver is called "this", the others come from the method signature
	sig := m.Type().(*types.Signature)
	bind := map[string]bVal{"this": args[0]}
	for i := 0; i < sig.Params().Len(); i++ {
		n := sig.Params().At(i).Name()
		if n == "" {
			n = fmt.Sprintf("arg%d", i)
		}
		if i+1 < len(args) {
			bind[n] = args[i+1]
		}
	}
	pkg := m.Pkg().Path()
	short := shortPkg(key)
	for i, r := range con.Requires {
		g := e.env(st, st, bind, nil, con, pkg).Term(r.Expr)
		e.oblige(st, "requires", fmt.Sprintf("%s.%d", short, i), g, at)
		st.assume(g)
	}
	pre := shallowOld(st)
	for _, x := range con.Assigns {
		e.havocPoly(st, e.env(st, st, bind, nil, con, pkg).Eval(x), short)
	}
	e.applyDraws(st, con, bind, pkg)
	e.applyHavocs(st, con, bind, pkg, func(name string) types.Type {
		for i := 0; i < sig.Params().Len(); i++ {
			if sig.Params().At(i).Name() == name {
				return sig.Params().At(i).Type()
			}
		}
		return nil
	})
	var res bVal
	b2 := map[string]bVal{}
	for k, v := range bind {
		b2[k] = v
	}
	var tuple bTuple
	for i := 0; i < sig.Results().Len(); i++ {
		rt := sig.Results().At(i).Type()
		var v bVal
		if len(con.Raw["returns_this"]) > 0 && i == 0 {
			v = args[0]
		} else {
			v = e.symVal(st, e.freshName(short+".res"), rt)
		}
		tuple = append(tuple, v)
		b2[fmt.Sprintf("result%d", i)] = v
		if n := sig.Results().At(i).Name(); n != "" {
			b2[n] = v
		}
	}
	if len(tuple) == 1 {
		res = tuple[0]
		b2["result"] = tuple[0]
	} else if len(tuple) > 1 {
		res = tuple
	}
	for _, en := range con.Ensures {
		env := e.env(st, pre, b2, bind, con, pkg)
		env.callee = true
		st.assume(env.Term(en.Expr))
	}
	return res
}

// ---------- driver ----------

type bResult struct {
	Key     string
	Name    string
	File    string
	Obls    []*Obligation
	Err     string
	Paths   int
	Inlined []string
	Notes   []string
	Ended   map[string]int
	Trusted bool
}

func (e *bEngine) resolveDyn(fn *ssa.Function, spec string) types.Type {
	want := strings.TrimSpace(spec)
	var found types.Type
	seen := map[*ssa.Function]bool{}
	var scan func(f *ssa.Function, depth int)
	scan = func(f *ssa.Function, depth int) {
		if f == nil || seen[f] || depth > 3 {
			return
		}
		seen[f] = true
		for _, b := range f.Blocks {
			for _, ins := range b.Instrs {
				switch x := ins.(type) {
				case *ssa.TypeAssert:
					n := bTypeName(x.AssertedType)
					if n == want || strings.HasSuffix(n, "."+strings.TrimPrefix(want, "*")) && strings.HasPrefix(n, "*") == strings.HasPrefix(want, "*") {
						found = x.AssertedType
					}
				case ssa.CallInstruction:
					if cf, ok := x.Common().Value.(*ssa.Function); ok && isModuleFunc(cf) {
						scan(cf, depth+1)
					}
				}
			}
		}
	}
	scan(fn, 0)
	if found == nil {
		// not asserted anywhere (the function only tests for an interface): a named type of the module,
		// written pkg.Name or *pkg.Name
		ptr := strings.HasPrefix(want, "*")
		qn := strings.TrimPrefix(want, "*")
		if i := strings.LastIndex(qn, "."); i > 0 {
			pn, tn := qn[:i], qn[i+1:]
			for _, p := range e.fp.prog.AllPackages() {
				if p.Pkg == nil || p.Pkg.Name() != pn || !strings.HasPrefix(p.Pkg.Path(), modPath) {
					continue
				}
				if o, ok := p.Pkg.Scope().Lookup(tn).(*types.TypeName); ok {
					found = o.Type()
					if ptr {
						found = types.NewPointer(found)
					}
				}
			}
		}
	}
	return found
}

func VerifyAbstract(prog *Program, fp *FrameProg, key string) *bResult {
	con := prog.AContracts[key]
	res := &bResult{Key: key, Name: shortPkg(key), Ended: map[string]int{}}
	fkey := key
	if i := strings.Index(fkey, "#"); i >= 0 {
		fkey = fkey[:i]
	}
	fns := fp.Find(fkey)
	if len(fns) == 0 {
		res.Err = "contract-target: function not found in the source tree (renamed or removed?)"
		return res
	}
	if con.Trusted {
		res.Trusted = true
		return res
	}
	// a generic function is verified through each of its instances
	var insts []*ssa.Function
	for _, f := range fns {
		if len(f.TypeArgs()) > 0 {
			insts = append(insts, f)
		}
	}
	if only := con.Raw["only"]; len(only) > 0 {
		// only <type argument>: the contract is about these instances of a generic function
		var keep []*ssa.Function
		for _, f := range insts {
			var ta []string
			for _, t := range f.TypeArgs() {
				ta = append(ta, bTypeName(t))
			}
			for _, o := range strings.Fields(strings.Join(only, " ")) {
				if strings.Join(ta, ",") == o {
					keep = append(keep, f)
				}
			}
		}
		if len(keep) == 0 {
			res.Err = "contract-target: no instance " + strings.Join(only, " ") + " of the generic function in the source tree"
			return res
		}
		insts = keep
	}
	if len(insts) == 0 {
		insts = fns[:1]
	}
	sort.Slice(insts, func(i, j int) bool { return insts[i].String() < insts[j].String() })
	res.File = fp.fset.Position(insts[0].Pos()).String()
	cases := con.Raw["case"]
	if len(cases) == 0 {
		cases = []string{""}
	}
	type job struct {
		fn *ssa.Function
		ci int
		cx string
	}
	var jobs []job
	for _, f := range insts {
		for ci, cx := range cases {
			jobs = append(jobs, job{f, ci, cx})
		}
	}
	for _, jb := range jobs {
		fn, ci, cx := jb.fn, jb.ci, jb.cx
		e := &bEngine{prog: prog, fp: fp, reg: newRegistry(), fn: fn, con: con, name: res.Name, counters: map[string]int{},
			notes: map[string]bool{}, maxUnwind: 4, inlined: map[string]bool{}, ended: res.Ended, dyn: map[string]types.Type{}}
		if len(insts) > 1 {
			var ta []string
			for _, t := range fn.TypeArgs() {
				ta = append(ta, bTypeName(t))
			}
			e.name = fmt.Sprintf("%s[%s]", res.Name, strings.Join(ta, ","))
		}
		if len(cases) > 1 {
			e.name = fmt.Sprintf("%s[case%d]", e.name, ci)
		}
		func() {
			defer func() {
				if r := recover(); r != nil {
					if ve, ok := r.(verifError); ok {
						res.Err = ve.msg
						return
					}
					panic(r)
				}
			}()
			e.verify(cx)
		}()
		res.Obls = append(res.Obls, e.obls...)
		res.Paths += e.paths
		for k := range e.inlined {
			res.Inlined = append(res.Inlined, k)
		}
		for k := range e.notes {
			res.Notes = append(res.Notes, k)
		}
		if res.Err != "" {
			break
		}
	}
	sort.Strings(res.Inlined)
	sort.Strings(res.Notes)
	res.Inlined = dedupe(res.Inlined)
	res.Notes = dedupe(res.Notes)
	return res
}

func (e *bEngine) verify(caseSpec string) {
	fn, con := e.fn, e.con
	if len(fn.Blocks) == 0 {
		panic(verr("function without body"))
	}
	for _, s := range con.Raw["unwind"] {
		fmt.Sscanf(s, "%d", &e.maxUnwind)
	}
	for _, s := range con.Raw["maxpaths"] {
		fmt.Sscanf(s, "%d", &e.maxPaths)
	}
	e.loopAbs = len(con.Raw["loopabs"]) > 0
	e.safety = len(con.Raw["safety"]) > 0
	e.safetyIndex = false
	e.safetyOverflow = false
	e.safetyRows = false
	for _, sf := range con.Raw["safety"] {
		for _, f := range strings.Fields(sf) {
			if f == "index" {
				e.safetyIndex = true
			}
			if f == "overflow" {
				e.safetyOverflow = true
			}
			if f == "rows" {
				e.safetyRows = true
			}
		}
	}
	e.nilable = len(con.Raw["nilable"]) > 0
	e.nilsafe = len(con.Raw["nilsafe"]) > 0
	e.callbackPure = strings.Join(con.Raw["callback"], " ")
	e.uptoLoop = false
	for _, u := range con.Raw["upto"] {
		if strings.TrimSpace(u) != "firstloop" {
			panic(verr("%s: upto expects: upto firstloop", con.File))
		}
		e.uptoLoop = true
	}
	e.allocMax = pow2(32)
	for _, s := range con.Raw["safety"] {
		// safety allocmax=<n>: the largest element count a single make may be asked for
		for _, f := range strings.Fields(s) {
			if strings.HasPrefix(f, "allocmax=") {
				if v, ok := new(big.Int).SetString(strings.TrimPrefix(f, "allocmax="), 0); ok {
					e.allocMax = v
				}
			}
		}
	}
	for _, s := range con.Raw["dyn"] {
		f := strings.Fields(s)
		if len(f) != 2 {
			panic(verr("%s: dyn expects: <param> <type>", con.File))
		}
		t := e.resolveDyn(fn, f[1])
		if t == nil {
			panic(verr("%s: dyn %s: no type assertion to %s found in the function", con.File, f[0], f[1]))
		}
		e.dyn[f[0]] = t
	}
	st := &bState{objs: map[int]*bObject{}, ghost: map[string]*Term{}, seen: map[string]bool{}, consts: map[string]*Term{}}
	bind := map[string]bVal{}
	var args []bVal
	for _, p := range fn.Params {
		v := e.symVal(st, p.Name(), p.Type())
		args = append(args, v)
		bind[p.Name()] = v
	}
	pkg := ""
	if fn.Pkg != nil {
		pkg = fn.Pkg.Pkg.Path()
	}
	// case <expr> ; alias p = <expr> ; ...   (aliases make a parameter denote the same storage as an expression)
	var caseExpr ast.Expr
	for i, part := range splitTop(caseSpec, ';') {
		part = strings.TrimSpace(part)
		if part == "" {
			continue
		}
		if strings.HasPrefix(part, "set ") {
			// set <a.b.f> = <expr|nil> : fixes a field of a symbolic input (invariants such as
			// pt.Value aliasing pt.Element.Value[0], or a nil RingP)
			kv := strings.SplitN(strings.TrimPrefix(part, "set "), "=", 2)
			if len(kv) != 2 {
				panic(verr("%s: set expects: set lvalue = expr", con.File))
			}
			lx, err1 := parser.ParseExpr(strings.TrimSpace(kv[0]))
			rx, err2 := parser.ParseExpr(strings.TrimSpace(kv[1]))
			// set <param> = nil : a pointer (slice, interface) parameter is nil in this case
			if pid, ok := lx.(*ast.Ident); ok && err1 == nil && err2 == nil {
				rid, isNil := rx.(*ast.Ident)
				done := false
				for j, p := range fn.Params {
					if p.Name() == pid.Name && isNil && rid.Name == "nil" {
						v := e.zeroVal(p.Type())
						bind[p.Name()] = v
						args[j] = v
						done = true
					}
				}
				if !done {
					panic(verr("%s: bad set clause %q (a parameter can only be set to nil)", con.File, part))
				}
				continue
			}
			sel, isSel := lx.(*ast.SelectorExpr)
			if err1 != nil || err2 != nil || !isSel {
				panic(verr("%s: bad set clause %q", con.File, part))
			}
			env := e.env(st, st, bind, nil, con, pkg)
			parent := env.Eval(sel.X)
			for d := 0; d < 6; d++ {
				if p, ok := parent.(bPtr); ok && p.obj != 0 {
					parent = e.loadAt(st, p)
					continue
				}
				if iv, ok := parent.(*bIface); ok && iv.val != nil {
					parent = iv.val
					continue
				}
				break
			}
			sv, ok := parent.(*bStruct)
			if !ok {
				panic(verr("%s: set: %s is not a struct", con.File, exprString(sel.X)))
			}
			// descend through embedded fields to the struct that declares the field
			for d := 0; d < 6 && fieldType(sv.typ, sel.Sel.Name) == nil; d++ {
				stt, _ := sv.typ.Underlying().(*types.Struct)
				found := false
				for i := 0; stt != nil && i < stt.NumFields(); i++ {
					f := stt.Field(i)
					if f.Embedded() && hasField(deref(f.Type()), sel.Sel.Name) {
						child := e.field(st, sv, f.Name())
						if p, ok := child.(bPtr); ok {
							child = e.loadAt(st, p)
						}
						if cs, ok := child.(*bStruct); ok {
							sv, found = cs, true
						}
						break
					}
				}
				if !found {
					panic(verr("%s: set: no field %s", con.File, sel.Sel.Name))
				}
			}
			var v bVal
			if id, ok := rx.(*ast.Ident); ok && id.Name == "nil" {
				v = e.zeroVal(fieldType(sv.typ, sel.Sel.Name))
			} else {
				v = cloneVal(env.Eval(rx))
			}
			sv.f[sel.Sel.Name] = v
			continue
		}
		if strings.HasPrefix(part, "alias ") {
			kv := strings.SplitN(strings.TrimPrefix(part, "alias "), "=", 2)
			if len(kv) != 2 {
				panic(verr("%s: alias expects: alias p = expr", con.File))
			}
			x, err := parser.ParseExpr(strings.TrimSpace(kv[1]))
			if err != nil {
				panic(verr("%s: %v", con.File, err))
			}
			name := strings.TrimSpace(kv[0])
			v := cloneVal(e.env(st, st, bind, nil, con, pkg).Eval(x))
			if iv, ok := v.(*bIface); ok && iv.val != nil {
				// alias <pointer parameter> = <interface parameter with a `dyn` type>: the pointer it holds
				v = iv.val
			}
			bind[name] = v
			for j, p := range fn.Params {
				if p.Name() == name {
					args[j] = v
				}
			}
			continue
		}
		if i == 0 {
			x, err := parser.ParseExpr(part)
			if err != nil {
				panic(verr("%s: case %q: %v", con.File, part, err))
			}
			caseExpr = x
		}
	}
	if caseExpr != nil {
		st.assume(e.env(st, st, bind, nil, con, pkg).Term(caseExpr))
	}
	for _, r := range con.Requires {
		st.assume(e.env(st, st, bind, nil, con, pkg).Term(r.Expr))
	}
	for _, w := range con.Raw["wlog"] {
		cond, guard := parseWlog(w, con.File)
		st.assume(e.env(st, st, bind, nil, con, pkg).Term(guard))
		st.assume(e.env(st, st, bind, nil, con, pkg).Term(cond))
		e.note("wlog: the interpretation (Montgomery exponent) of a uniform element is chosen by the callee")
	}
	// vacuity
	{
		o := &Obligation{Name: e.name + "/vacuity", Func: e.name, Kind: "vacuity", Goal: TFalse, File: con.File, Native: true}
		o.Assume = append([]*Term(nil), st.path...)
		e.obls = append(e.obls, o)
	}
	e.entry = st.clone()
	e.topBind = bind
	entryOld := shallowOld(e.entry)
	e.pushFrame(st, fn, args, nil, nil)
	returns := 0
	reachable := false
	var lastPath []*Term
	e.runAll(st, func(fs *bState, res bVal) {
		returns++
		if !reachable {
			// at least one return must be reachable under the contract (a callee postcondition that
			// contradicts the state, or contradictory case / requires clauses, would make every
			// postcondition hold vacuously): asked of the solver until one return is found feasible
			o := &Obligation{Name: e.name + "/feasibility", Func: e.name, Kind: "feasibility", Goal: TFalse, Native: true}
			o.Assume = append([]*Term(nil), fs.path...)
			o.Discharge(3)
			if o.Status != "unsat" {
				reachable = true
			}
			lastPath = o.Assume
		}
		b2 := map[string]bVal{}
		for k, v := range bind {
			b2[k] = v
		}
		rs := fn.Signature.Results()
		if t, ok := res.(bTuple); ok {
			for i, v := range t {
				b2[fmt.Sprintf("result%d", i)] = v
				if i < rs.Len() && rs.At(i).Name() != "" {
					b2[rs.At(i).Name()] = v
				}
			}
		} else if res != nil {
			b2["result"] = res
			b2["result0"] = res
			if rs.Len() == 1 && rs.At(0).Name() != "" {
				b2[rs.At(0).Name()] = res
			}
		}
		for i, en := range con.Ensures {
			// the old state: the object graph and the ghost arrays of the entry state (a private copy: inputs
			// materialised lazily while a clause is evaluated get the same access-path names as during the run),
			// read under what the path has learnt since
			ec := e.entry.clone()
			old := &bState{objs: ec.objs, ghost: entryOld.ghost, path: fs.path, seen: fs.seen, consts: fs.consts}
			g := e.env(fs, old, b2, bind, con, pkg).Term(en.Expr)
			for j, gj := range conjuncts(fs.norm(g)) {
				d := fmt.Sprintf("%d", i)
				if j > 0 {
					d = fmt.Sprintf("%d.%d", i, j)
				}
				e.oblige(fs, "ensures", d, gj, en.Line)
			}
		}
	})
	if returns == 0 {
		panic(verr("no path reaches a return (every path ends in a panic or an unsupported construct)"))
	}
	if b := con.Raw["bounded"]; len(b) > 0 {
		for _, o := range e.obls {
			o.Bounded = strings.TrimSpace(b[0])
			if o.Bounded == "" {
				o.Bounded = "bounded instance"
			}
		}
	}
	if !reachable {
		o := &Obligation{Name: e.name + "/vacuity:returns", Func: e.name, Kind: "vacuity", Goal: TFalse, File: con.File, Native: true}
		o.Assume = lastPath
		e.obls = append(e.obls, o)
	}
}

// tryIteCall: a function of scalars whose body is `if c { return x }; return y` with c, x, y computed
// from the parameters by scalar operators only is evaluated to the term ite(c, x, y): no path split.
func (e *bEngine) tryIteCall(st *bState, f *ssa.Function, args []bVal) (bVal, bool) {
	if len(f.Blocks) != 3 || len(f.FreeVars) > 0 || f.Signature.Results().Len() != 1 {
		return nil, false
	}
	b0 := f.Blocks[0]
	cond, ok := b0.Instrs[len(b0.Instrs)-1].(*ssa.If)
	if !ok || len(b0.Succs) != 2 {
		return nil, false
	}
	fr := &bFrame{fn: f, vals: map[interface{}]bVal{}, visits: map[int]int{}, prev: -1}
	for i, p := range f.Params {
		if i >= len(args) {
			return nil, false
		}
		if _, ok := args[i].(bScalar); !ok {
			return nil, false
		}
		fr.vals[p] = args[i]
	}
	for _, ins := range b0.Instrs[:len(b0.Instrs)-1] {
		switch x := ins.(type) {
		case *ssa.DebugRef:
		case *ssa.BinOp:
			v := e.binop(st, x.Op, e.get(st, fr, x.X), e.get(st, fr, x.Y), x.Type())
			if _, ok := v.(bScalar); !ok {
				return nil, false
			}
			fr.vals[x] = v
		default:
			return nil, false
		}
	}
	ret := func(b *ssa.BasicBlock) (*Term, bool) {
		var r *ssa.Return
		for _, ins := range b.Instrs {
			switch x := ins.(type) {
			case *ssa.DebugRef:
			case *ssa.Return:
				r = x
			default:
				return nil, false
			}
		}
		if r == nil || len(r.Results) != 1 {
			return nil, false
		}
		switch r.Results[0].(type) {
		case *ssa.Parameter, *ssa.Const, *ssa.BinOp:
		default:
			return nil, false
		}
		if _, isC := r.Results[0].(*ssa.Const); !isC {
			if _, known := fr.vals[r.Results[0]]; !known {
				return nil, false
			}
		}
		s, ok := e.get(st, fr, r.Results[0]).(bScalar)
		if !ok {
			return nil, false
		}
		return s.t, true
	}
	c, ok := e.get(st, fr, cond.Cond).(bScalar)
	if !ok || c.t.Sort != SBool {
		return nil, false
	}
	x, ok1 := ret(b0.Succs[0])
	y, ok2 := ret(b0.Succs[1])
	if !ok1 || !ok2 || x.Sort != y.Sort {
		return nil, false
	}
	return bScalar{st.norm(Ite(c.t, x, y))}, true
}

// signedRange: under `safety overflow`, the mathematical result of +, -, * or unary minus on a SIGNED
// machine integer owes its type's range (lattigo never relies on signed wrap-around).
func (e *bEngine) signedRange(st *bState, t *Term, typ types.Type, what string, pos token.Pos) {
	if !e.safetyOverflow || t == nil || t.Sort != SInt {
		return
	}
	k, ok := intKindOf(typ)
	if !ok || !k.signed || k.bits == 0 || t.IsConst() {
		return
	}
	lo, hi := k.rng()
	e.oblige(st, "overflow", what, And(Le(Const(lo), t), Le(t, Const(hi))), e.fp.fset.Position(pos).String())
}

// ---------- maps with scalar keys ----------
//
// A map is known by the name of the opaque value that stands for it (the access path of an input map).  What is
// known of it is a set of entries (rendered key term -> value, present?).  A read with a key term seen before
// returns the same entry; a read with a new key term creates an unconstrained entry and remembers it; an update
// sets its entry and forgets every other one (the keys may be equal).  Maps made by the function itself
// (`make`) are not tracked.

func mapIdentity(m bVal) (string, bool) {
	o, ok := m.(bOpaque)
	if !ok || o.name == "" || o.name == "make" || o.name == "zero" {
		return "", false
	}
	return o.name, true
}

func (e *bEngine) mapLookup(st *bState, m, key bVal, elemT types.Type) (bVal, *Term, bool) {
	id, ok := mapIdentity(m)
	ks, isScalar := key.(bScalar)
	if !ok || !isScalar || ks.t == nil || ks.t.Sort != SInt {
		return nil, nil, false
	}
	kk := st.norm(ks.t).Key()
	if st.mapv == nil {
		st.mapv = map[string]map[string]bMapEntry{}
	}
	if st.mapv[id] == nil {
		st.mapv[id] = map[string]bMapEntry{}
	}
	if en, ok := st.mapv[id][kk]; ok {
		return cloneVal(en.val), en.ok, true
	}
	name := fmt.Sprintf("%s[%s]", id, kk)
	en := bMapEntry{val: e.symVal(st, name, elemT), ok: Var(name+".present", SBool)}
	st.mapv[id][kk] = en
	return cloneVal(en.val), en.ok, true
}

func (e *bEngine) mapUpdate(st *bState, m, key, val bVal) bool {
	id, ok := mapIdentity(m)
	ks, isScalar := key.(bScalar)
	if !ok {
		return false
	}
	if st.mapv == nil {
		st.mapv = map[string]map[string]bMapEntry{}
	}
	if !isScalar || ks.t == nil || ks.t.Sort != SInt {
		delete(st.mapv, id) // an update under a key the model does not follow: nothing is known any more
		return false
	}
	st.mapv[id] = map[string]bMapEntry{st.norm(ks.t).Key(): {val: cloneVal(val), ok: TTrue}}
	return true
}

// clobber forgets the ghost attributes of every polynomial reachable from v through the parts of the object
// graph the execution has materialised (parts it has never looked at are unconstrained anyway).
func (e *bEngine) clobber(st *bState, v bVal, seen map[string]bool, depth int) {
	if depth > 12 || v == nil {
		return
	}
	switch a := v.(type) {
	case bPtr:
		if a.obj == 0 {
			return
		}
		k := fmt.Sprintf("p%d%s", a.obj, a.path)
		if seen[k] {
			return
		}
		seen[k] = true
		e.clobber(st, e.loadAt(st, a), seen, depth+1)
	case *bIface:
		e.clobber(st, a.val, seen, depth+1)
	case bSlice:
		if a.nil_ {
			return
		}
		k := fmt.Sprintf("a%d", a.arr)
		if seen[k] {
			return
		}
		seen[k] = true
		o := e.obj(st, a.arr)
		for _, key := range sortedKeys(o.elems) {
			e.clobber(st, o.elems[key], seen, depth+1)
		}
	case *bStruct:
		if _, ok := e.polyID(st, a); ok {
			e.havocPoly(st, a, "clobbers")
			return
		}
		for _, key := range sortedKeys(a.f) {
			e.clobber(st, a.f[key], seen, depth+1)
		}
	case bTuple:
		for _, x := range a {
			e.clobber(st, x, seen, depth+1)
		}
	}
}

func isWordType(t types.Type) bool {
	if t == nil {
		return false
	}
	b, ok := t.Underlying().(*types.Basic)
	return ok && b.Kind() == types.Uint64
}

// isMadeMap: the opaque value is a map created by make in the code under execution (never nil)
func isMadeMap(name string) bool { return name == "make" || strings.HasPrefix(name, "newmap") }

package rlwe

// Finding F51 (property C04, "switching to a ... larger ring degree"): SwitchCiphertextRingDegree (the
// coefficient-domain map Y -> X^(N/n)) writes every (N/n)-th coefficient of the receiver and leaves the
// others as they were: a receiver that is not zero (a reused ciphertext) ends up with its old
// coefficients between the embedded ones.  The NTT-domain variant overwrites the whole receiver.

import (
	"testing"

	"github.com/tuneinsight/lattigo/v6/ring"
)

func TestF51SwitchRingDegreeIntoDirtyReceiver(t *testing.T) {
	small := &Element[ring.Poly]{Value: []ring.Poly{ring.NewPoly(8, 0), ring.NewPoly(8, 0)}, MetaData: &MetaData{}}
	large := &Element[ring.Poly]{Value: []ring.Poly{ring.NewPoly(32, 0), ring.NewPoly(32, 0)}, MetaData: &MetaData{}}
	for i := range small.Value {
		for w := range small.Value[i].Coeffs[0] {
			small.Value[i].Coeffs[0][w] = uint64(100*i + w + 1)
		}
		for w := range large.Value[i].Coeffs[0] {
			large.Value[i].Coeffs[0][w] = 777 // what a previous use left in the receiver
		}
	}
	SwitchCiphertextRingDegree(small, large)
	for i := range large.Value {
		for w, c := range large.Value[i].Coeffs[0] {
			want := uint64(0)
			if w%4 == 0 {
				want = uint64(100*i + w/4 + 1)
			}
			if c != want {
				t.Fatalf("component %d, coefficient %d of the image of Y -> X^4: %d, want %d", i, w, c, want)
			}
		}
	}
}

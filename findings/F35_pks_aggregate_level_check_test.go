package multiparty

// Finding F35 (property C16): PublicKeySwitchProtocol.AggregateShares means to refuse shares of
// different levels but compares the two components of share1 with each other
// (share1.Value[0].Level() != share1.Value[1].Level()), never share1 with share2: shares of different
// levels are not refused (the addition then panics or silently uses rows of one level only).

import (
	"testing"

	"github.com/tuneinsight/lattigo/v6/core/rlwe"
	"github.com/tuneinsight/lattigo/v6/ring"
)

func TestF35PKSAggregateLevelCheck(t *testing.T) {
	params, err := rlwe.NewParametersFromLiteral(rlwe.ParametersLiteral{LogN: 10, LogQ: []int{50, 40, 40}, LogP: []int{50}, NTTFlag: true})
	if err != nil {
		t.Fatal(err)
	}
	pcks, err := NewPublicKeySwitchProtocol(params, ring.DiscreteGaussian{Sigma: 8, Bound: 48})
	if err != nil {
		t.Fatal(err)
	}
	s1 := pcks.AllocateShare(2)
	s2 := pcks.AllocateShare(1) // a share of another level
	out := pcks.AllocateShare(2)
	var aggErr error
	func() {
		defer func() {
			if r := recover(); r != nil {
				t.Fatalf("aggregating shares of levels 2 and 1 panics instead of returning an error: %v", r)
			}
		}()
		aggErr = pcks.AggregateShares(s1, s2, &out)
	}()
	if aggErr == nil {
		t.Fatalf("aggregating shares of levels 2 and 1 is not refused")
	}
}

package probe2

import (
	"testing"

	"github.com/tuneinsight/lattigo/v6/core/rlwe"
	"github.com/tuneinsight/lattigo/v6/multiparty"
)

// F12: two distinct Shamir public points that are equal modulo one of the moduli: the Lagrange
// denominator is 0 modulo that prime, its "inverse" is 0, and the shares silently do not recombine.
func TestShamirPointsCollidingModQ(t *testing.T) {
	p := params(t)
	q0 := p.Q()[0]
	run := func(points []multiparty.ShamirPublicPoint) bool {
		n := len(points)
		kg := rlwe.NewKeyGenerator(p)
		thr := multiparty.NewThresholdizer(p)
		sks := make([]*rlwe.SecretKey, n)
		tsks := make([]multiparty.ShamirSecretShare, n)
		ideal := rlwe.NewSecretKey(p)
		rq := p.RingQP()
		for i := range sks {
			sks[i] = kg.GenSecretKeyNew()
			tsks[i] = thr.AllocateThresholdSecretShare()
			rq.Add(ideal.Value, sks[i].Value, ideal.Value)
		}
		for i := range sks {
			poly, err := thr.GenShamirPolynomial(n, sks[i])
			if err != nil {
				t.Fatal(err)
			}
			for j := range sks {
				sh := thr.AllocateThresholdSecretShare()
				thr.GenShamirSecretShare(points[j], poly, &sh)
				if err := thr.AggregateShares(tsks[j], sh, &tsks[j]); err != nil {
					t.Fatal(err)
				}
			}
		}
		rec := rlwe.NewSecretKey(p)
		for i := range sks {
			cmb := multiparty.NewCombiner(p, points[i], points, n)
			out := rlwe.NewSecretKey(p)
			if err := cmb.GenAdditiveShare(points, points[i], tsks[i], out); err != nil {
				t.Fatal(err)
			}
			rq.Add(rec.Value, out.Value, rec.Value)
		}
		return rq.Equal(rec.Value, ideal.Value)
	}
	if !run([]multiparty.ShamirPublicPoint{1, 2}) {
		t.Fatalf("sanity: points 1,2 do not recombine")
	}
	if !run([]multiparty.ShamirPublicPoint{1, multiparty.ShamirPublicPoint(1 + q0)}) {
		t.Errorf("distinct points 1 and 1+q0 (q0=%d): the additive shares do not sum to the ideal secret, and no error was reported", q0)
	}
}

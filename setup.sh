#!/bin/sh
# Build the lvc verifier from files on disk only (offline).
set -e
cd "$(dirname "$0")"
export GOFLAGS=-mod=mod GOPROXY=off GOSUMDB=off GOTOOLCHAIN=local
mkdir -p bin work evidence replay
go build -o bin/lvc ./cmd/lvc

package mpbgv

// Finding F37 (property C16, "any aggregation order of the shares"): AggregateShares of the masked
// transform / refresh adds the two parts of the shares but does not give the aggregate the metadata
// of the shares.  Aggregating into a freshly allocated share (a tree of aggregators) leaves zero
// metadata and Transform / Finalize then refuses the aggregate ("ct.MetaData != share.MetaData");
// only in-place aggregation on one of the shares works.

import (
	"slices"
	"testing"

	"github.com/tuneinsight/lattigo/v6/core/rlwe"
	"github.com/tuneinsight/lattigo/v6/schemes/bgv"
	"github.com/tuneinsight/lattigo/v6/utils/sampling"
)

func TestF37RefreshAggregateIntoFreshAccumulator(t *testing.T) {
	params, err := bgv.NewParametersFromLiteral(bgv.ParametersLiteral{LogN: 10, LogQ: []int{54, 49, 49}, LogP: []int{52}, PlaintextModulus: 65537})
	if err != nil {
		t.Fatal(err)
	}
	p0, err := NewMaskedTransformProtocol(params, params, params.Xe())
	if err != nil {
		t.Fatal(err)
	}
	p1 := p0.ShallowCopy()
	kgen := rlwe.NewKeyGenerator(params)
	sk0, sk1 := kgen.GenSecretKeyNew(), kgen.GenSecretKeyNew()
	skIdeal := rlwe.NewSecretKey(params)
	params.RingQP().Add(sk0.Value, sk1.Value, skIdeal.Value)

	want := make([]uint64, params.MaxSlots())
	for i := range want {
		want[i] = uint64(3*i+1) % params.PlaintextModulus()
	}
	pt := bgv.NewPlaintext(params, 0)
	if err := bgv.NewEncoder(params).Encode(want, pt); err != nil {
		t.Fatal(err)
	}
	ct, err := rlwe.NewEncryptor(params, skIdeal).EncryptNew(pt)
	if err != nil {
		t.Fatal(err)
	}
	crs, _ := sampling.NewKeyedPRNG([]byte("f37"))
	crp := p0.SampleCRP(params.MaxLevel(), crs)
	transform := &MaskedTransformFunc{Decode: true, Func: func(c []uint64) {}, Encode: true}
	s0, s1 := p0.AllocateShare(0, params.MaxLevel()), p1.AllocateShare(0, params.MaxLevel())
	if err := p0.GenShare(sk0, sk0, ct, crp, transform, &s0); err != nil {
		t.Fatal(err)
	}
	if err := p1.GenShare(sk1, sk1, ct, crp, transform, &s1); err != nil {
		t.Fatal(err)
	}
	agg := p0.AllocateShare(0, params.MaxLevel()) // a fresh accumulator
	if err := p0.AggregateShares(s0, s1, &agg); err != nil {
		t.Fatal(err)
	}
	out := bgv.NewCiphertext(params, 1, params.MaxLevel())
	*out.MetaData = *ct.MetaData
	if err := p0.Transform(ct, transform, crp, agg, out); err != nil {
		t.Fatalf("the aggregate built in a fresh accumulator is refused: %v", err)
	}
	have := make([]uint64, params.MaxSlots())
	if err := bgv.NewEncoder(params).Decode(rlwe.NewDecryptor(params.Parameters, skIdeal).DecryptNew(out), have); err != nil {
		t.Fatal(err)
	}
	if !slices.Equal(want, have) {
		t.Fatalf("wrong message after the refresh")
	}
}

package blindrot

// Finding F53 (property C20, "for every x in the stated interval ... an encryption of f(x) up to the
// discretisation step"): in the blind rotation the discrete logarithm table maps BOTH +1 and -1 (= 2N-1)
// of Z_2N^* to the exponent 0 ("-0"), while the accumulator loop looks the negative unit up under the key 2N:
// a mask coefficient equal to -1 is processed as +1.  And a mask coefficient 0 (which the odd-making step
// keeps) is not in the table at all, reads as exponent 0, and is processed as +1 too instead of being
// skipped.  The rotation is then off by 2*s_i, respectively s_i, for every such coefficient.

import (
	"math"
	"math/big"
	"testing"

	"github.com/tuneinsight/lattigo/v6/core/rlwe"
	"github.com/tuneinsight/lattigo/v6/ring"
)

func TestF53MaskCoefficientsMinusOneAndZero(t *testing.T) {
	paramsBR, _ := rlwe.NewParametersFromLiteral(rlwe.ParametersLiteral{LogN: 10, Q: []uint64{0x7fff801}, LogP: []int{30}, NTTFlag: true})
	paramsLWE, _ := rlwe.NewParametersFromLiteral(rlwe.ParametersLiteral{LogN: 9, Q: []uint64{0x3001}, NTTFlag: true})
	scaleLWE := float64(paramsLWE.Q()[0]) / 4.0
	scaleBR := float64(paramsBR.Q()[0]) / 4.0
	testPoly := InitTestPolynomial(func(x float64) float64 { return x }, rlwe.NewScale(scaleBR), paramsBR.RingQ(), -1, 1)
	skLWE := rlwe.NewKeyGenerator(paramsLWE).GenSecretKeyNew()
	skc := skLWE.CopyNew()
	rq := paramsLWE.RingQ()
	rq.INTT(skc.Value.Q, skc.Value.Q)
	rq.IMForm(skc.Value.Q, skc.Value.Q)
	s := make([]*big.Int, paramsLWE.N())
	for i := range s {
		s[i] = new(big.Int)
	}
	rq.PolyToBigintCentered(skc.Value.Q, 1, s)
	sum := 0
	for i := range s {
		sum += int(s[i].Int64())
	}
	s0 := int(s[0].Int64())
	skBR := rlwe.NewKeyGenerator(paramsBR).GenSecretKeyNew()
	BRK := GenEvaluationKeyNew(paramsBR, skBR, paramsLWE, skLWE)
	eval := NewEvaluator(paramsBR, paramsLWE)
	dec := rlwe.NewDecryptor(paramsBR, skBR)
	q := paramsBR.Q()[0]
	qL := paramsLWE.Q()[0]
	for _, mode := range []string{"a=(0,..,0)", "a=(1,-1,..,-1)", "a=(-1,1,..,1)"} {
		x := 0.25
		ct := rlwe.NewCiphertext(paramsLWE, 1, 0)
		ct.IsNTT = false
		ct.Value[0].Coeffs[0][0] = uint64(x * scaleLWE)
		want := 0 // <a, s>: the rotation, in units of the discretisation step
		switch mode {
		case "a=(1,-1,..,-1)": // round(6*2N/q) = 1; the dot-product form of the constant mask is (a0, -a_{n-1}, ..., -a_1)
			for i := range ct.Value[1].Coeffs[0] {
				ct.Value[1].Coeffs[0][i] = 6
			}
			want = s0 - (sum - s0)
		case "a=(-1,1,..,1)":
			for i := range ct.Value[1].Coeffs[0] {
				ct.Value[1].Coeffs[0][i] = qL - 6
			}
			want = -s0 + (sum - s0)
		}
		res, err := eval.Evaluate(ct, map[int]*ring.Poly{0: &testPoly}, BRK)
		if err != nil {
			t.Fatal(err)
		}
		pt := dec.DecryptNew(res[0])
		paramsBR.RingQ().INTT(pt.Value, pt.Value)
		c := pt.Value.Coeffs[0][0]
		have := float64(c) / scaleBR
		if c >= q>>1 {
			have = -float64(q-c) / scaleBR
		}
		if got := (have - x) * 512; math.Abs(got-float64(want)) > 1.5 {
			t.Errorf("%s (sum of the secret = %d, s_0 = %d): the identity is evaluated %.1f steps away from x, want <a,s> = %d", mode, sum, s0, got, want)
		}
	}
}

package multiparty

import (
	"bytes"
	"io"
	"testing"

	"github.com/tuneinsight/lattigo/v6/core/rlwe"
	"github.com/tuneinsight/lattigo/v6/utils/sampling"
)

// c14ShortReader is a legal io.Reader (hence a legal multiparty.CRS / sampling.PRNG) that
// delivers the byte stream of the wrapped reader unchanged, but at most max bytes per call,
// as e.g. a network connection, a pipe or a bufio.Reader over a CRS file do.
type c14ShortReader struct {
	r   io.Reader
	max int
}

func (s *c14ShortReader) Read(p []byte) (int, error) {
	if len(p) > s.max {
		p = p[:s.max]
	}
	return s.r.Read(p)
}

// Two parties read the SAME common reference string (identical byte stream) with the
// same sequence of SampleCRP calls. The only difference is the chunking of the reads.
func TestC14_CRPIndependentOfReadChunking(t *testing.T) {

	seed := []byte("common reference string")

	newCRS := func() sampling.PRNG {
		p, err := sampling.NewKeyedPRNG(seed)
		if err != nil {
			t.Fatal(err)
		}
		return p
	}

	// sanity: the two CRS deliver the same bytes
	x, y := make([]byte, 5000), make([]byte, 5000)
	if _, err := io.ReadFull(newCRS(), x); err != nil {
		t.Fatal(err)
	}
	if _, err := io.ReadFull(&c14ShortReader{newCRS(), 1000}, y); err != nil {
		t.Fatal(err)
	}
	if !bytes.Equal(x, y) {
		t.Fatal("test setup: streams differ")
	}

	params, err := rlwe.NewParametersFromLiteral(rlwe.ParametersLiteral{LogN: 8, LogQ: []int{60, 45, 30}, LogP: []int{61}, NTTFlag: true})
	if err != nil {
		t.Fatal(err)
	}

	var crsA CRS = newCRS()
	var crsB CRS = &c14ShortReader{newCRS(), 1000}

	ckg := NewPublicKeyGenProtocol(params)
	a, b := ckg.SampleCRP(crsA), ckg.SampleCRP(crsB)
	if !a.Value.Equal(&b.Value) {
		t.Errorf("PublicKeyGen CRP differs between two parties reading the same CRS bytes with the same calls")
	}

	rkg := NewRelinearizationKeyGenProtocol(params)
	ra, rb := rkg.SampleCRP(crsA), rkg.SampleCRP(crsB)
	if !ra.Value.Equal(rb.Value) {
		t.Errorf("RelinearizationKeyGen CRP differs between two parties reading the same CRS bytes with the same calls")
	}
}

package main

// Per-property configuration of the registered checks.

var stdTrusted = []string{
	"go/packages + go/types front end (x/tools v0.29.0)",
	"mathematical lemmas stated in DESIGN.md section 5 (CRT isomorphism, Fermat for the oracle-prime moduli, Cooley-Tukey composition)",
}

var propertyConfigs = map[string]*propertyConfig{
	"C01": {
		ID:       "C01",
		Packages: []string{"./ring/..."},
		Level:    "proof",
		Explain: "Every function of the ring layer listed under 'functions' carries a contract (requires/ensures/assigns/loop invariants) in ring/zz_contracts_verif.go; " +
			"lvc symbolically executes the real body from /repo's working tree and discharges one SMT obligation per postcondition, callee precondition, bounds check, " +
			"unsafe 8-lane window, loop-invariant clause (per lane) and frame condition, for all inputs in the stated ranges and all lengths.",
		Assumptions: []string{
			"uint64 arithmetic is modelled exactly (wrap-around mod 2^64); signed int arithmetic is mathematical with an overflow obligation at every operation",
			"variable*variable products are the uninterpreted function mul in polynomial normal form; the nonlinear facts used are instances of library lemmas that are themselves proved on every run",
			"slices have length <= 2^40 and addresses <= 2^56 (address-space bound)",
			"meaning clauses of vector kernels follow from the per-lane data-flow postcondition plus the scalar 'meaning' lemma (meta-step of the engine)",
			"NOT decided here: that the log N butterfly layers compose to the negacyclic DFT (stated lemma, DESIGN.md 4/C01 4c)",
		},
		Trusted: stdTrusted,
	},
}

package bgv

// Finding F43 (property C05, "missing evaluation key ... reported as errors instead of a panic"): in
// the scale-invariant (BFV) style, MulRelin without an evaluation-key set dereferences the nil key-set
// interface (tensorScaleInvariant calls GetRelinearizationKey directly); the BGV style returns an error.

import (
	"testing"

	"github.com/tuneinsight/lattigo/v6/core/rlwe"
)

func TestF43MulRelinScaleInvariantWithoutKey(t *testing.T) {
	params, err := NewParametersFromLiteral(ParametersLiteral{LogN: 10, LogQ: []int{54, 49, 49}, LogP: []int{52}, PlaintextModulus: 65537})
	if err != nil {
		t.Fatal(err)
	}
	kgen := rlwe.NewKeyGenerator(params)
	sk := kgen.GenSecretKeyNew()
	enc := rlwe.NewEncryptor(params, sk)
	ct, err := enc.EncryptZeroNew(params.MaxLevel()), error(nil)
	if err != nil {
		t.Fatal(err)
	}
	for _, scaleInvariant := range []bool{false, true} {
		func() {
			defer func() {
				if r := recover(); r != nil {
					t.Errorf("scaleInvariant=%v: MulRelinNew without a relinearisation key panicked: %v", scaleInvariant, r)
				}
			}()
			eval := NewEvaluator(params, nil, scaleInvariant)
			if _, err := eval.MulRelinNew(ct, ct); err == nil {
				t.Errorf("scaleInvariant=%v: MulRelinNew without a relinearisation key returned no error", scaleInvariant)
			}
		}()
	}
}

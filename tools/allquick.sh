#!/bin/bash
# allquick.sh: run every registered quick check once; exit non-zero if one fails (use before every hook commit).
cd /verif
rc=0
for p in $(python3 -c "import json;print(' '.join(c['property_id'] for c in json.load(open('MANIFEST.json'))['checks']))"); do
  out=$(./bin/lvc check $p --tier quick 2>&1); c=$?
  echo "$out" | grep -v KNOWN | tail -1 | cut -c1-140
  [ $c -eq 0 ] || { rc=1; echo "$out" | grep "^VIOLATION" | head -3 | cut -c1-200; }
done
exit $rc

package rlwe_test

import (
	"bufio"
	"bytes"
	"testing"

	"github.com/tuneinsight/lattigo/v6/core/rlwe"
)

// Any bufio.Reader is a buffer.Reader and is used as is by ReadFrom. All types can be read through
// a bufio.Reader with a small internal buffer (the slice readers adapt to r.Size()), except the
// compressed evaluation keys: their 32-byte seed is read with buffer.Read, which Peeks the whole
// slice at once and fails with bufio.ErrBufferFull when the reader's buffer is smaller than 32 bytes.
func TestC08CompressedKeySmallBufferedReader(t *testing.T) {

	params, err := rlwe.NewParametersFromLiteral(rlwe.ParametersLiteral{LogN: 5, LogQ: []int{30, 30}, LogP: []int{31}, NTTFlag: true})
	if err != nil {
		t.Fatal(err)
	}

	kgen := rlwe.NewKeyGenerator(params)
	sk := kgen.GenSecretKeyNew()

	for _, compressed := range []bool{false, true} {

		gk := kgen.GenGaloisKeyNew(5, sk, rlwe.EvaluationKeyParameters{Compressed: compressed})

		var stream bytes.Buffer
		for i := 0; i < 2; i++ { // two keys back-to-back
			if _, err = gk.WriteTo(&stream); err != nil {
				t.Fatal(err)
			}
		}

		r := bufio.NewReaderSize(&stream, 16)

		for i := 0; i < 2; i++ {
			got := new(rlwe.GaloisKey)
			n, err := got.ReadFrom(r)
			if err != nil {
				t.Errorf("compressed=%v: key #%d: ReadFrom through bufio.NewReaderSize(r, 16): %v (n=%d, want %d)", compressed, i, err, n, gk.BinarySize())
				break
			}
			if int(n) != gk.BinarySize() || !got.Equal(&gk.GadgetCiphertext) || (got.Seed == nil) != (gk.Seed == nil) || (gk.Seed != nil && *got.Seed != *gk.Seed) {
				t.Errorf("compressed=%v: key #%d: not faithfully read", compressed, i)
			}
		}
	}
}

package rlwe_test

import (
	"encoding/binary"
	"fmt"
	"runtime"
	"testing"

	"github.com/tuneinsight/lattigo/v6/core/rlwe"
	"github.com/tuneinsight/lattigo/v6/ring"
	"github.com/tuneinsight/lattigo/v6/utils/buffer"
	"github.com/tuneinsight/lattigo/v6/utils/structs"
)

// A corrupted length field must make ReadFrom return an error. It must neither panic nor
// allocate memory that is out of proportion with the bytes actually present on the stream.

const c08AllocBudget = 64 << 20 // 64 MB for inputs of a few hundred bytes

// readGuard runs f, recovers a panic and reports the number of bytes allocated meanwhile.
func c08ReadGuard(f func() error) (err error, panicked interface{}, allocated uint64) {
	var m0, m1 runtime.MemStats
	runtime.GC()
	runtime.ReadMemStats(&m0)
	func() {
		defer func() { panicked = recover() }()
		err = f()
	}()
	runtime.ReadMemStats(&m1)
	return err, panicked, m1.TotalAlloc - m0.TotalAlloc
}

func c08Check(t *testing.T, what string, f func() error) {
	t.Helper()
	err, p, alloc := c08ReadGuard(f)
	if p != nil {
		t.Errorf("%s: ReadFrom panics instead of returning an error: %v", what, p)
		return
	}
	if alloc > c08AllocBudget {
		t.Errorf("%s: ReadFrom allocated %d MB for a tiny corrupted input (err=%v)", what, alloc>>20, err)
	}
	if err == nil {
		t.Errorf("%s: ReadFrom accepted the corrupted input (nil error)", what)
	}
}

func TestC08CorruptedLengthFields(t *testing.T) {

	// ring.Poly : [#rows u64][#coeffs u64][coeffs...]...
	pol := ring.NewPoly(16, 1)
	enc, err := pol.MarshalBinary()
	if err != nil {
		t.Fatal(err)
	}

	t.Run("Matrix/rows=0x7f00..02/panic", func(t *testing.T) {
		c := append([]byte(nil), enc...)
		c[7] = 0x7f // most significant byte of the number of rows
		c08Check(t, "ring.Poly, #rows corrupted to 2^62+", func() error {
			_, err := new(ring.Poly).ReadFrom(buffer.NewBuffer(c))
			return err
		})
	})

	t.Run("Vector/len=0x7f00..10/panic", func(t *testing.T) {
		c := append([]byte(nil), enc...)
		c[15] = 0x7f // most significant byte of the length of row 0
		c08Check(t, "ring.Poly, row length corrupted to 2^62+", func() error {
			_, err := new(ring.Poly).ReadFrom(buffer.NewBuffer(c))
			return err
		})
	})

	t.Run("Vector/len=2^24/alloc", func(t *testing.T) {
		c := append([]byte(nil), enc...)
		binary.LittleEndian.PutUint64(c[8:], 1<<24) // row 0 announces 2^24 coefficients (128 MB), stream holds 16
		c08Check(t, fmt.Sprintf("ring.Poly (%d bytes), row length corrupted to 2^24", len(c)), func() error {
			_, err := new(ring.Poly).ReadFrom(buffer.NewBuffer(c))
			return err
		})
	})

	t.Run("Matrix/rows=2^23/alloc", func(t *testing.T) {
		c := append([]byte(nil), enc...)
		binary.LittleEndian.PutUint64(c[0:], 1<<23) // 2^23 rows announced: 2^23 slice headers = 192 MB
		c08Check(t, fmt.Sprintf("ring.Poly (%d bytes), #rows corrupted to 2^23", len(c)), func() error {
			_, err := new(ring.Poly).ReadFrom(buffer.NewBuffer(c))
			return err
		})
	})

	t.Run("Map/count=2^23/alloc", func(t *testing.T) {
		m := structs.Map[uint64, ring.Poly]{5: &pol}
		c, err := m.MarshalBinary()
		if err != nil {
			t.Fatal(err)
		}
		binary.LittleEndian.PutUint32(c[0:], 1<<23) // 2^23 entries announced, stream holds one
		c08Check(t, fmt.Sprintf("structs.Map (%d bytes), count corrupted to 2^23", len(c)), func() error {
			_, err := new(structs.Map[uint64, ring.Poly]).ReadFrom(buffer.NewBuffer(c))
			return err
		})
	})

	t.Run("Parameters/jsonlen=2^27/alloc", func(t *testing.T) {
		params, err := rlwe.NewParametersFromLiteral(rlwe.ParametersLiteral{LogN: 5, LogQ: []int{30}, NTTFlag: true})
		if err != nil {
			t.Fatal(err)
		}
		c, err := params.MarshalBinary()
		if err != nil {
			t.Fatal(err)
		}
		binary.LittleEndian.PutUint32(c[0:], 1<<27) // 128 MB of JSON announced
		c08Check(t, fmt.Sprintf("rlwe.Parameters (%d bytes), JSON length corrupted to 2^27", len(c)), func() error {
			_, err := new(rlwe.Parameters).ReadFrom(buffer.NewBuffer(c))
			return err
		})
	})

	t.Run("Ciphertext/degree=0x7f../panic", func(t *testing.T) {
		params, err := rlwe.NewParametersFromLiteral(rlwe.ParametersLiteral{LogN: 5, LogQ: []int{30}, NTTFlag: true})
		if err != nil {
			t.Fatal(err)
		}
		ct := rlwe.NewCiphertext(params, 1, 0)
		c, err := ct.MarshalBinary()
		if err != nil {
			t.Fatal(err)
		}
		off := 1 + ct.MetaData.BinarySize() // [hasMetaData][MetaData][#polys u64]...
		c[off+7] = 0x7f
		c08Check(t, "rlwe.Ciphertext, #polynomials corrupted to 2^62+", func() error {
			_, err := new(rlwe.Ciphertext).ReadFrom(buffer.NewBuffer(c))
			return err
		})
	})
}

package mpbgv

// Finding F38 (property C16, "collective refresh ... return a fresh ciphertext of the message"):
// mpbgv MaskedTransformProtocol.Transform (and RefreshProtocol.Finalize through it) never writes the
// metadata of the output ciphertext and decodes / encodes with the OUTPUT's previous scale: refreshing
// a ciphertext of scale 7 into a freshly allocated ciphertext (scale 1) returns, without error, a
// ciphertext that decodes to 7 times the message.  In place it works.

import (
	"slices"
	"testing"

	"github.com/tuneinsight/lattigo/v6/core/rlwe"
	"github.com/tuneinsight/lattigo/v6/schemes/bgv"
	"github.com/tuneinsight/lattigo/v6/utils/sampling"
)

func TestF38RefreshIntoFreshCiphertext(t *testing.T) {
	params, err := bgv.NewParametersFromLiteral(bgv.ParametersLiteral{LogN: 10, LogQ: []int{54, 49, 49}, LogP: []int{52}, PlaintextModulus: 65537})
	if err != nil {
		t.Fatal(err)
	}
	p0, err := NewMaskedTransformProtocol(params, params, params.Xe())
	if err != nil {
		t.Fatal(err)
	}
	p1 := p0.ShallowCopy()
	kgen := rlwe.NewKeyGenerator(params)
	sk0, sk1 := kgen.GenSecretKeyNew(), kgen.GenSecretKeyNew()
	skIdeal := rlwe.NewSecretKey(params)
	params.RingQP().Add(sk0.Value, sk1.Value, skIdeal.Value)

	want := make([]uint64, params.MaxSlots())
	for i := range want {
		want[i] = uint64(3*i+1) % params.PlaintextModulus()
	}
	pt := bgv.NewPlaintext(params, 0)
	pt.Scale = rlwe.NewScaleModT(7, params.PlaintextModulus())
	if err := bgv.NewEncoder(params).Encode(want, pt); err != nil {
		t.Fatal(err)
	}
	ct, err := rlwe.NewEncryptor(params, skIdeal).EncryptNew(pt)
	if err != nil {
		t.Fatal(err)
	}
	crs, _ := sampling.NewKeyedPRNG([]byte("f37"))
	crp := p0.SampleCRP(params.MaxLevel(), crs)
	transform := &MaskedTransformFunc{Decode: true, Func: func(c []uint64) {}, Encode: true}
	s0, s1 := p0.AllocateShare(0, params.MaxLevel()), p1.AllocateShare(0, params.MaxLevel())
	if err := p0.GenShare(sk0, sk0, ct, crp, transform, &s0); err != nil {
		t.Fatal(err)
	}
	if err := p1.GenShare(sk1, sk1, ct, crp, transform, &s1); err != nil {
		t.Fatal(err)
	}
	if err := p0.AggregateShares(s0, s1, &s0); err != nil {
		t.Fatal(err)
	}
	out := bgv.NewCiphertext(params, 1, params.MaxLevel()) // a fresh output, not the input
	if err := p0.Transform(ct, transform, crp, s0, out); err != nil {
		t.Fatal(err)
	}
	have := make([]uint64, params.MaxSlots())
	if err := bgv.NewEncoder(params).Decode(rlwe.NewDecryptor(params.Parameters, skIdeal).DecryptNew(out), have); err != nil {
		t.Fatal(err)
	}
	if !slices.Equal(want, have) {
		t.Fatalf("refresh into a fresh ciphertext: recorded scale %d, slot 1 decodes to %d, expected %d", out.Scale.Uint64(), have[1], want[1])
	}
}

package rlwe_test

import (
	"bytes"
	"testing"

	"github.com/tuneinsight/lattigo/v6/core/rlwe"
	"github.com/tuneinsight/lattigo/v6/utils/buffer"
)

// rlwe.Scale.UnmarshalJSON (used by Scale.UnmarshalBinary, MetaData, every ciphertext/plaintext
// header, rlwe.Parameters.DefaultScale and multiparty.RefreshShare):
//  1. panics (nil pointer dereference) when the "Mod" field is missing or not a number;
//  2. keeps the modulus of the value previously held by the receiver when the decoded scale has none;
//  3. silently accepts a "Value" field that is not a number.
func TestC08ScaleUnmarshal(t *testing.T) {

	t.Run("PanicOnMalformedMod", func(t *testing.T) {

		params, err := rlwe.NewParametersFromLiteral(rlwe.ParametersLiteral{LogN: 5, LogQ: []int{30}, NTTFlag: true})
		if err != nil {
			t.Fatal(err)
		}

		ct := rlwe.NewCiphertext(params, 1, 0)
		ct.Scale = rlwe.NewScale(1 << 20)
		enc, err := ct.MarshalBinary()
		if err != nil {
			t.Fatal(err)
		}

		// locate the digits of the "Mod" field inside the ciphertext header and corrupt ONE byte.
		i := bytes.Index(enc, []byte(`"Mod":"0.0`))
		if i < 0 {
			t.Fatal("unexpected header layout")
		}

		for _, tc := range []struct {
			name string
			off  int
			val  byte
		}{
			{"digit->0xff", i + 9, 0xff},
			{"digit->0x00", i + 9, 0x00},
			{"key->0x7f", i + 1, 0x7f},
		} {
			c := append([]byte(nil), enc...)
			c[tc.off] = tc.val

			var p interface{}
			func() {
				defer func() { p = recover() }()
				_, err = new(rlwe.Ciphertext).ReadFrom(buffer.NewBuffer(c))
			}()

			if p != nil {
				t.Errorf("Ciphertext.ReadFrom, header byte %d corrupted (%s): panics instead of returning an error: %v", tc.off, tc.name, p)
			} else if err == nil {
				t.Errorf("Ciphertext.ReadFrom, header byte %d corrupted (%s): accepted with nil error", tc.off, tc.name)
			}
		}

		// the same for a hand written JSON without modulus
		var p interface{}
		func() {
			defer func() { p = recover() }()
			var s rlwe.Scale
			err = s.UnmarshalJSON([]byte(`{"Value":"1.0"}`))
		}()
		if p != nil {
			t.Errorf(`Scale.UnmarshalJSON({"Value":"1.0"}) panics: %v`, p)
		}
	})

	t.Run("StaleModInReusedReceiver", func(t *testing.T) {

		want := rlwe.NewScale(1 << 30) // CKKS-like scale: no modulus
		enc, err := want.MarshalBinary()
		if err != nil {
			t.Fatal(err)
		}

		have := rlwe.NewScaleModT(3, 65537) // receiver previously held a BGV-like scale
		if err = have.UnmarshalBinary(enc); err != nil {
			t.Fatal(err)
		}

		if have.Mod != nil {
			t.Errorf("scale read into a reused receiver kept the old modulus: Mod=%v, want nil", have.Mod)
		}

		enc2, _ := have.MarshalBinary()
		if !bytes.Equal(enc, enc2) {
			t.Errorf("re-encoding differs:\n  written: %s\n  read   : %s", enc, enc2)
		}

		// observable consequence: arithmetic on the decoded scale is now done modulo 65537
		a, b := want.Mul(want), have.Mul(have)
		if a.Cmp(b) != 0 {
			t.Errorf("decoded scale behaves differently: (2^30)^2 = %v, got %v", a.Float64(), b.Float64())
		}
	})

	t.Run("MalformedValueAccepted", func(t *testing.T) {
		s := rlwe.NewScale(12345)
		enc, _ := s.MarshalBinary()
		i := bytes.Index(enc, []byte(`"Value":"1.2`))
		c := append([]byte(nil), enc...)
		c[i+10] = 'x' // 1.x345...
		var out rlwe.Scale
		if err := out.UnmarshalBinary(c); err == nil {
			t.Errorf("Scale.UnmarshalBinary(%s) returned a nil error (decoded value: %v)", c, out.Float64())
		}
	})
}

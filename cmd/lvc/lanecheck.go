package main

// Structural contract for 8-way hand-unrolled code (floating-point lanes that the SMT engines do
// not model, basis_extension.go):
//
//	//@ lanes8 <function>
//	//@   property C02
//
// A lane token is (a) an identifier of a family base0 .. base7 all of which are parameters or
// locals of the function, (b) a constant index 0..7 into a value of array type with 8 elements
// (or a pointer to one).  The contract: every simple statement that mentions lane tokens mentions
// exactly ONE lane (or all eight, e.g. a parallel reset), and inside every block the statements of
// one shape (their text with the lane blanked) come exactly once per lane.  A copy-paste slip
// (`vi[5] += float64(y4[i]) / qif`) mentions two lanes and fails the first clause; a forgotten or
// duplicated lane fails the second.  Decided on the typed AST; no arithmetic is involved.

import (
	"fmt"
	"go/ast"
	"go/constant"
	"go/printer"
	"go/token"
	"go/types"
	"sort"
	"strings"
)

type LaneSpec struct {
	Pkg, Target, Line string
	Props             []string
}

func parseLaneBlocks(pkgPath string, lines, where []string) []*LaneSpec {
	var out []*LaneSpec
	var cur *LaneSpec
	for i, l := range lines {
		f := strings.Fields(l)
		if len(f) == 0 {
			cur = nil
			continue
		}
		switch f[0] {
		case "lanes8":
			if len(f) < 2 {
				continue
			}
			cur = &LaneSpec{Pkg: pkgPath, Target: f[1], Line: where[i]}
			out = append(out, cur)
		case "property":
			if cur != nil {
				cur.Props = append(cur.Props, f[1:]...)
			}
		default:
			cur = nil
		}
	}
	return out
}

func laneObligations(prog *Program, id string) []simpleObligation {
	var out []simpleObligation
	for _, ls := range prog.Lanes {
		serves := false
		for _, p := range ls.Props {
			if p == id {
				serves = true
			}
		}
		if serves {
			out = append(out, checkLanes(prog, ls)...)
		}
	}
	return out
}

func checkLanes(prog *Program, ls *LaneSpec) []simpleObligation {
	key := ls.Pkg + "." + ls.Target
	short := shortPkg(key)
	fi := prog.Funcs[key]
	if fi == nil || fi.Decl.Body == nil {
		return []simpleObligation{{Name: "lanes/" + short + "/target", Func: short, File: ls.Line, OK: false, Detail: "function not found (renamed or removed?)"}}
	}
	info := fi.Pkg.TypesInfo
	// identifier families base0..base7
	names := map[string]bool{}
	ast.Inspect(fi.Decl, func(n ast.Node) bool {
		if id, ok := n.(*ast.Ident); ok {
			if obj := info.Defs[id]; obj != nil {
				if _, isVar := obj.(*types.Var); isVar {
					names[id.Name] = true
				}
			}
		}
		return true
	})
	family := map[string]int{} // identifier -> lane
	for n := range names {
		if len(n) < 2 || n[len(n)-1] < '0' || n[len(n)-1] > '7' {
			continue
		}
		base := n[:len(n)-1]
		all := true
		for d := 0; d < 8; d++ {
			if !names[fmt.Sprintf("%s%d", base, d)] {
				all = false
			}
		}
		if all {
			family[n] = int(n[len(n)-1] - '0')
		}
	}
	is8 := func(t types.Type) bool {
		if p, ok := t.Underlying().(*types.Pointer); ok {
			t = p.Elem()
		}
		a, ok := t.Underlying().(*types.Array)
		return ok && a.Len() == 8
	}
	// lanes of a statement and its shape (text with the lane blanked)
	analyse := func(s ast.Stmt) (lanes map[int]bool, shape string) {
		lanes = map[int]bool{}
		repl := map[token.Pos]string{}
		ast.Inspect(s, func(n ast.Node) bool {
			switch x := n.(type) {
			case *ast.Ident:
				if l, ok := family[x.Name]; ok {
					lanes[l] = true
					repl[x.Pos()] = x.Name[:len(x.Name)-1] + "#"
				}
			case *ast.IndexExpr:
				if tv, ok := info.Types[x.Index]; ok && tv.Value != nil && tv.Value.Kind() == constant.Int {
					if xt, ok := info.Types[x.X]; ok && is8(xt.Type) {
						if v, exact := constant.Int64Val(tv.Value); exact && v >= 0 && v < 8 {
							lanes[int(v)] = true
							repl[x.Index.Pos()] = "#"
						}
					}
				}
			}
			return true
		})
		var b strings.Builder
		_ = printer.Fprint(&b, prog.Fset, s)
		shape = b.String()
		if len(repl) > 0 {
			// rebuild the text with the lane tokens blanked: print a copy with rewritten nodes
			cp := rewriteLanes(s, repl)
			b.Reset()
			_ = printer.Fprint(&b, token.NewFileSet(), cp)
			shape = b.String()
		}
		return
	}
	var out []simpleObligation
	nStmts := 0
	var walk func(list []ast.Stmt)
	walk = func(list []ast.Stmt) {
		groups := map[string][]int{}
		var order []string
		pos := map[string]token.Pos{}
		for _, s := range list {
			switch x := s.(type) {
			case *ast.ForStmt:
				walk(x.Body.List)
				continue
			case *ast.RangeStmt:
				walk(x.Body.List)
				continue
			case *ast.IfStmt:
				walk(x.Body.List)
				if eb, ok := x.Else.(*ast.BlockStmt); ok {
					walk(eb.List)
				}
				continue
			case *ast.BlockStmt:
				walk(x.List)
				continue
			}
			lanes, shape := analyse(s)
			if len(lanes) == 0 {
				continue
			}
			nStmts++
			at := prog.Fset.Position(s.Pos())
			where := fmt.Sprintf("%s:%d", at.Filename, at.Line)
			if len(lanes) == 8 {
				continue
			}
			if len(lanes) != 1 {
				var ls2 []int
				for l := range lanes {
					ls2 = append(ls2, l)
				}
				sort.Ints(ls2)
				var b strings.Builder
				_ = printer.Fprint(&b, prog.Fset, s)
				out = append(out, simpleObligation{Name: fmt.Sprintf("lanes/%s/one-lane:line%d", short, at.Line-prog.Fset.Position(fi.Decl.Pos()).Line), Func: short, File: where, OK: false,
					Detail: fmt.Sprintf("statement `%s` mixes lanes %v", b.String(), ls2)})
				continue
			}
			for l := range lanes {
				if _, seen := groups[shape]; !seen {
					order = append(order, shape)
					pos[shape] = s.Pos()
				}
				groups[shape] = append(groups[shape], l)
			}
		}
		for _, sh := range order {
			ls2 := append([]int(nil), groups[sh]...)
			sort.Ints(ls2)
			ok := len(ls2) == 8
			for i := 0; ok && i < 8; i++ {
				ok = ls2[i] == i
			}
			at := prog.Fset.Position(pos[sh])
			so := simpleObligation{Name: fmt.Sprintf("lanes/%s/all-lanes:%s", short, strings.Join(strings.Fields(sh), " ")), Func: short, File: fmt.Sprintf("%s:%d", at.Filename, at.Line), OK: ok}
			if len(so.Name) > 150 {
				so.Name = so.Name[:150]
			}
			if !ok {
				so.Detail = fmt.Sprintf("statements of shape `%s` cover lanes %v, expected each of 0..7 exactly once", sh, ls2)
			}
			out = append(out, so)
		}
	}
	walk(fi.Decl.Body.List)
	if nStmts == 0 {
		out = append(out, simpleObligation{Name: "lanes/" + short + "/target", Func: short, File: ls.Line, OK: false, Detail: "no lane-indexed statement found: the lanes8 contract does not fit this function"})
	}
	return out
}

// rewriteLanes returns a copy of the statement in which the lane tokens are blanked.
func rewriteLanes(s ast.Stmt, repl map[token.Pos]string) ast.Stmt {
	var rw func(n ast.Node) ast.Node
	rwExpr := func(e ast.Expr) ast.Expr {
		if e == nil {
			return nil
		}
		return rw(e).(ast.Expr)
	}
	rw = func(n ast.Node) ast.Node {
		switch x := n.(type) {
		case *ast.Ident:
			if r, ok := repl[x.Pos()]; ok {
				return &ast.Ident{Name: r}
			}
			return &ast.Ident{Name: x.Name}
		case *ast.BasicLit:
			if r, ok := repl[x.Pos()]; ok {
				return &ast.Ident{Name: r}
			}
			return &ast.BasicLit{Kind: x.Kind, Value: x.Value}
		case *ast.IndexExpr:
			return &ast.IndexExpr{X: rwExpr(x.X), Index: rwExpr(x.Index)}
		case *ast.CallExpr:
			c := &ast.CallExpr{Fun: rwExpr(x.Fun)}
			for _, a := range x.Args {
				c.Args = append(c.Args, rwExpr(a))
			}
			return c
		case *ast.BinaryExpr:
			return &ast.BinaryExpr{X: rwExpr(x.X), Op: x.Op, Y: rwExpr(x.Y)}
		case *ast.UnaryExpr:
			return &ast.UnaryExpr{Op: x.Op, X: rwExpr(x.X)}
		case *ast.ParenExpr:
			return &ast.ParenExpr{X: rwExpr(x.X)}
		case *ast.SelectorExpr:
			return &ast.SelectorExpr{X: rwExpr(x.X), Sel: &ast.Ident{Name: x.Sel.Name}}
		case *ast.StarExpr:
			return &ast.StarExpr{X: rwExpr(x.X)}
		case *ast.SliceExpr:
			return &ast.SliceExpr{X: rwExpr(x.X), Low: rwExpr(x.Low), High: rwExpr(x.High), Max: rwExpr(x.Max), Slice3: x.Slice3}
		case *ast.AssignStmt:
			a := &ast.AssignStmt{Tok: x.Tok}
			for _, l := range x.Lhs {
				a.Lhs = append(a.Lhs, rwExpr(l))
			}
			for _, r := range x.Rhs {
				a.Rhs = append(a.Rhs, rwExpr(r))
			}
			return a
		case *ast.ExprStmt:
			return &ast.ExprStmt{X: rwExpr(x.X)}
		case *ast.IncDecStmt:
			return &ast.IncDecStmt{X: rwExpr(x.X), Tok: x.Tok}
		}
		// anything else: an opaque token made of its kind (keeps shapes comparable)
		return &ast.Ident{Name: fmt.Sprintf("<%T>", n)}
	}
	return rw(s).(ast.Stmt)
}

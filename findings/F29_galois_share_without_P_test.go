package multiparty

// Finding F29 (property C14, "every admissible parameterisation"): GaloisKeyGenProtocol.GenShare calls
// params.RingP().AtLevel(levelP) unconditionally: with parameters that have no auxiliary modulus P
// (which core/rlwe and the other key-generation protocols support) RingP() is nil and the call
// panics with a nil pointer dereference.

import (
	"testing"

	"github.com/tuneinsight/lattigo/v6/core/rlwe"
	"github.com/tuneinsight/lattigo/v6/utils"
	"github.com/tuneinsight/lattigo/v6/utils/sampling"
)

func TestF29GaloisShareWithoutP(t *testing.T) {
	params, err := rlwe.NewParametersFromLiteral(rlwe.ParametersLiteral{LogN: 10, LogQ: []int{45, 35, 35}, NTTFlag: true})
	if err != nil {
		t.Fatal(err)
	}
	evkParams := rlwe.EvaluationKeyParameters{BaseTwoDecomposition: utils.Pointy(12)}
	kgen := rlwe.NewKeyGenerator(params)
	sk := kgen.GenSecretKeyNew()
	crs, _ := sampling.NewKeyedPRNG([]byte("f29"))
	gkg := NewGaloisKeyGenProtocol(params)
	share := gkg.AllocateShare(evkParams)
	crp := gkg.SampleCRP(crs, evkParams)
	galEl := params.GaloisElement(1)
	func() {
		defer func() {
			if r := recover(); r != nil {
				t.Fatalf("GenShare panics for parameters without P: %v", r)
			}
		}()
		if err := gkg.GenShare(sk, galEl, crp, &share); err != nil {
			t.Fatalf("GenShare: %v", err)
		}
	}()
	gk := rlwe.NewGaloisKey(params, evkParams)
	if err := gkg.GenGaloisKey(share, crp, gk); err != nil {
		t.Fatal(err)
	}
	// single party: the collective key is a Galois key of sk; it must rotate an encryption of zero with small noise
	eval := rlwe.NewEvaluator(params, rlwe.NewMemEvaluationKeySet(nil, gk))
	ct := rlwe.NewEncryptor(params, sk).EncryptZeroNew(params.MaxLevel())
	if err := eval.Automorphism(ct, galEl, ct); err != nil {
		t.Fatal(err)
	}
	pt := rlwe.NewDecryptor(params, sk).DecryptNew(ct)
	ringQ := params.RingQ()
	if pt.IsNTT {
		ringQ.INTT(pt.Value, pt.Value)
	}
	if noise := ringQ.Log2OfStandardDeviation(pt.Value); noise > 40 {
		t.Fatalf("rotation with the collective key: log2(std) = %.1f", noise)
	}
}

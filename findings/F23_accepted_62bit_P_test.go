package rlwe

// Finding KF4 / F23 (property C19): CheckModuli accepts P moduli of up to 62 bits, the ring kernels
// (lazy NTT: values up to 8q must fit in 64 bits) support q < 2^61.  A literal with a 62-bit P prime is
// accepted and the NTT of its auxiliary ring is wrong: INTT(NTT(a)) != a on every coefficient.
// On random data wrong results start around 1.1 * 2^61 (see DESIGN.md 13.8).

import (
	"testing"

	"github.com/tuneinsight/lattigo/v6/ring"
	"github.com/tuneinsight/lattigo/v6/utils/sampling"
)

func TestF23AcceptedP62(t *testing.T) {
	// largest 62-bit primes = 1 mod 2^12
	g := ring.NewNTTFriendlyPrimesGenerator(62, 1<<12)
	ps, err := g.NextDownstreamPrimes(2)
	if err != nil {
		t.Fatal(err)
	}
	t.Logf("P = %v (bits %d)", ps, 62)
	if err := CheckModuli([]uint64{0x1fffffffffe00001}, ps); err != nil {
		t.Fatalf("CheckModuli rejects: %v", err)
	}
	params, err := NewParametersFromLiteral(ParametersLiteral{LogN: 10, Q: []uint64{0x1fffffffffe00001}, P: ps, NTTFlag: true})
	if err != nil {
		t.Fatalf("rejected: %v", err)
	}
	rP := params.RingP()
	prng, _ := sampling.NewKeyedPRNG([]byte("x"))
	a := ring.NewUniformSampler(prng, rP).ReadNew()
	b := a.CopyNew()
	rP.NTT(*b, *b)
	rP.INTT(*b, *b)
	if !a.Equal(b) {
		bad := 0
		for i := range a.Coeffs {
			for j := range a.Coeffs[i] {
				if a.Coeffs[i][j] != b.Coeffs[i][j] {
					bad++
				}
			}
		}
		t.Fatalf("INTT(NTT(a)) != a for accepted 62-bit P: %d coefficients differ", bad)
	}
}

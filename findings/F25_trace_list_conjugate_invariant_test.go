package rlwe

// Finding F25 (property C11, last clause: the advertised Galois elements of an operation suffice
// for it): Evaluator.Trace(ct, 0) works in the conjugate-invariant ring (it skips the step for the
// order-two element, which is the identity there), but GaloisElementsForTrace(params, 0), the function
// that advertises the keys Trace needs, panics for that ring instead of returning the list.

import (
	"testing"

	"github.com/tuneinsight/lattigo/v6/ring"
)

func TestF25TraceListConjugateInvariant(t *testing.T) {
	params, err := NewParametersFromLiteral(ParametersLiteral{LogN: 6, LogQ: []int{50, 40}, LogP: []int{50}, RingType: ring.ConjugateInvariant, NTTFlag: true})
	if err != nil {
		t.Fatal(err)
	}
	kgen := NewKeyGenerator(params)
	sk := kgen.GenSecretKeyNew()

	// the keys Trace(ct, 0) applies in this ring: 5^(2^i), 0 <= i < LogN (since finding F66: the
	// conjugate-invariant trace needs the step 5^(2^(LogN-1)) too; it was i < LogN-1 when F25 was written)
	var want []uint64
	for i := 0; i < params.LogN(); i++ {
		want = append(want, params.GaloisElement(1<<i))
	}
	evk := NewMemEvaluationKeySet(nil, kgen.GenGaloisKeysNew(want, sk)...)
	eval := NewEvaluator(params, evk)
	ct := NewEncryptor(params, sk).EncryptZeroNew(params.MaxLevel())
	if err := eval.Trace(ct, 0, ct); err != nil {
		t.Fatalf("Trace(ct, 0) fails in the conjugate-invariant ring: %v", err)
	}

	var got []uint64
	func() {
		defer func() {
			if r := recover(); r != nil {
				t.Fatalf("GaloisElementsForTrace(params, 0) panics although Trace(ct, 0) works: %v", r)
			}
		}()
		got = GaloisElementsForTrace(params, 0)
	}()
	if len(got) != len(want) {
		t.Fatalf("advertised %v, Trace uses %v", got, want)
	}
	for i := range got {
		if got[i] != want[i] {
			t.Fatalf("advertised %v, Trace uses %v", got, want)
		}
	}
}

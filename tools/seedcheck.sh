#!/bin/bash
# seedcheck.sh <seed dir> : confirm a seeded change in a scratch worktree of /repo:
#  demo fails with the patch, passes without, and the listed package tests still pass with it.
# usage: seedcheck.sh /tmp/seed-out/C01-1 [extra packages to test...]
set -u
export GOFLAGS=-mod=mod GOPROXY=off GOSUMDB=off GOTOOLCHAIN=local
D=$1; shift
ID=$(basename $D)
WT=/tmp/wt-check-$ID
git -C /repo worktree remove --force $WT 2>/dev/null
git -C /repo worktree add -q --detach $WT e4e1d02 || exit 2
place=$(python3 -c "import json;print(json.load(open('$D/meta.json'))['demo_place'])")
run=$(python3 -c "import json;print(json.load(open('$D/meta.json'))['demo_run'])")
demo=$(ls $D/demo*_test.go 2>/dev/null | head -1)
cd $WT
cp $demo $WT/$place/zz_demo_${ID//-/_}_test.go
echo "== clean tree demo (expect PASS)"; eval "$run" > /tmp/seedcheck-$ID.clean.log 2>&1; c=$?; echo "exit=$c"
git apply $D/patch.diff || { echo "PATCH DOES NOT APPLY"; exit 2; }
echo "== patched build"; go build ./... > /tmp/seedcheck-$ID.build.log 2>&1; echo "exit=$?"
echo "== patched demo (expect FAIL)"; eval "$run" > /tmp/seedcheck-$ID.patched.log 2>&1; p=$?; echo "exit=$p"
rm -f $WT/$place/zz_demo_*_test.go
pk=$(git diff --name-only | xargs -n1 dirname | sort -u | sed 's|^|./|; s|$|/...|' | tr '\n' ' ')
echo "== patched tests: $pk $*"; go test -count=1 -vet=off -timeout 20m $pk "$@" > /tmp/seedcheck-$ID.tests.log 2>&1; t=$?; echo "exit=$t"; grep -v "^ok\|no test files" /tmp/seedcheck-$ID.tests.log | head -5
cd /; git -C /repo worktree remove --force $WT
if [ $c = 0 ] && [ $p != 0 ] && [ $t = 0 ]; then echo "CONFIRMED $ID"; else echo "NOT-CONFIRMED $ID clean=$c patched=$p tests=$t"; fi

package probe2

import (
	"testing"

	"github.com/tuneinsight/lattigo/v6/core/rlwe"
)

// F9: a Galois key added to the key set after NewEvaluator: the index table built lazily by
// CheckAndGetGaloisKey was stored in a copy of the evaluator and the automorphism panicked.
func TestLazyGaloisIndex(t *testing.T) {
	p := params(t)
	kg := rlwe.NewKeyGenerator(p)
	sk := kg.GenSecretKeyNew()
	evk := rlwe.NewMemEvaluationKeySet(nil) // no Galois key yet
	eval := rlwe.NewEvaluator(p, evk)
	galEl := p.GaloisElement(1)
	evk.GaloisKeys[galEl] = kg.GenGaloisKeyNew(galEl, sk)
	ct := rlwe.NewCiphertext(p, 1, p.MaxLevel())
	out := rlwe.NewCiphertext(p, 1, p.MaxLevel())
	defer func() {
		if e := recover(); e != nil {
			t.Errorf("Automorphism panicked although the key is in the key set: %v", e)
		}
	}()
	if err := eval.Automorphism(ct, galEl, out); err != nil {
		t.Errorf("Automorphism failed although the key is in the key set: %v", err)
	}
}

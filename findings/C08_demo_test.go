package findings_c08
// Demonstrations (run before the fix: commits) of the C08 defects found by the count-level contracts.
// Place in a scratch module with a replace directive to the repository; see DESIGN.md section 12.

import (
	"bufio"
	"bytes"
	"encoding/binary"
	"testing"
	"testing/iotest"

	"github.com/tuneinsight/lattigo/v6/core/rlwe"
	"github.com/tuneinsight/lattigo/v6/utils/buffer"
	"github.com/tuneinsight/lattigo/v6/utils/structs"
)

func params(t *testing.T) rlwe.Parameters {
	p, err := rlwe.NewParametersFromLiteral(rlwe.ParametersLiteral{LogN: 5, LogQ: []int{30, 30}, LogP: []int{30}, NTTFlag: true})
	if err != nil {
		t.Fatal(err)
	}
	return p
}

func TestShortRead(t *testing.T) {
	data := []byte{1, 2, 3, 4, 5, 6, 7, 8}
	c := make([]uint8, 8)
	n, err := buffer.ReadUint8Slice(bufio.NewReader(iotest.OneByteReader(bytes.NewReader(data))), c)
	t.Logf("ReadUint8Slice n=%d err=%v c=%v", n, err, c)
	v := structs.Vector[uint8]{9, 8, 7, 6, 5}
	var b bytes.Buffer
	v.WriteTo(&b)
	var w structs.Vector[uint8]
	n, err = w.ReadFrom(iotest.OneByteReader(bytes.NewReader(b.Bytes())))
	t.Logf("Vector[uint8] read n=%d err=%v w=%v (wrote %d)", n, err, w, b.Len())
}

func TestMetaDataChunked(t *testing.T) {
	p := params(t)
	pt := rlwe.NewPlaintext(p, 1)
	var b bytes.Buffer
	nw, err := pt.WriteTo(&b)
	t.Logf("wrote %d err=%v size=%d", nw, err, pt.BinarySize())
	pt2 := new(rlwe.Plaintext)
	n, err := pt2.ReadFrom(iotest.OneByteReader(bytes.NewReader(b.Bytes())))
	t.Logf("chunked read n=%d err=%v", n, err)
	pt3 := new(rlwe.Plaintext)
	n, err = pt3.ReadFrom(bytes.NewReader(b.Bytes()))
	t.Logf("whole read n=%d err=%v", n, err)
}

func TestReuseEvkSet(t *testing.T) {
	p := params(t)
	kg := rlwe.NewKeyGenerator(p)
	sk := kg.GenSecretKeyNew()
	full := rlwe.NewMemEvaluationKeySet(kg.GenRelinearizationKeyNew(sk), kg.GenGaloisKeyNew(5, sk))
	empty := rlwe.NewMemEvaluationKeySet(nil)
	var b bytes.Buffer
	nw, _ := empty.WriteTo(&b)
	t.Logf("empty set: wrote %d BinarySize %d buffered %d", nw, empty.BinarySize(), b.Len())
	recv := full
	n, err := recv.ReadFrom(bytes.NewReader(b.Bytes()))
	t.Logf("read into used receiver n=%d err=%v rlk nil? %v gks=%d BinarySize now %d", n, err, recv.RelinearizationKey == nil, len(recv.GaloisKeys), recv.BinarySize())
}

func TestReuseEvk(t *testing.T) {
	p := params(t)
	kg := rlwe.NewKeyGenerator(p)
	sk := kg.GenSecretKeyNew()
	comp := rlwe.NewEvaluationKey(p, rlwe.EvaluationKeyParameters{Compressed: true})
	kg.GenEvaluationKey(sk, sk, comp)
	plain := kg.GenEvaluationKeyNew(sk, sk)
	var b bytes.Buffer
	nw, _ := plain.WriteTo(&b)
	t.Logf("compressed? %v seed nil? %v; plain wrote %d size %d", comp.IsCompressed(), comp.Seed == nil, nw, plain.BinarySize())
	n, err := comp.ReadFrom(bytes.NewReader(b.Bytes()))
	var b2 bytes.Buffer
	nw2, err2 := comp.WriteTo(&b2)
	t.Logf("read plain into compressed receiver n=%d err=%v; now BinarySize=%d WriteTo=%d err=%v seed nil? %v", n, err, comp.BinarySize(), nw2, err2, comp.Seed == nil)
}

func TestReuseElement(t *testing.T) {
	p := params(t)
	ct := rlwe.NewCiphertext(p, 1, 1)
	nometa := rlwe.NewCiphertext(p, 1, 1)
	nometa.MetaData = nil
	var b bytes.Buffer
	nw, _ := nometa.WriteTo(&b)
	n, err := ct.ReadFrom(bytes.NewReader(b.Bytes()))
	t.Logf("wrote %d; read into receiver with metadata n=%d err=%v metadata nil? %v BinarySize now %d", nw, n, err, ct.MetaData == nil, ct.BinarySize())
}

func TestReuseMap(t *testing.T) {
	p := params(t)
	kg := rlwe.NewKeyGenerator(p)
	sk := kg.GenSecretKeyNew()
	m1 := structs.Map[uint64, rlwe.GaloisKey]{5: kg.GenGaloisKeyNew(5, sk)}
	m2 := structs.Map[uint64, rlwe.GaloisKey]{25: kg.GenGaloisKeyNew(25, sk)}
	var b bytes.Buffer
	nw, _ := m1.WriteTo(&b)
	n, err := m2.ReadFrom(bytes.NewReader(b.Bytes()))
	t.Logf("wrote %d size %d; read n=%d err=%v; receiver now has %d keys, BinarySize %d", nw, m1.BinarySize(), n, err, len(m2), m2.BinarySize())
}

func TestEmptyMapFlush(t *testing.T) {
	m := structs.Map[uint64, rlwe.GaloisKey]{}
	var b bytes.Buffer
	n, err := m.WriteTo(&b)
	t.Logf("empty map WriteTo(bytes.Buffer): n=%d err=%v, bytes in the stream: %d (BinarySize %d)", n, err, b.Len(), m.BinarySize())
	set := &rlwe.MemEvaluationKeySet{GaloisKeys: structs.Map[uint64, rlwe.GaloisKey]{}}
	var b2 bytes.Buffer
	n, err = set.WriteTo(&b2)
	t.Logf("set with empty map WriteTo(bytes.Buffer): n=%d err=%v, bytes in the stream: %d (BinarySize %d)", n, err, b2.Len(), set.BinarySize())
}

func TestCorruptLen(t *testing.T) {
	for _, sz := range []uint64{1 << 63, 1 << 40, ^uint64(0)} {
		func() {
			defer func() {
				if e := recover(); e != nil {
					t.Logf("size=%#x PANIC: %v", sz, e)
				}
			}()
			hdr := make([]byte, 8)
			binary.LittleEndian.PutUint64(hdr, sz)
			var v structs.Vector[uint64]
			n, err := v.ReadFrom(bytes.NewReader(hdr))
			t.Logf("size=%#x n=%d err=%v len=%d", sz, n, err, len(v))
		}()
	}
}
func TestExpandSize(t *testing.T) {
	p := params(t)
	kg := rlwe.NewKeyGenerator(p)
	sk := kg.GenSecretKeyNew()
	comp := rlwe.NewEvaluationKey(p, rlwe.EvaluationKeyParameters{Compressed: true})
	kg.GenEvaluationKey(sk, sk, comp)
	t.Logf("before Expand: compressed=%v size=%d", comp.IsCompressed(), comp.BinarySize())
	if err := comp.Expand(p, nil); err != nil {
		t.Fatal(err)
	}
	var b bytes.Buffer
	n, err := comp.WriteTo(&b)
	mb, _ := comp.MarshalBinary()
	t.Logf("after Expand: compressed=%v seed nil? %v BinarySize=%d WriteTo=%d (err %v) len(MarshalBinary)=%d", comp.IsCompressed(), comp.Seed == nil, comp.BinarySize(), n, err, len(mb))
}

package ckks

import (
	"math/cmplx"
	"testing"

	"github.com/tuneinsight/lattigo/v6/core/rlwe"
)

// Galois keys may be generated with fewer auxiliary primes than the parameters provide
// (rlwe.EvaluationKeyParameters.LevelP, a documented feature: it trades noise for key size and speed).
// Rotate works with such keys. With keys for exactly the advertised Galois elements, the hoisted rotation
// and the inner-sum family must then either work as well or report an error - not silently return garbage.
func TestDemoC11HoistedWithReducedLevelPKeys(t *testing.T) {

	params, err := NewParametersFromLiteral(ParametersLiteral{
		LogN:            4,
		LogQ:            []int{55, 45},
		LogP:            []int{56, 56},
		LogDefaultScale: 30,
	})
	if err != nil {
		t.Fatal(err)
	}

	kgen := rlwe.NewKeyGenerator(params)
	sk := kgen.GenSecretKeyNew()
	enc := rlwe.NewEncryptor(params, sk)
	dec := rlwe.NewDecryptor(params, sk)
	ecd := NewEncoder(params)

	slots := params.MaxSlots()
	v := make([]complex128, slots)
	for i := range v {
		v[i] = complex(float64(i+1), float64(-i))
	}
	pt := NewPlaintext(params, params.MaxLevel())
	if err := ecd.Encode(v, pt); err != nil {
		t.Fatal(err)
	}
	ct, err := enc.EncryptNew(pt)
	if err != nil {
		t.Fatal(err)
	}

	levelP := 0 // keys use only the first of the two auxiliary primes
	evkParams := rlwe.EvaluationKeyParameters{LevelP: &levelP}

	const batch, n, k = 2, 4, 3

	check := func(t *testing.T, out *rlwe.Ciphertext, want []complex128) {
		have := make([]complex128, slots)
		if err := ecd.Decode(dec.DecryptNew(out), have); err != nil {
			t.Fatal(err)
		}
		for i := range have {
			if cmplx.Abs(have[i]-want[i]) > 1e-3 {
				t.Fatalf("slot %d: have %v want %v", i, have[i], want[i])
			}
		}
	}

	wantRot := make([]complex128, slots)
	wantSum := make([]complex128, slots)
	for i := range v {
		wantRot[i] = v[(i+k)%slots]
		for r := 0; r < n; r++ {
			wantSum[i] += v[(i+r*batch)%slots]
		}
	}

	t.Run("Rotate", func(t *testing.T) { // sanity: passes
		evk := rlwe.NewMemEvaluationKeySet(nil, kgen.GenGaloisKeysNew([]uint64{params.GaloisElementForRotation(k)}, sk, evkParams)...)
		out, err := NewEvaluator(params, evk).RotateNew(ct, k)
		if err != nil {
			t.Fatal(err)
		}
		check(t, out, wantRot)
	})

	t.Run("RotateHoisted", func(t *testing.T) {
		evk := rlwe.NewMemEvaluationKeySet(nil, kgen.GenGaloisKeysNew([]uint64{params.GaloisElementForRotation(k)}, sk, evkParams)...)
		out, err := NewEvaluator(params, evk).RotateHoistedNew(ct, []int{k})
		if err != nil {
			t.Logf("returned an error (acceptable): %v", err)
			return
		}
		check(t, out[k], wantRot)
	})

	t.Run("InnerSum", func(t *testing.T) {
		evk := rlwe.NewMemEvaluationKeySet(nil, kgen.GenGaloisKeysNew(params.GaloisElementsForInnerSum(batch, n), sk, evkParams)...)
		out := NewCiphertext(params, 1, ct.Level())
		if err := NewEvaluator(params, evk).InnerSum(ct, batch, n, out); err != nil {
			t.Logf("returned an error (acceptable): %v", err)
			return
		}
		check(t, out, wantSum)
	})
}

package ring

import (
	"math/big"
	"testing"
)

// Basis extension from a basis Q with 33 primes (40-bit primes, N=16) to a basis P.
// The value 5 (and -5) is far below Q/4, so ModUpQtoP must return exactly 5 mod p_j.
func TestDemoC02ModUpMoreThan32Moduli(t *testing.T) {

	N := 16

	gQ := NewNTTFriendlyPrimesGenerator(40, uint64(2*N))
	Q, err := gQ.NextAlternatingPrimes(33)
	if err != nil {
		t.Fatal(err)
	}
	gP := NewNTTFriendlyPrimesGenerator(50, uint64(2*N))
	P, err := gP.NextAlternatingPrimes(2)
	if err != nil {
		t.Fatal(err)
	}

	ringQ, err := NewRing(N, Q)
	if err != nil {
		t.Fatal(err)
	}
	ringP, err := NewRing(N, P)
	if err != nil {
		t.Fatal(err)
	}

	be := NewBasisExtender(ringQ, ringP)

	xs := make([]*big.Int, N)
	for j := range xs {
		xs[j] = big.NewInt(int64(5 - 10*(j&1))) // 5, -5, 5, -5, ...
	}

	for _, levelQ := range []int{31, 32} { // 32 and 33 primes

		rQ := ringQ.AtLevel(levelQ)
		polQ := rQ.NewPoly()
		rQ.SetCoefficientsBigint(xs, polQ)
		polP := ringP.NewPoly()

		func() {
			defer func() {
				if r := recover(); r != nil {
					t.Errorf("ModUpQtoP with %d primes in Q panicked: %v", levelQ+1, r)
				}
			}()
			be.ModUpQtoP(levelQ, ringP.MaxLevel(), polQ, polP)
			for i, p := range P {
				for j := range xs {
					want := new(big.Int).Mod(xs[j], new(big.Int).SetUint64(p)).Uint64()
					if polP.Coeffs[i][j]%p != want {
						t.Errorf("ModUpQtoP with %d primes in Q: coeff %d mod p_%d = %d, want %d", levelQ+1, j, i, polP.Coeffs[i][j]%p, want)
						return
					}
				}
			}
		}()
	}
}

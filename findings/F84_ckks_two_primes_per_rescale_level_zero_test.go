package ckks

import (
	"testing"

	"github.com/tuneinsight/lattigo/v6/core/rlwe"
)

// Parameters with a default scale > 2^64 (two primes consumed per rescale): multiplying a level-0
// ciphertext by a non-integer scalar or by a vector indexes ringQ.SubRings[level-1] = SubRings[-1]
// and panics with "index out of range [-1]" instead of returning an error (as Rescale does with
// "input Ciphertext level is too low").
func TestC06Demo5Prec128LevelZeroPanics(t *testing.T) {
	p, err := NewParametersFromLiteral(ParametersLiteral{LogN: 6, LogQ: []int{55, 55, 45, 45}, LogP: []int{60, 60}, LogDefaultScale: 90})
	if err != nil {
		t.Fatal(err)
	}
	if p.LevelsConsumedPerRescaling() != 2 {
		t.Skip("parameters are not in the two-primes-per-rescale mode")
	}
	sk := rlwe.NewKeyGenerator(p).GenSecretKeyNew()
	ecd := NewEncoder(p)
	eval := NewEvaluator(p, nil)
	v := []complex128{0.5, 0.25}
	mk := func() *rlwe.Ciphertext {
		pt := NewPlaintext(p, 0)
		pt.Scale = rlwe.NewScale(1 << 20)
		if err := ecd.Encode(v, pt); err != nil {
			t.Fatal(err)
		}
		ct, err := rlwe.NewEncryptor(p, sk).EncryptNew(pt)
		if err != nil {
			t.Fatal(err)
		}
		return ct
	}
	try := func(name string, f func() error) {
		defer func() {
			if r := recover(); r != nil {
				t.Errorf("%s at level 0 panics: %v", name, r)
			}
		}()
		_ = f() // an error is acceptable, a panic is not
	}
	try("Mul(float64)", func() error { ct := mk(); return eval.Mul(ct, 0.5, ct) })
	try("Mul([]complex128)", func() error { ct := mk(); return eval.Mul(ct, v, ct) })
	try("MulThenAdd(float64)", func() error { ct, out := mk(), mk(); return eval.MulThenAdd(ct, 0.5, out) })
	try("MulThenAdd([]complex128)", func() error { ct, out := mk(), mk(); return eval.MulThenAdd(ct, v, out) })
}

// place in: multiparty/mpckks
package mpckks

import (
	"testing"

	"github.com/stretchr/testify/require"

	"github.com/tuneinsight/lattigo/v6/core/rlwe"
	"github.com/tuneinsight/lattigo/v6/multiparty"
	"github.com/tuneinsight/lattigo/v6/ring"
	"github.com/tuneinsight/lattigo/v6/schemes/ckks"
	"github.com/tuneinsight/lattigo/v6/utils"
)

// TestDemoMaskedLinearTransformationProtocolCopies demonstrates that
// MaskedLinearTransformationProtocol.ShallowCopy and MaskedLinearTransformationProtocol.WithParams
// both drop the field `noise`, which WithParams needs to instantiate the new ShareToEncProtocol:
//
//   - orig.WithParams(paramsOut)                         works
//   - orig.ShallowCopy().WithParams(paramsOut)           panics
//   - orig.WithParams(paramsOut).WithParams(paramsOut)   panics
func TestDemoMaskedLinearTransformationProtocolCopies(t *testing.T) {

	paramsIn, err := ckks.NewParametersFromLiteral(testInsecurePrec45)
	require.NoError(t, err)

	// Output parameters: same as the "N->2N" sub-tests of testRefresh.
	paramsOut, err := ckks.NewParametersFromLiteral(ckks.ParametersLiteral{
		LogN:            paramsIn.LogN() + 1,
		LogQ:            []int{54, 54, 54, 49, 49, 49, 49, 49, 49},
		LogP:            []int{52, 52},
		RingType:        paramsIn.RingType(),
		LogDefaultScale: paramsIn.LogDefaultScale(),
	})
	require.NoError(t, err)

	const NParties = 3

	tc, err := genTestParams(paramsIn, NParties)
	require.NoError(t, err)

	minLevel, logBound, ok := GetMinimumLevelForRefresh(128, paramsIn.DefaultScale(), NParties, paramsIn.Q())
	require.True(t, ok)
	require.Less(t, minLevel+1, paramsIn.MaxLevel()+1)

	// Non-default smudging noise.
	noise := ring.DiscreteGaussian{Sigma: 2 * rlwe.DefaultNoise, Bound: 12 * rlwe.DefaultNoise}

	// The protocol is first instantiated for paramsIn -> paramsIn ...
	orig, err := NewMaskedLinearTransformationProtocol(paramsIn, paramsIn, logBound, noise)
	require.NoError(t, err)

	// ... and then re-targeted to paramsOut.
	t.Run("Original.WithParams", func(t *testing.T) {
		require.NotPanics(t, func() { orig.WithParams(paramsOut) })
	})

	t.Run("ShallowCopy.noise", func(t *testing.T) {
		require.Equal(t, orig.noise, orig.ShallowCopy().noise)
	})

	t.Run("ShallowCopy.WithParams", func(t *testing.T) {
		cpy := orig.ShallowCopy()
		require.NotPanics(t, func() { cpy.WithParams(paramsOut) })
	})

	t.Run("WithParams.noise", func(t *testing.T) {
		require.Equal(t, orig.noise, orig.WithParams(paramsOut).noise)
	})

	t.Run("WithParams.WithParams", func(t *testing.T) {
		w := orig.WithParams(paramsOut)
		require.NotPanics(t, func() { w.WithParams(paramsIn) })
	})

	t.Run("WithParams.encoder", func(t *testing.T) {
		// The encoder must be an encoder for the *output* parameters (see NewMaskedLinearTransformationProtocol).
		w := orig.WithParams(paramsOut)
		require.NotNil(t, w.encoder)
		require.Equal(t, paramsOut.N(), w.encoder.GetParameters().N())
		require.NotPanics(t, func() { w.ShallowCopy() })
	})

	// Full collective refresh paramsIn -> paramsOut where every party derives its protocol instance as
	// orig.ShallowCopy().WithParams(paramsOut).
	t.Run("Functional/ShallowCopy.WithParams", func(t *testing.T) {

		kgenOut := rlwe.NewKeyGenerator(paramsOut)
		skOut := make([]*rlwe.SecretKey, NParties)
		skIdealOut := rlwe.NewSecretKey(paramsOut)
		for i := range skOut {
			skOut[i] = kgenOut.GenSecretKeyNew()
			paramsOut.RingQ().Add(skIdealOut.Value.Q, skOut[i].Value.Q, skIdealOut.Value.Q)
		}

		coeffs, _, ciphertext := newTestVectors(tc, tc.encryptorPk0, -1, 1, utils.Min(paramsIn.LogMaxSlots(), paramsOut.LogMaxSlots()))
		tc.evaluator.DropLevel(ciphertext, ciphertext.Level()-minLevel-1)

		levelIn, levelOut := minLevel, paramsOut.MaxLevel()

		protos := make([]MaskedLinearTransformationProtocol, NParties)
		shares := make([]multiparty.RefreshShare, NParties)

		require.NotPanics(t, func() {
			for i := range protos {
				protos[i] = orig.ShallowCopy().WithParams(paramsOut)
				shares[i] = protos[i].AllocateShare(levelIn, levelOut)
			}
		})

		if t.Failed() {
			t.FailNow()
		}

		crp := protos[0].SampleCRP(levelOut, tc.crs)

		for i := range protos {
			require.NoError(t, protos[i].GenShare(tc.sk0Shards[i], skOut[i], logBound, ciphertext, crp, nil, &shares[i]))
			if i > 0 {
				require.NoError(t, protos[0].AggregateShares(&shares[i], &shares[0], &shares[0]))
			}
		}

		require.NoError(t, protos[0].Transform(ciphertext, nil, crp, shares[0], ciphertext))

		ckks.VerifyTestVectors(paramsOut, ckks.NewEncoder(paramsOut), rlwe.NewDecryptor(paramsOut, skIdealOut), coeffs, ciphertext, paramsOut.LogDefaultScale(), 0, *printPrecisionStats, t)
	})
}

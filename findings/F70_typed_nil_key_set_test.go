package bgv

import (
	"testing"

	"github.com/tuneinsight/lattigo/v6/core/rlwe"
)

// A missing relinearization key is a documented failure condition of MulRelin & co. ("will return an error
// if the evaluator was not created with an relinearization key"). This must also hold when the evaluator
// was created with a nil *rlwe.MemEvaluationKeySet (a nil pointer stored in the rlwe.EvaluationKeySet interface,
// which rlwe.NewEvaluator explicitly anticipates through utils.IsNil(evk)).
func TestC05MissingKeyTypedNil(t *testing.T) {

	params, err := NewParametersFromLiteral(ParametersLiteral{
		LogN:             5,
		Q:                []uint64{0x10000000006e0001, 0xfffffffff840001},
		P:                []uint64{0x1fffffffffe00001},
		PlaintextModulus: 65537,
	})
	if err != nil {
		t.Fatal(err)
	}

	kgen := rlwe.NewKeyGenerator(params)
	sk := kgen.GenSecretKeyNew()
	enc := rlwe.NewEncryptor(params, sk)

	ct0 := enc.EncryptZeroNew(params.MaxLevel())
	ct0.IsBatched = true
	ct1 := ct0.CopyNew()

	var evk *rlwe.MemEvaluationKeySet // no keys were generated

	for _, scaleInvariant := range []bool{false, true} {

		eval := NewEvaluator(params, evk, scaleInvariant)

		var pan interface{}
		func() {
			defer func() { pan = recover() }()
			_, err = eval.MulRelinNew(ct0, ct1)
		}()

		if pan != nil {
			t.Errorf("scaleInvariant=%v: MulRelinNew without relinearization key panics instead of returning an error: %v", scaleInvariant, pan)
		} else if err == nil {
			t.Errorf("scaleInvariant=%v: MulRelinNew without relinearization key returned no error", scaleInvariant)
		}

		ct2, err := eval.MulNew(ct0, ct1)
		if err != nil {
			t.Fatal(err)
		}

		func() {
			defer func() { pan = recover() }()
			_, err = eval.RelinearizeNew(ct2)
		}()

		if pan != nil {
			t.Errorf("scaleInvariant=%v: RelinearizeNew without relinearization key panics instead of returning an error: %v", scaleInvariant, pan)
		} else if err == nil {
			t.Errorf("scaleInvariant=%v: RelinearizeNew without relinearization key returned no error", scaleInvariant)
		}
	}
}

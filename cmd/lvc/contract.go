package main

// Contract files: comment-only Go files named zz_contracts_verif.go (build tag verif)
// inside the package they specify.  Every contract line starts with "//@".
//
//   //@ func MRed                      (or: func SubRing.Add for methods)
//   //@   trusted                      (assumed contract: body not verified; listed in evidence)
//   //@   let t = <expr>               (abbreviation usable in later clauses)
//   //@   requires <expr>
//   //@   ensures <expr> [by <hint>; <hint> ...]
//   //@   assigns p3[0:len(p1)], ...
//   //@   lemma <hint>                 (available to every exit obligation)
//   //@   loop <n> invariant <expr> [by ...]
//   //@   loop <n> decreases <expr>
//   //@   loop <n> lemma <hint>
//   //@   veckernel out=p3 in=p1,p2    (sugar, see expandVecKernel)
//   //@   lanepre <expr over k>        lane <expr over k>    meaning <expr over k> [by ...]
//
// Expressions use Go expression syntax and are parsed with go/parser.  Arithmetic in
// contracts is over mathematical integers.  Special forms: old(e), forall(k, lo, hi, body),
// ite(c,a,b), implies(a,b), cong(a,b,q), len, cap, same(s,t), disjoint(s,t), W (= 2^64).

import (
	"fmt"
	"go/ast"
	"go/parser"
	"go/token"
	"regexp"
	"strconv"
	"strings"
)

type Clause struct {
	Derived bool // established by a meta-step (lane + meaning lemma), not re-proved at return
	Optional bool // invariant?: skipped when it mentions an unknown identifier
	Text string
	Expr ast.Expr
	By   []ast.Expr
	Line string // file:line of the contract line
}

type LoopSpec struct {
	Inv       []*Clause
	Decreases *Clause
	Lemmas    []ast.Expr
	Assigns   []ast.Expr
	Post      []*Clause // proved in the state at the exit of the loop, then known after it
}

type LetDef struct {
	Name string
	Expr ast.Expr
}

type Contract struct {
	Pkg      string
	Func     string // Name or Recv.Name
	File     string
	Trusted  bool
	Pure     bool // result is a function of the scalar arguments (set by the engine)
	Lets     []LetDef
	Requires []*Clause
	Ensures  []*Clause
	Assigns  []ast.Expr
	HasAssigns bool
	Lemmas   []ast.Expr
	Cuts     []*Clause // intermediate facts proved at exit, in order, then available to the ensures
	Loops    map[int]*LoopSpec
	// rowloop: loops over the RNS rows verified for one generic row (see execRowLoop)
	RowLoops map[int]*RowLoopSpec
	// veckernel sugar
	Vec *VecSpec
	// wraps callee(args): the contract is the callee's contract under the substitution params := args
	Wrap *WrapSpec
	// engine F / B annotations are kept raw
	Raw map[string][]string
	Props []string // property ids this contract serves
	curRow *RowLoopSpec
}

type RowLoopSpec struct {
	Var    string
	Lo, Hi ast.Expr
	Out    []ast.Expr // output polynomials (their row Var is what the iteration may write)
	Pre    []*Clause
	Post   []*Clause
	Assigns []ast.Expr // loop-invariant scratch regions every iteration may write (e.g. a shared buffer row)
	Cuts   []*Clause // proved in order at the end of the iteration, then assumed by the later cuts / posts
	Calls  []*WrapSpec // rowcall: the iteration must establish the callee's contract on these arguments
	Keep   bool        // rowkeep: the per-row postconditions are known (for every row of the range) to the code after the loop
	Line   string
}

type WrapSpec struct {
	Callee string
	Args   []ast.Expr
}

type VecSpec struct {
	Idx     string
	Out     string
	In      []string
	LanePre []*Clause
	Lane    []*Clause
	Meaning []*Clause
}

var byRe = regexp.MustCompile(`\s+by\s+`)

func parseClause(text, line string) (*Clause, error) {
	c := &Clause{Text: text, Line: line}
	body := text
	if loc := byRe.FindAllStringIndex(text, -1); len(loc) > 0 {
		l := loc[len(loc)-1]
		body = text[:l[0]]
		for _, h := range splitTop(text[l[1]:], ';') {
			h = strings.TrimSpace(h)
			if h == "" {
				continue
			}
			e, err := parser.ParseExpr(h)
			if err != nil {
				return nil, fmt.Errorf("%s: hint %q: %v", line, h, err)
			}
			c.By = append(c.By, e)
		}
	}
	e, err := parser.ParseExpr(body)
	if err != nil {
		return nil, fmt.Errorf("%s: %q: %v", line, body, err)
	}
	c.Expr = e
	c.Text = strings.TrimSpace(body)
	return c, nil
}

// splitTop splits on sep outside parentheses/brackets.
func splitTop(s string, sep byte) []string {
	var out []string
	depth, last := 0, 0
	for i := 0; i < len(s); i++ {
		switch s[i] {
		case '(', '[', '{':
			depth++
		case ')', ']', '}':
			depth--
		default:
			if s[i] == sep && depth == 0 {
				out = append(out, s[last:i])
				last = i + 1
			}
		}
	}
	out = append(out, s[last:])
	return out
}

func parseExprList(s, line string) ([]ast.Expr, error) {
	var out []ast.Expr
	for _, p := range splitTop(s, ',') {
		p = strings.TrimSpace(p)
		if p == "" {
			continue
		}
		e, err := parser.ParseExpr(p)
		if err != nil {
			return nil, fmt.Errorf("%s: %q: %v", line, p, err)
		}
		out = append(out, e)
	}
	return out, nil
}

// ParseContracts extracts contracts from the comment groups of one file.
func ParseContracts(fset *token.FileSet, f *ast.File, pkgPath string) ([]*Contract, error) {
	var out []*Contract
	var cur *Contract
	var pending string
	var pendingLine string
	flush := func() error {
		if pending == "" {
			return nil
		}
		text, line := pending, pendingLine
		pending = ""
		return handleLine(&cur, &out, pkgPath, text, line)
	}
	for _, cg := range f.Comments {
		for _, c := range cg.List {
			if !strings.HasPrefix(c.Text, "//@") {
				continue
			}
			pos := fset.Position(c.Pos())
			line := fmt.Sprintf("%s:%d", pos.Filename, pos.Line)
			text := strings.TrimSpace(strings.TrimPrefix(c.Text, "//@"))
			if text == "" {
				continue
			}
			if strings.HasPrefix(text, "|") { // continuation line
				pending += " " + strings.TrimSpace(text[1:])
				continue
			}
			if err := flush(); err != nil {
				return nil, err
			}
			pending, pendingLine = text, line
		}
	}
	if err := flush(); err != nil {
		return nil, err
	}
	return out, nil
}

func handleLine(cur **Contract, out *[]*Contract, pkgPath, text, line string) error {
	kw, rest := text, ""
	if i := strings.IndexAny(text, " \t"); i >= 0 {
		kw, rest = text[:i], strings.TrimSpace(text[i+1:])
	}
	if kw == "spec" || kw == "ghost" || kw == "ghostvar" || kw == "frame" || kw == "owned" {
		return nil
	}
	if kw == "copy" || kw == "lanes8" || kw == "readonly" || kw == "noescape" || kw == "fieldorder" || kw == "decodes" || kw == "storesvia" || kw == "unrolled" {
		*cur = nil
		return nil
	}
	if *cur == nil && (kw == "shared" || kw == "fresh" || kw == "copied" || kw == "rebound" || kw == "derived" || kw == "zero" || kw == "property") {
		return nil
	}
	if kw == "func" || kw == "afunc" {
		name := rest
		if i := strings.IndexAny(name, " ("); i > 0 {
			name = name[:i]
		}
		// Name#variant: several abstract contracts of one function (one per dynamic type of an interface argument)
		c := &Contract{Pkg: pkgPath, Func: name, File: line, Loops: map[int]*LoopSpec{}, Raw: map[string][]string{}}
		if kw == "afunc" {
			c.Raw["abstract"] = []string{""}
		}
		*out = append(*out, c)
		*cur = c
		return nil
	}
	c := *cur
	if c == nil {
		return fmt.Errorf("%s: clause before any func", line)
	}
	switch kw {
	case "trusted":
		c.Trusted = true
		c.Raw["trusted"] = append(c.Raw["trusted"], rest)
	case "property":
		c.Props = append(c.Props, strings.Fields(rest)...)
	case "let":
		i := strings.Index(rest, "=")
		if i < 0 {
			return fmt.Errorf("%s: let without =", line)
		}
		e, err := parser.ParseExpr(strings.TrimSpace(rest[i+1:]))
		if err != nil {
			return fmt.Errorf("%s: %v", line, err)
		}
		c.Lets = append(c.Lets, LetDef{strings.TrimSpace(rest[:i]), e})
	case "requires", "ensures":
		cl, err := parseClause(rest, line)
		if err != nil {
			return err
		}
		if kw == "requires" {
			c.Requires = append(c.Requires, cl)
		} else {
			c.Ensures = append(c.Ensures, cl)
		}
	case "cut":
		cl, err := parseClause(rest, line)
		if err != nil {
			return err
		}
		c.Cuts = append(c.Cuts, cl)
	case "assigns":
		c.HasAssigns = true
		es, err := parseExprList(rest, line)
		if err != nil {
			return err
		}
		c.Assigns = append(c.Assigns, es...)
	case "lemma":
		for _, h := range splitTop(rest, ';') {
			h = strings.TrimSpace(h)
			if h == "" {
				continue
			}
			e, err := parser.ParseExpr(h)
			if err != nil {
				return fmt.Errorf("%s: %v", line, err)
			}
			c.Lemmas = append(c.Lemmas, e)
		}
	case "loop":
		f := strings.Fields(rest)
		if len(f) < 2 {
			return fmt.Errorf("%s: bad loop clause", line)
		}
		n, err := strconv.Atoi(f[0])
		if err != nil {
			return fmt.Errorf("%s: bad loop ordinal", line)
		}
		ls := c.Loops[n]
		if ls == nil {
			ls = &LoopSpec{}
			c.Loops[n] = ls
		}
		body := strings.TrimSpace(rest[strings.Index(rest, f[1])+len(f[1]):])
		switch f[1] {
		case "invariant", "invariant?":
			cl, err := parseClause(body, line)
			if err != nil {
				return err
			}
			// invariant?: an auxiliary invariant about a local that a refactoring may remove: it is
			// skipped (neither assumed nor owed) when it mentions an identifier that does not exist
			cl.Optional = f[1] == "invariant?"
			ls.Inv = append(ls.Inv, cl)
		case "decreases":
			cl, err := parseClause(body, line)
			if err != nil {
				return err
			}
			ls.Decreases = cl
		case "post":
			cl, err := parseClause(body, line)
			if err != nil {
				return err
			}
			ls.Post = append(ls.Post, cl)
		case "lemma":
			for _, h := range splitTop(body, ';') {
				h = strings.TrimSpace(h)
				if h == "" {
					continue
				}
				e, err := parser.ParseExpr(h)
				if err != nil {
					return fmt.Errorf("%s: %v", line, err)
				}
				ls.Lemmas = append(ls.Lemmas, e)
			}
		case "assigns":
			es, err := parseExprList(body, line)
			if err != nil {
				return err
			}
			ls.Assigns = append(ls.Assigns, es...)
		default:
			return fmt.Errorf("%s: unknown loop clause %q", line, f[1])
		}
	case "rowloop":
		// rowloop <ordinal> <var> <lo> <hi> out=<poly>,<poly>
		f := strings.Fields(rest)
		if len(f) < 5 {
			return fmt.Errorf("%s: rowloop expects: <ordinal> <var> <lo> <hi> out=<polys>", line)
		}
		n, err := strconv.Atoi(f[0])
		if err != nil {
			return fmt.Errorf("%s: bad rowloop ordinal", line)
		}
		rl := &RowLoopSpec{Var: f[1], Line: line}
		if rl.Lo, err = parser.ParseExpr(f[2]); err != nil {
			return fmt.Errorf("%s: %v", line, err)
		}
		if rl.Hi, err = parser.ParseExpr(f[3]); err != nil {
			return fmt.Errorf("%s: %v", line, err)
		}
		for _, a := range f[4:] {
			if strings.HasPrefix(a, "out=") {
				es, err := parseExprList(strings.TrimPrefix(a, "out="), line)
				if err != nil {
					return err
				}
				rl.Out = es
			}
		}
		if c.RowLoops == nil {
			c.RowLoops = map[int]*RowLoopSpec{}
		}
		c.RowLoops[n] = rl
		c.curRow = rl
	case "rowassigns":
		if c.curRow == nil {
			return fmt.Errorf("%s: rowassigns without rowloop", line)
		}
		es, err := parseExprList(rest, line)
		if err != nil {
			return err
		}
		c.curRow.Assigns = append(c.curRow.Assigns, es...)
	case "rowkeep":
		if c.curRow == nil {
			return fmt.Errorf("%s: rowkeep without rowloop", line)
		}
		c.curRow.Keep = true
	case "rowcut":
		if c.curRow == nil {
			return fmt.Errorf("%s: rowcut without rowloop", line)
		}
		cl, err := parseClause(rest, line)
		if err != nil {
			return err
		}
		c.curRow.Cuts = append(c.curRow.Cuts, cl)
	case "rowpre", "rowpost":
		if c.curRow == nil {
			return fmt.Errorf("%s: %s without rowloop", line, kw)
		}
		cl, err := parseClause(rest, line)
		if err != nil {
			return err
		}
		if kw == "rowpre" {
			c.curRow.Pre = append(c.curRow.Pre, cl)
		} else {
			c.curRow.Post = append(c.curRow.Post, cl)
		}
	case "rowcall":
		if c.curRow == nil {
			return fmt.Errorf("%s: rowcall without rowloop", line)
		}
		e, err := parser.ParseExpr(rest)
		if err != nil {
			return fmt.Errorf("%s: %v", line, err)
		}
		call, ok := e.(*ast.CallExpr)
		if !ok {
			return fmt.Errorf("%s: rowcall expects callee(args)", line)
		}
		c.curRow.Calls = append(c.curRow.Calls, &WrapSpec{Callee: exprStringAST(call.Fun), Args: call.Args})
	case "wraps":
		e, err := parser.ParseExpr(rest)
		if err != nil {
			return fmt.Errorf("%s: %v", line, err)
		}
		call, ok := e.(*ast.CallExpr)
		if !ok {
			return fmt.Errorf("%s: wraps expects callee(args)", line)
		}
		c.Wrap = &WrapSpec{Callee: exprStringAST(call.Fun), Args: call.Args}
	case "veckernel":
		v := &VecSpec{}
		for _, kv := range strings.Fields(rest) {
			p := strings.SplitN(kv, "=", 2)
			if len(p) != 2 {
				return fmt.Errorf("%s: bad veckernel arg %q", line, kv)
			}
			switch p[0] {
			case "out":
				v.Out = p[1]
			case "in":
				if p[1] != "" {
					v.In = strings.Split(p[1], ",")
				}
			case "idx":
				v.Idx = p[1]
			}
		}
		c.Vec = v
	case "lanepre", "lane", "meaning":
		if c.Vec == nil {
			return fmt.Errorf("%s: %s without veckernel", line, kw)
		}
		cl, err := parseClause(rest, line)
		if err != nil {
			return err
		}
		switch kw {
		case "lanepre":
			c.Vec.LanePre = append(c.Vec.LanePre, cl)
		case "lane":
			c.Vec.Lane = append(c.Vec.Lane, cl)
		case "meaning":
			c.Vec.Meaning = append(c.Vec.Meaning, cl)
		}
	default:
		// engine-specific annotations kept verbatim (frame/ownership/abstract contracts)
		c.Raw[kw] = append(c.Raw[kw], rest)
	}
	return nil
}

func exprStringAST(e ast.Expr) string {
	switch x := e.(type) {
	case *ast.Ident:
		return x.Name
	case *ast.SelectorExpr:
		return exprStringAST(x.X) + "." + x.Sel.Name
	}
	return "?"
}

package main

// Structural contract "the operand is not modified" (property C09) for parameters that carry a
// big number behind an interface:
//
//	//@ readonly <function> <param>
//	//@   property C09
//
// Inside the function the parameter, the variable a type switch binds it to (`switch op1 :=
// op1.(type)`) and plain copies of those are aliases of the caller's object.  The contract: no alias
// whose type is a pointer to a type of math/big or utils/bignum is the RECEIVER of a mutating
// method.  By the convention of math/big (kept by bignum) a method mutates its receiver exactly when
// its first result has the receiver's type (`func (z *Int) Mul(x, y *Int) *Int`); readers (Cmp,
// Sign, Uint64, Float64, Int(z) ...) return something else.  Decided on the typed AST.

import (
	"fmt"
	"go/ast"
	"go/types"
	"strings"
)

type ReadonlySpec struct {
	Pkg, Target, Param, Line string
	Props                    []string
}

func parseReadonlyBlocks(pkgPath string, lines, where []string) []*ReadonlySpec {
	var out []*ReadonlySpec
	var cur *ReadonlySpec
	for i, l := range lines {
		f := strings.Fields(l)
		if len(f) == 0 {
			cur = nil
			continue
		}
		switch f[0] {
		case "readonly":
			if len(f) < 3 {
				continue
			}
			cur = &ReadonlySpec{Pkg: pkgPath, Target: f[1], Param: f[2], Line: where[i]}
			out = append(out, cur)
		case "property":
			if cur != nil {
				cur.Props = append(cur.Props, f[1:]...)
			}
		default:
			cur = nil
		}
	}
	return out
}

func readonlyObligations(prog *Program, id string) []simpleObligation {
	var out []simpleObligation
	for _, rs := range prog.Readonly {
		for _, p := range rs.Props {
			if p == id {
				out = append(out, checkReadonly(prog, rs)...)
			}
		}
	}
	return out
}

func bigNumberPointer(t types.Type) bool {
	p, ok := t.(*types.Pointer)
	if !ok {
		return false
	}
	n, ok := p.Elem().(*types.Named)
	if !ok || n.Obj().Pkg() == nil {
		return false
	}
	path := n.Obj().Pkg().Path()
	return path == "math/big" || strings.HasSuffix(path, "/utils/bignum")
}

func checkReadonly(prog *Program, rs *ReadonlySpec) []simpleObligation {
	key := rs.Pkg + "." + rs.Target
	short := shortPkg(key)
	name := "readonly/" + short + "/" + rs.Param
	fi := prog.Funcs[key]
	if fi == nil || fi.Decl.Body == nil {
		return []simpleObligation{{Name: name + "/target", Func: short, File: rs.Line, OK: false, Detail: "function not found (renamed or removed?)"}}
	}
	info := fi.Pkg.TypesInfo
	var param types.Object
	for _, fl := range fi.Decl.Type.Params.List {
		for _, n := range fl.Names {
			if n.Name == rs.Param {
				param = info.Defs[n]
			}
		}
	}
	if param == nil {
		return []simpleObligation{{Name: name + "/target", Func: short, File: rs.Line, OK: false, Detail: "no parameter " + rs.Param}}
	}
	aliases := map[types.Object]bool{param: true}
	isAlias := func(e ast.Expr) bool {
		e = stripParens(e)
		if id, ok := e.(*ast.Ident); ok {
			if o := info.Uses[id]; o != nil && aliases[o] {
				return true
			}
		}
		if ta, ok := e.(*ast.TypeAssertExpr); ok {
			if id, ok := stripParens(ta.X).(*ast.Ident); ok {
				if o := info.Uses[id]; o != nil && aliases[o] {
					return true
				}
			}
		}
		return false
	}
	// fixpoint over alias-introducing constructs
	for changed := true; changed; {
		changed = false
		ast.Inspect(fi.Decl.Body, func(n ast.Node) bool {
			switch x := n.(type) {
			case *ast.TypeSwitchStmt:
				// switch v := p.(type): the implicit object of every clause aliases p
				var subject ast.Expr
				var bound bool
				switch a := x.Assign.(type) {
				case *ast.AssignStmt:
					if len(a.Rhs) == 1 {
						subject, bound = a.Rhs[0], true
					}
				case *ast.ExprStmt:
					subject = a.X
				}
				if subject != nil && bound && isAlias(subject) {
					for _, cl := range x.Body.List {
						if o := info.Implicits[cl]; o != nil && !aliases[o] {
							aliases[o] = true
							changed = true
						}
					}
				}
			case *ast.AssignStmt:
				for i, r := range x.Rhs {
					if i < len(x.Lhs) && isAlias(r) {
						if id, ok := x.Lhs[i].(*ast.Ident); ok {
							o := info.Defs[id]
							if o == nil {
								o = info.Uses[id]
							}
							if o != nil && !aliases[o] {
								aliases[o] = true
								changed = true
							}
						}
					}
				}
			}
			return true
		})
	}
	var out []simpleObligation
	calls := 0
	base := prog.Fset.Position(fi.Decl.Pos()).Line
	ast.Inspect(fi.Decl.Body, func(n ast.Node) bool {
		call, ok := n.(*ast.CallExpr)
		if !ok {
			return true
		}
		sel, ok := call.Fun.(*ast.SelectorExpr)
		if !ok {
			return true
		}
		id, ok := stripParens(sel.X).(*ast.Ident)
		if !ok {
			return true
		}
		o := info.Uses[id]
		if o == nil || !aliases[o] || !bigNumberPointer(o.Type()) {
			return true
		}
		m, ok := info.Uses[sel.Sel].(*types.Func)
		if !ok {
			return true
		}
		calls++
		sig := m.Type().(*types.Signature)
		mutates := sig.Results().Len() > 0 && sig.Recv() != nil && types.Identical(sig.Results().At(0).Type(), sig.Recv().Type())
		at := prog.Fset.Position(call.Pos())
		so := simpleObligation{Name: fmt.Sprintf("%s:%s.%s@+%d", name, id.Name, m.Name(), at.Line-base), Func: short, File: fmt.Sprintf("%s:%d", at.Filename, at.Line), OK: !mutates}
		if mutates {
			so.Detail = fmt.Sprintf("`%s.%s(...)` writes into the caller's %s (the operand %s, reached through the type switch): an input is modified", id.Name, m.Name(), types.TypeString(o.Type(), func(p *types.Package) string { return p.Name() }), rs.Param)
		}
		out = append(out, so)
		return true
	})
	// the contract itself is an obligation even when no big-number method is called on the operand
	out = append(out, simpleObligation{Name: name + "/aliases", Func: short, File: rs.Line, OK: true, Detail: fmt.Sprintf("%d aliases, %d big-number method calls on them", len(aliases), calls)})
	return out
}

package lintrans

import "testing"

// Diagonals.At is documented as: "At returns the i-th non-zero diagonal. Method accepts negative values
// with the equivalency -i = n - i." (and the package documentation states that negative diagonal indexes
// are interpreted modulo the matrix dimension). Hence, for a matrix of dimension n, At(-i, n) must find
// the diagonal stored under n-i, exactly like At(n-i, n) finds the one stored under -i.
func TestDemoC11DiagonalsAtNegativeIndex(t *testing.T) {

	const n = 8

	// stored under the negative key, looked up with the positive one: works
	m := Diagonals[uint64]{-1: {1, 2, 3, 4, 5, 6, 7, 8}}
	if v, err := m.At(n-1, n); err != nil || len(v) != n {
		t.Fatalf("At(%d, %d) with key -1 stored: %v", n-1, n, err)
	}

	// stored under the positive key, looked up with the negative one: must work as well
	m = Diagonals[uint64]{n - 1: {1, 2, 3, 4, 5, 6, 7, 8}}
	for i := 1; i < n; i++ {
		m = Diagonals[uint64]{n - i: {1, 2, 3, 4, 5, 6, 7, 8}}
		v, err := m.At(-i, n)
		if err != nil {
			t.Errorf("At(%d, %d) with key %d stored: %v", -i, n, n-i, err)
			continue
		}
		if len(v) != n || v[0] != 1 {
			t.Errorf("At(%d, %d): wrong diagonal %v", -i, n, v)
		}
	}
}

package ckks

import (
	"fmt"
	"math/cmplx"
	"testing"

	"github.com/tuneinsight/lattigo/v6/core/rlwe"
	"github.com/tuneinsight/lattigo/v6/ring"
)

// Trace on the ConjugateInvariant ring type.
//
// (a) scheme level: a CKKS ciphertext with 2^logSlots slots only uses the coefficients that are
//     multiples of N/2^logSlots; Trace(ct, logSlots) is the map that zeroes the other coefficients and
//     must therefore leave the encoded message untouched (this is what happens in the Standard ring).
// (b) ring level: Trace is documented as a projection ("Monomial X^k vanishes if k is not divisible by
//     (N/n), otherwise it is multiplied by (N/n). Ciphertext is pre-multiplied by (N/n)^-1 to remove the
//     (N/n) factor"): every output coefficient must be either the input coefficient or zero, and for
//     logN = 0 (full trace) only the constant coefficient may survive.
func TestDemoC11TraceConjugateInvariant(t *testing.T) {

	const LogN = 5

	params, err := NewParametersFromLiteral(ParametersLiteral{
		LogN:            LogN,
		LogQ:            []int{55, 45},
		LogP:            []int{56},
		LogDefaultScale: 30,
		RingType:        ring.ConjugateInvariant,
	})
	if err != nil {
		t.Fatal(err)
	}

	kgen := rlwe.NewKeyGenerator(params)
	sk := kgen.GenSecretKeyNew()
	enc := rlwe.NewEncryptor(params, sk)
	dec := rlwe.NewDecryptor(params, sk)
	ecd := NewEncoder(params)

	// (a) message must be preserved
	for logSlots := 1; logSlots <= params.LogMaxSlots(); logSlots++ {
		t.Run(fmt.Sprintf("message/logSlots=%d", logSlots), func(t *testing.T) {
			slots := 1 << logSlots
			want := make([]complex128, slots)
			for i := range want {
				want[i] = complex(float64(i+1), 0)
			}
			pt := NewPlaintext(params, params.MaxLevel())
			pt.LogDimensions = ring.Dimensions{Rows: 0, Cols: logSlots}
			if err := ecd.Encode(want, pt); err != nil {
				t.Fatal(err)
			}
			ct, err := enc.EncryptNew(pt)
			if err != nil {
				t.Fatal(err)
			}

			// keys for exactly the advertised list
			evk := rlwe.NewMemEvaluationKeySet(nil, kgen.GenGaloisKeysNew(params.GaloisElementsForTrace(logSlots), sk)...)
			eval := NewEvaluator(params, evk)

			defer func() {
				if r := recover(); r != nil {
					t.Fatalf("Trace(ct, logSlots=%d) panicked: %v", logSlots, r)
				}
			}()

			out, err := eval.TraceNew(ct, logSlots)
			if err != nil {
				t.Fatal(err)
			}
			have := make([]complex128, slots)
			if err := ecd.Decode(dec.DecryptNew(out), have); err != nil {
				t.Fatal(err)
			}
			for i := range have {
				if cmplx.Abs(have[i]-want[i]) > 1e-3 {
					t.Fatalf("slot %d: have %v want %v (all: %v)", i, have[i], want[i], have)
				}
			}
		})
	}

	// (b) projection on the coefficients
	const delta = uint64(1) << 30
	N := params.N()
	level := params.MaxLevel()
	ringQ := params.RingQ().AtLevel(level)
	for logN := 0; logN < LogN; logN++ {
		t.Run(fmt.Sprintf("projection/logN=%d", logN), func(t *testing.T) {
			pt := rlwe.NewPlaintext(params, level)
			m := make([]int64, N)
			for i := range m {
				m[i] = int64(i + 1)
				for j := 0; j <= level; j++ {
					pt.Value.Coeffs[j][i] = uint64(m[i]) * delta
				}
			}
			ringQ.NTT(pt.Value, pt.Value)
			pt.IsNTT = true
			ct := rlwe.NewCiphertext(params, 1, level)
			if err := enc.Encrypt(pt, ct); err != nil {
				t.Fatal(err)
			}
			evk := rlwe.NewMemEvaluationKeySet(nil, kgen.GenGaloisKeysNew(rlwe.GaloisElementsForTrace(params, logN), sk)...)
			eval := NewEvaluator(params, evk)
			out := rlwe.NewCiphertext(params, 1, level)
			if err := eval.Trace(ct, logN, out); err != nil {
				t.Fatal(err)
			}
			res := dec.DecryptNew(out)
			if res.IsNTT {
				ringQ.INTT(res.Value, res.Value)
			}
			q0 := ringQ.SubRings[0].Modulus
			have := make([]int64, N)
			for i := range have {
				c := res.Value.Coeffs[0][i]
				if c > q0/2 {
					have[i] = -int64((q0 - c + delta/2) / delta)
				} else {
					have[i] = int64((c + delta/2) / delta)
				}
			}
			if have[0] != m[0] {
				t.Fatalf("constant coefficient: have %d want %d (all: %v)", have[0], m[0], have)
			}
			for i := 1; i < N; i++ {
				if have[i] != 0 && have[i] != m[i] {
					t.Fatalf("coefficient %d is neither zeroed nor preserved: have %d, input %d (all: %v)", i, have[i], m[i], have)
				}
				if logN == 0 && have[i] != 0 {
					t.Fatalf("full trace left coefficient %d = %d (all: %v)", i, have[i], have)
				}
			}
		})
	}
}

package ckks

import (
	"math/cmplx"
	"testing"

	"github.com/tuneinsight/lattigo/v6/core/rlwe"
)

// Parameter sets without auxiliary modulus P are valid (key-switching then uses a base-2 gadget
// decomposition) and Rotate works on them. InnerSum / RotateAndAdd / Replicate do not document any
// restriction to parameter sets with P: with keys for exactly the advertised Galois elements they must
// either compute the documented sums or return an error - not crash with a nil pointer dereference.
func TestDemoC11InnerSumWithoutP(t *testing.T) {

	params, err := NewParametersFromLiteral(ParametersLiteral{
		LogN:            4,
		LogQ:            []int{55, 45},
		LogDefaultScale: 30,
		// no P
	})
	if err != nil {
		t.Fatal(err)
	}

	kgen := rlwe.NewKeyGenerator(params)
	sk := kgen.GenSecretKeyNew()
	enc := rlwe.NewEncryptor(params, sk)
	dec := rlwe.NewDecryptor(params, sk)
	ecd := NewEncoder(params)

	slots := params.MaxSlots()
	v := make([]complex128, slots)
	for i := range v {
		v[i] = complex(float64(i+1), float64(-i))
	}
	pt := NewPlaintext(params, params.MaxLevel())
	if err := ecd.Encode(v, pt); err != nil {
		t.Fatal(err)
	}
	ct, err := enc.EncryptNew(pt)
	if err != nil {
		t.Fatal(err)
	}

	base2 := 8
	evkParams := rlwe.EvaluationKeyParameters{BaseTwoDecomposition: &base2}

	const batch, n = 2, 4

	// sanity: the plain rotation works on this parameter set
	{
		evk := rlwe.NewMemEvaluationKeySet(nil, kgen.GenGaloisKeysNew([]uint64{params.GaloisElementForRotation(batch)}, sk, evkParams)...)
		out, err := NewEvaluator(params, evk).RotateNew(ct, batch)
		if err != nil {
			t.Fatal(err)
		}
		have := make([]complex128, slots)
		if err := ecd.Decode(dec.DecryptNew(out), have); err != nil {
			t.Fatal(err)
		}
		for i := range have {
			if cmplx.Abs(have[i]-v[(i+batch)%slots]) > 5e-2 {
				t.Fatalf("Rotate: slot %d have %v want %v", i, have[i], v[(i+batch)%slots])
			}
		}
	}

	run := func(name string, galEls []uint64, sign int, op func(eval *Evaluator, out *rlwe.Ciphertext) error) {
		t.Run(name, func(t *testing.T) {
			evk := rlwe.NewMemEvaluationKeySet(nil, kgen.GenGaloisKeysNew(galEls, sk, evkParams)...)
			eval := NewEvaluator(params, evk)
			out := NewCiphertext(params, 1, ct.Level())

			defer func() {
				if r := recover(); r != nil {
					t.Fatalf("panic: %v", r)
				}
			}()

			if err := op(eval, out); err != nil {
				t.Logf("returned an error (acceptable): %v", err)
				return
			}

			have := make([]complex128, slots)
			if err := ecd.Decode(dec.DecryptNew(out), have); err != nil {
				t.Fatal(err)
			}
			for i := range have {
				var want complex128
				for r := 0; r < n; r++ {
					want += v[((i+sign*r*batch)%slots+slots)%slots]
				}
				if cmplx.Abs(have[i]-want) > 5e-2 {
					t.Fatalf("slot %d: have %v want %v", i, have[i], want)
				}
			}
		})
	}

	run("InnerSum", params.GaloisElementsForInnerSum(batch, n), 1, func(eval *Evaluator, out *rlwe.Ciphertext) error {
		return eval.InnerSum(ct, batch, n, out)
	})
	run("RotateAndAdd", params.GaloisElementsForInnerSum(batch, n), 1, func(eval *Evaluator, out *rlwe.Ciphertext) error {
		return eval.RotateAndAdd(ct, batch, n, out)
	})
	run("Replicate", params.GaloisElementsForReplicate(batch, n), -1, func(eval *Evaluator, out *rlwe.Ciphertext) error {
		return eval.Replicate(ct, batch, n, out)
	})
}

package main

// Copy-constructor contracts (properties C10, C02/C16 where a copy feeds them):
//
//	//@ copy <Type>.<Method>
//	//@   shared  f g h        copy.f is exactly receiver.f
//	//@   fresh   f g          copy.f is newly built and is not the receiver's f (scratch, PRNG-backed state)
//	//@   rebound f=param      copy.f is the named parameter
//	//@   derived f uses g     copy.f is built from an expression that mentions receiver.g
//	//@   zero    f            copy.f is left at its zero value on purpose
//
// The obligations are decided on the typed AST of the constructor: the returned composite
// literal (directly, or through one local that is then returned, including later x.f = e
// assignments) is executed symbolically field by field.  Every field of the struct must be
// classified (completeness), so adding a field to the struct without deciding how copies treat
// it fails the obligation copy/<Type>.<Method>/field:<name>.

import (
	"fmt"
	"go/ast"
	"go/token"
	"go/types"
	"sort"
	"strings"
)

type CopySpec struct {
	Pkg     string
	Target  string
	Shared  []string
	Fresh   []string
	Zero    []string
	Copied  []string // copy.f is built by a call on receiver.f (its own copy constructor), never receiver.f itself
	Rebound map[string]string
	Derived map[string][]string
	Props   []string
	Line    string
}

type simpleObligation struct {
	Name   string
	Func   string
	File   string
	OK     bool
	Detail string
}

func (cs *CopySpec) serves(id string) bool {
	if len(cs.Props) == 0 {
		return id == "C10"
	}
	for _, p := range cs.Props {
		if p == id {
			return true
		}
	}
	return false
}

func parseCopyBlock(pkg string, lines []string, where []string) (*CopySpec, error) {
	head := strings.Fields(lines[0])
	if len(head) < 2 {
		return nil, fmt.Errorf("%s: bad copy line", where[0])
	}
	cs := &CopySpec{Pkg: pkg, Target: head[1], Rebound: map[string]string{}, Derived: map[string][]string{}, Line: where[0]}
	for i, l := range lines[1:] {
		f := strings.Fields(l)
		if len(f) == 0 {
			continue
		}
		switch f[0] {
		case "shared":
			cs.Shared = append(cs.Shared, f[1:]...)
		case "fresh":
			cs.Fresh = append(cs.Fresh, f[1:]...)
		case "zero":
			cs.Zero = append(cs.Zero, f[1:]...)
		case "copied":
			cs.Copied = append(cs.Copied, f[1:]...)
		case "rebound":
			for _, kv := range f[1:] {
				p := strings.SplitN(kv, "=", 2)
				if len(p) != 2 {
					return nil, fmt.Errorf("%s: rebound expects field=param", where[i+1])
				}
				cs.Rebound[p[0]] = p[1]
			}
		case "derived":
			// derived f uses g h
			if len(f) < 4 || f[2] != "uses" {
				return nil, fmt.Errorf("%s: derived expects: field uses g ...", where[i+1])
			}
			cs.Derived[f[1]] = append(cs.Derived[f[1]], f[3:]...)
		case "property":
			cs.Props = append(cs.Props, f[1:]...)
		default:
			return nil, fmt.Errorf("%s: unknown copy clause %q", where[i+1], f[0])
		}
	}
	return cs, nil
}

func copyObligations(prog *Program, id string) []simpleObligation {
	var out []simpleObligation
	for _, cs := range prog.Copies {
		if !cs.serves(id) {
			continue
		}
		out = append(out, checkCopy(prog, cs)...)
	}
	return out
}

func checkCopy(prog *Program, cs *CopySpec) []simpleObligation {
	key := cs.Pkg + "." + cs.Target
	short := shortPkg(key)
	fi := prog.Funcs[key]
	fail := func(detail string) []simpleObligation {
		return []simpleObligation{{Name: "copy/" + short + "/target", Func: short, File: cs.Line, OK: false, Detail: detail}}
	}
	if fi == nil || fi.Decl.Body == nil {
		return fail("copy constructor not found (renamed or removed?)")
	}
	info := fi.Pkg.TypesInfo
	recv := recvName(fi.Decl)
	sig := fi.Obj.Type().(*types.Signature)
	// struct type of the result
	if sig.Results().Len() < 1 {
		return fail("copy constructor returns nothing")
	}
	rt := sig.Results().At(0).Type()
	if p, ok := rt.(*types.Pointer); ok {
		rt = p.Elem()
	}
	if _, isIface := rt.Underlying().(*types.Interface); isIface && sig.Recv() != nil {
		rt = sig.Recv().Type()
		if p, ok := rt.(*types.Pointer); ok {
			rt = p.Elem()
		}
	}
	st, ok := rt.Underlying().(*types.Struct)
	if !ok {
		return fail("result is not a struct")
	}
	// local single definitions
	defs := map[types.Object]ast.Expr{}
	ndef := map[types.Object]int{}
	ast.Inspect(fi.Decl.Body, func(n ast.Node) bool {
		if as, ok := n.(*ast.AssignStmt); ok {
			for i, l := range as.Lhs {
				if id, ok := l.(*ast.Ident); ok {
					obj := info.Defs[id]
					if obj == nil {
						obj = info.Uses[id]
					}
					if obj != nil {
						ndef[obj]++
						if len(as.Rhs) == len(as.Lhs) {
							defs[obj] = as.Rhs[i]
						} else if len(as.Rhs) == 1 {
							defs[obj] = as.Rhs[0]
						}
					}
				}
			}
		}
		return true
	})
	resolve := func(e ast.Expr) ast.Expr {
		for i := 0; i < 4; i++ {
			e = stripParens(e)
			id, ok := e.(*ast.Ident)
			if !ok {
				return e
			}
			obj := info.Uses[id]
			if d, ok := defs[obj]; ok && ndef[obj] == 1 {
				e = d
				continue
			}
			return e
		}
		return e
	}
	// find the literal(s): every return must yield a literal of the struct (nil returns for nil receivers allowed)
	fields := map[string]ast.Expr{}
	found := false
	var litVar types.Object
	collectLit := func(e ast.Expr) bool {
		e = stripParens(e)
		if u, ok := e.(*ast.UnaryExpr); ok && u.Op == token.AND {
			e = u.X
		}
		cl, ok := e.(*ast.CompositeLit)
		if !ok {
			return false
		}
		t := info.TypeOf(cl)
		if t == nil || !types.Identical(t.Underlying(), st) {
			return false
		}
		for i, el := range cl.Elts {
			if kv, ok := el.(*ast.KeyValueExpr); ok {
				fields[kv.Key.(*ast.Ident).Name] = kv.Value
			} else if i < st.NumFields() {
				fields[st.Field(i).Name()] = el
			}
		}
		found = true
		return true
	}
	var bad []string
	ast.Inspect(fi.Decl.Body, func(n ast.Node) bool {
		if _, ok := n.(*ast.FuncLit); ok {
			return false
		}
		ret, ok := n.(*ast.ReturnStmt)
		if !ok || len(ret.Results) == 0 {
			return true
		}
		r := stripParens(ret.Results[0])
		if id, ok := r.(*ast.Ident); ok {
			if id.Name == "nil" {
				return true
			}
			obj := info.Uses[id]
			if d, ok := defs[obj]; ok {
				if collectLit(d) {
					litVar = obj
					return true
				}
			}
		}
		if !collectLit(r) {
			bad = append(bad, "a return statement does not return a literal of the struct: "+exprString(r))
		}
		return true
	})
	// named result assigned a literal (e = &T{...}; return)
	if !found {
		for obj, d := range defs {
			if v, ok := obj.(*types.Var); ok && sig.Results().Len() > 0 && v == sig.Results().At(0) {
				if collectLit(d) {
					litVar = obj
				}
			}
		}
	}
	if !found {
		return fail("no composite literal of the result type is returned; " + strings.Join(bad, "; "))
	}
	// later assignments x.f = e on the literal variable
	if litVar != nil {
		ast.Inspect(fi.Decl.Body, func(n ast.Node) bool {
			as, ok := n.(*ast.AssignStmt)
			if !ok {
				return true
			}
			for i, l := range as.Lhs {
				if sel, ok := l.(*ast.SelectorExpr); ok {
					if id, ok := sel.X.(*ast.Ident); ok && info.Uses[id] == litVar && i < len(as.Rhs) {
						fields[sel.Sel.Name] = as.Rhs[i]
					}
				}
			}
			return true
		})
	}
	isRecvField := func(e ast.Expr, f string) bool {
		e = resolve(e)
		sel, ok := e.(*ast.SelectorExpr)
		if !ok || sel.Sel.Name != f {
			return false
		}
		id, ok := stripParens(sel.X).(*ast.Ident)
		return ok && id.Name == recv
	}
	mentionsRecvField := func(e ast.Expr, f string) bool {
		hit := false
		var walk func(e ast.Expr, depth int)
		walk = func(e ast.Expr, depth int) {
			if e == nil || depth > 6 {
				return
			}
			ast.Inspect(e, func(n ast.Node) bool {
				switch x := n.(type) {
				case *ast.SelectorExpr:
					if id, ok := stripParens(x.X).(*ast.Ident); ok && id.Name == recv && x.Sel.Name == f {
						hit = true
					}
				case *ast.Ident:
					if obj := info.Uses[x]; obj != nil {
						if d, ok := defs[obj]; ok && ndef[obj] == 1 {
							walk(d, depth+1)
						}
					}
				}
				return !hit
			})
		}
		walk(e, 0)
		return hit
	}
	class := map[string]string{}
	for _, f := range cs.Shared {
		class[f] = "shared"
	}
	for _, f := range cs.Fresh {
		class[f] = "fresh"
	}
	for _, f := range cs.Zero {
		class[f] = "zero"
	}
	for _, f := range cs.Copied {
		class[f] = "copied"
	}
	for f := range cs.Rebound {
		class[f] = "rebound"
	}
	for f := range cs.Derived {
		class[f] = "derived"
	}
	var out []simpleObligation
	add := func(f string, ok bool, detail string) {
		out = append(out, simpleObligation{Name: "copy/" + short + "/field:" + f, Func: short, File: prog.pos(fi.Decl), OK: ok, Detail: detail})
	}
	var names []string
	for i := 0; i < st.NumFields(); i++ {
		names = append(names, st.Field(i).Name())
	}
	for _, f := range names {
		c, classified := class[f]
		val, set := fields[f]
		switch {
		case !classified:
			cur := "(not set)"
			if set {
				cur = exprString(resolve(val))
			}
			add(f, false, "field is not classified by the copy contract (new field?): decide shared / fresh / rebound / derived / zero; currently: "+cur)
		case c == "zero":
			add(f, !set, "field must be left at its zero value")
		case !set:
			add(f, false, "field is not set by the copy constructor (the copy gets the zero value)")
		case c == "shared":
			add(f, isRecvField(val, f), fmt.Sprintf("shared field must be exactly %s.%s, got %s", recv, f, exprString(val)))
		case c == "fresh":
			r := resolve(val)
			_, isSel := r.(*ast.SelectorExpr)
			bare := isSel && mentionsRecvField(r, f)
			if id, ok := r.(*ast.Ident); ok && id.Name != "nil" {
				// an unresolved identifier (parameter or multiply assigned local)
				bare = bare || info.Uses[id] != nil && ndef[info.Uses[id]] == 0
			}
			add(f, !bare && !isRecvField(val, f), fmt.Sprintf("owned field must be freshly built, got %s", exprString(val)))
		case c == "copied":
			r := resolve(val)
			if st, ok := r.(*ast.StarExpr); ok {
				r = stripParens(st.X)
			}
			if ta, ok := r.(*ast.TypeAssertExpr); ok {
				r = stripParens(ta.X)
			}
			_, isCall := r.(*ast.CallExpr)
			add(f, isCall && mentionsRecvField(r, f) && !isRecvField(val, f), fmt.Sprintf("field must be a copy built from %s.%s (a call on it), got %s", recv, f, exprString(val)))
		case c == "rebound":
			r := stripParens(val)
			id, ok := r.(*ast.Ident)
			add(f, ok && id.Name == cs.Rebound[f], fmt.Sprintf("field must be the parameter %s, got %s", cs.Rebound[f], exprString(val)))
		case c == "derived":
			okAll := true
			var miss []string
			for _, g := range cs.Derived[f] {
				if !mentionsRecvField(val, g) {
					okAll = false
					miss = append(miss, g)
				}
			}
			add(f, okAll, fmt.Sprintf("field must be built from %s.%s, got %s", recv, strings.Join(miss, ","), exprString(val)))
		}
	}
	// contract mentions a field that no longer exists
	var extra []string
	for f := range class {
		ok := false
		for _, n := range names {
			if n == f {
				ok = true
			}
		}
		if !ok {
			extra = append(extra, f)
		}
	}
	sort.Strings(extra)
	for _, f := range extra {
		add(f, false, "contract classifies a field the struct does not have")
	}
	return out
}

// draftCopies prints, for every method named like a copy constructor, the struct fields and
// the expressions the constructor uses (development aid for writing copy contracts).
func draftCopies(prog *Program) {
	var keys []string
	for k := range prog.Funcs {
		keys = append(keys, k)
	}
	sort.Strings(keys)
	for _, k := range keys {
		fi := prog.Funcs[k]
		if fi.Obj == nil || fi.Decl.Recv == nil || strings.HasSuffix(prog.Fset.Position(fi.Decl.Pos()).Filename, "_test.go") {
			continue
		}
		n := fi.Obj.Name()
		if !(n == "ShallowCopy" || n == "WithKey" || n == "WithPRNG" || n == "AtLevel" || n == "WithSeededPublicRandomness") {
			continue
		}
		short := strings.TrimPrefix(k, fi.Pkg.PkgPath+".")
		cs := &CopySpec{Pkg: fi.Pkg.PkgPath, Target: short, Rebound: map[string]string{}, Derived: map[string][]string{}}
		obs := checkCopy(prog, cs)
		fmt.Printf("// %s  (%s)\n//@ copy %s\n", shortPkg(k), prog.pos(fi.Decl), short)
		for _, o := range obs {
			fmt.Printf("//    %s : %s\n", o.Name[strings.LastIndex(o.Name, "/")+1:], o.Detail)
		}
	}
}

package main

import (
	"fmt"
	"os"
	"go/ast"
	"go/types"
	"math/big"
	"sort"
	"strings"

	"golang.org/x/tools/go/packages"
)

// State is one symbolic execution state.
type State struct {
	vars  map[types.Object]Value
	scope []types.Object
	heaps map[string]*Term
	path  []*Term
	seen  map[string]bool // facts already in path (by key)
	hist  map[types.Object][]Value // every value assigned to a local on this path, in order
	tmps  map[string]Value         // last value of every evaluated compound expression, by source text
	allocs []SliceV                // slices made on this path (allocation model)
	fieldOv map[string]Value       // fields of symbolic structs assigned on this path, by (struct name, key, field)
	ghostv  map[string]*Term       // current value of the ghost variables changed on this path (`ghostvar`)
	refTop  *Term                  // identity of the most recently allocated external object (RefV); nil: the entry watermark
}

func newState() *State {
	return &State{vars: map[types.Object]Value{}, heaps: map[string]*Term{}, seen: map[string]bool{}, hist: map[types.Object][]Value{}, tmps: map[string]Value{}}
}

func (s *State) clone() *State {
	n := &State{vars: make(map[types.Object]Value, len(s.vars)), heaps: make(map[string]*Term, len(s.heaps)),
		seen: make(map[string]bool, len(s.seen)), hist: make(map[types.Object][]Value, len(s.hist)), tmps: make(map[string]Value, len(s.tmps))}
	for k, v := range s.tmps {
		n.tmps[k] = v
	}
	for k, v := range s.hist {
		n.hist[k] = v[:len(v):len(v)]
	}
	for k, v := range s.vars {
		n.vars[k] = v
	}
	for k, v := range s.heaps {
		n.heaps[k] = v
	}
	for k, v := range s.seen {
		n.seen[k] = v
	}
	n.scope = append([]types.Object(nil), s.scope...)
	n.path = append([]*Term(nil), s.path...)
	n.allocs = append([]SliceV(nil), s.allocs...)
	n.refTop = s.refTop
	if s.ghostv != nil {
		n.ghostv = make(map[string]*Term, len(s.ghostv))
		for k, v := range s.ghostv {
			n.ghostv[k] = v
		}
	}
	if s.fieldOv != nil {
		n.fieldOv = make(map[string]Value, len(s.fieldOv))
		for k, v := range s.fieldOv {
			n.fieldOv[k] = v
		}
	}
	return n
}

func (s *State) assume(t *Term) {
	if t.IsTrue() {
		return
	}
	if t.Op == "and" {
		for _, a := range t.Args {
			s.assume(a)
		}
		return
	}
	k := t.Key()
	if s.seen[k] {
		return
	}
	s.seen[k] = true
	s.path = append(s.path, t)
}

func (s *State) declare(o types.Object, v Value) {
	s.vars[o] = v
	s.hist[o] = append(s.hist[o][:len(s.hist[o]):len(s.hist[o])], v)
	s.scope = append(s.scope, o)
}

// version returns the n-th value (1-based) assigned to the local called name on this path.
// specRename: contract identifiers re-bound to locals after a rename in the code (see check.go:
// a binding is accepted only if every obligation of the function is discharged with it; the
// function-level clauses speak about parameters and results only, so this cannot weaken a claim).
var specRename = map[string]string{}

func renamed(name string) string {
	if alt, ok := specRename[name]; ok {
		return alt
	}
	return name
}

func (s *State) version(name string, n int) (Value, bool) {
	name = renamed(name)
	for i := len(s.scope) - 1; i >= 0; i-- {
		if s.scope[i].Name() == name {
			h := s.hist[s.scope[i]]
			if n >= 1 && n <= len(h) {
				return h[n-1], true
			}
			return nil, false
		}
	}
	return nil, false
}

func (s *State) lookupName(name string) (Value, bool) {
	name = renamed(name)
	for i := len(s.scope) - 1; i >= 0; i-- {
		if s.scope[i].Name() == name {
			v, ok := s.vars[s.scope[i]]
			return v, ok
		}
	}
	return nil, false
}

// FuncCtx is the verification context of one function under contract.
type FuncCtx struct {
	prog     *Program
	pkg      *packages.Package
	info     *types.Info
	fi       *FuncInfo
	con      *Contract
	name     string // short qualified name, e.g. ring.MRed
	obls     []*Obligation
	ranges   map[string][2]*big.Int
	inlineDepth int
	expandQuant bool // replay: forall over concrete bounds is expanded into ground instances
	fresh    int
	entry    *State
	loopOrd  map[ast.Stmt]int
	results  []types.Object
	counters map[string]int
	assumed  []string // notes on things assumed while executing (for evidence)
	inputs   []string
	lemmaFacts []*Term // function-level lemma instances evaluated at exit
	defs     map[string]*Term // definitions of the named intermediate values
	axiomCache map[string]*Term
	retPaths []*Term // path conditions at the returns (vacuity:returns)
}

func shortPkg(p string) string {
	p = strings.TrimPrefix(p, modPath+"/")
	return p
}

func (c *FuncCtx) freshName(prefix string) string {
	c.fresh++
	return fmt.Sprintf("%s!%d", prefix, c.fresh)
}

func (c *FuncCtx) setRange(t *Term, lo, hi *big.Int) {
	c.ranges[t.Key()] = [2]*big.Int{lo, hi}
}

// freshInt creates a new integer constant of the given Go type with its range fact.
func (c *FuncCtx) freshInt(st *State, name string, t types.Type) *Term {
	v := Var(name, SInt)
	if k, ok := intKindOf(t); ok && k.bits > 0 {
		lo, hi := k.rng()
		c.setRange(v, lo, hi)
		st.assume(And(Le(Const(lo), v), Le(v, Const(hi))))
	}
	return v
}

// named introduces a definition for a large term so that VCs stay small and models readable.
func (c *FuncCtx) named(st *State, prefix string, t *Term, typ types.Type) *Term {
	if t.Sort != SInt || t.Size() <= 10 {
		if typ != nil {
			c.noteRange(st, t, typ)
		}
		return t
	}
	v := Var(c.freshName(prefix), SInt)
	st.assume(Eq(v, t))
	if c.defs == nil {
		c.defs = map[string]*Term{}
	}
	c.defs[v.Name] = t
	if typ != nil {
		c.noteRange(st, v, typ)
	}
	return v
}

func (c *FuncCtx) noteRange(st *State, t *Term, typ types.Type) {
	if t.IsConst() {
		return
	}
	if k, ok := intKindOf(typ); ok && k.bits > 0 {
		lo, hi := k.rng()
		if _, have := c.ranges[t.Key()]; !have {
			c.setRange(t, lo, hi)
		}
		if isAtom(t) {
			st.assume(And(Le(Const(lo), t), Le(t, Const(hi))))
		}
	}
}

// learnRanges tightens the recorded interval of an atom from a fact of the shape
// atom < const, atom <= const, const < atom, const <= atom (and conjunctions of those).
// Only used for entry preconditions: the symbols denote entry values for the whole function.
func (c *FuncCtx) learnRanges(t *Term) {
	switch t.Op {
	case "and":
		for _, a := range t.Args {
			c.learnRanges(a)
		}
	case "lt", "le":
		a, b := t.Args[0], t.Args[1]
		// normal form keeps both sides as given; handle atom vs const
		if isAtom(a) && b.IsConst() {
			hi := new(big.Int).Set(b.Val)
			if t.Op == "lt" {
				hi.Sub(hi, bigOne)
			}
			if r, ok := c.ranges[a.Key()]; ok {
				if hi.Cmp(r[1]) < 0 {
					c.ranges[a.Key()] = [2]*big.Int{r[0], hi}
				}
			}
		}
		if isAtom(b) && a.IsConst() {
			lo := new(big.Int).Set(a.Val)
			if t.Op == "lt" {
				lo.Add(lo, bigOne)
			}
			if r, ok := c.ranges[b.Key()]; ok {
				if lo.Cmp(r[0]) > 0 {
					c.ranges[b.Key()] = [2]*big.Int{lo, r[1]}
				}
			}
		}
	}
}

// fits reports whether the mathematical value t is known (by interval arithmetic over the
// recorded ranges) to lie inside the machine type, so that no wrap-around term is needed.
func (c *FuncCtx) fits(t *Term, k intKind) bool {
	r, ok := (&Obligation{Ranges: c.ranges}).rangeOf(t)
	if !ok {
		return false
	}
	lo, hi := k.rng()
	return r[0].Cmp(lo) >= 0 && r[1].Cmp(hi) <= 0
}

func (c *FuncCtx) obName(kind, detail string) string {
	base := c.name + "/" + kind
	if detail != "" {
		base += ":" + detail
	}
	c.counters[base]++
	if n := c.counters[base]; n > 1 {
		return fmt.Sprintf("%s#%d", base, n)
	}
	return base
}

func (c *FuncCtx) oblige(st *State, kind, detail string, goal *Term, at ast.Node, extra ...*Term) *Obligation {
	if goal.IsTrue() {
		// still counted: trivial obligations are discharged by the simplifier
	}
	o := &Obligation{Name: c.obName(kind, detail), Func: c.name, Kind: kind, Goal: goal, Ranges: c.ranges, Inputs: c.inputs}
	if at != nil {
		o.File = c.prog.pos(at)
	}
	o.Assume = append(append([]*Term(nil), st.path...), extra...)
	o.Assume = append(o.Assume, c.pureAxioms(st, o)...)
	c.obls = append(c.obls, o)
	return o
}

// pureAxioms: for every pure Go function that occurs (as an uninterpreted function f$) in a
// quantified part of the obligation, the contract of f as a quantified axiom
//
//	forall args: requires(args) => ensures(args, f$(args))        pattern f$(args)
//
// (ground occurrences already get their contract instance when they are created).
func (c *FuncCtx) pureAxioms(st *State, o *Obligation) []*Term {
	if os.Getenv("LVC_NOPUREAX") != "" {
		return nil
	}
	names := map[string]bool{}
	var scan func(t *Term, under bool)
	scan = func(t *Term, under bool) {
		if t.Op == "forall" {
			under = true
		}
		if under && t.Op == "app" && strings.HasSuffix(t.Name, "$") {
			names[strings.TrimSuffix(t.Name, "$")] = true
		}
		for _, a := range t.Args {
			scan(a, under)
		}
		for _, m := range t.Monos {
			for _, a := range m.Atoms {
				scan(a, under)
			}
		}
	}
	scan(o.Goal, false)
	for _, a := range o.Assume {
		scan(a, false)
	}
	if len(names) == 0 {
		return nil
	}
	if c.axiomCache == nil {
		c.axiomCache = map[string]*Term{}
	}
	var out []*Term
	var ns []string
	for n := range names {
		ns = append(ns, n)
	}
	sort.Strings(ns)
	for _, n := range ns {
		if ax, ok := c.axiomCache[n]; ok {
			if ax != nil {
				out = append(out, ax)
			}
			continue
		}
		c.axiomCache[n] = nil
		// find the function among the contracts (same package first)
		var fi *FuncInfo
		var con *Contract
		for key, f := range c.prog.Funcs {
			if f.Obj != nil && f.Obj.Name() == n && isPureScalar(f) {
				if cc, ok := c.prog.Contracts[key]; ok {
					fi, con = f, cc
					if f.Pkg == c.pkg {
						break
					}
				}
			}
		}
		if fi == nil {
			continue
		}
		sig := fi.Obj.Type().(*types.Signature)
		var bvs []*Term
		var args []Value
		scratch := newState()
		for i := 0; i < sig.Params().Len(); i++ {
			pt := sig.Params().At(i).Type()
			if at, ok := pt.Underlying().(*types.Array); ok {
				arr := ArrV{}
				for j := int64(0); j < at.Len(); j++ {
					v := Var(fmt.Sprintf("ax!%s!%d!%d", n, i, j), SInt)
					bvs = append(bvs, v)
					arr.Elems = append(arr.Elems, IntV{v})
				}
				args = append(args, arr)
			} else if isBoolType(pt) {
				v := Var(fmt.Sprintf("ax!%s!%d", n, i), SInt)
				bvs = append(bvs, v)
				args = append(args, BoolV{Ne(v, ConstI(0))})
			} else {
				v := Var(fmt.Sprintf("ax!%s!%d", n, i), SInt)
				bvs = append(bvs, v)
				args = append(args, IntV{v})
			}
		}
		var facts []*Term
		res := c.applyPure(fi, con, args, func(t *Term) { facts = append(facts, t) }, scratch)
		var pats []*Term
		for _, r := range res {
			switch x := r.(type) {
			case IntV:
				pats = append(pats, x.T)
			case BoolV:
				pats = append(pats, x.T)
			}
		}
		// arguments are machine integers
		rng := TTrue
		for _, v := range bvs {
			rng = And(rng, Le(ConstI(0), v), Lt(v, Const(W64)))
		}
		ax := Forall(bvs, pats[:1], Implies(rng, And(facts...)))
		c.axiomCache[n] = ax
		out = append(out, ax)
	}
	return out
}

// product multiplies two code-level values.  When an operand is a named intermediate value,
// the product is also related to the expanded product of its definition (an instance of
// l = r => l*f = r*f), so that facts about the definition's monomials reach the product.
func (c *FuncCtx) product(st *State, a, b *Term) *Term {
	for _, f := range c.productFacts(a, b) {
		st.assume(f)
	}
	return Mul(a, b)
}

func (c *FuncCtx) productFacts(a, b *Term) []*Term {
	var out []*Term
	seen := map[string]bool{}
	var expand func(x, y *Term, depth int)
	expand = func(x, y *Term, depth int) {
		if depth > 3 || y.IsConst() || x.IsConst() || y.Size() > 40 {
			return
		}
		x.walk(func(t *Term) {
			if t.Op == "var" && !seen[t.Name+"*"+y.Key()] {
				seen[t.Name+"*"+y.Key()] = true
				if d, ok := c.defs[t.Name]; ok && d.Size() < 200 {
					out = append(out, Eq(Mul(t, y), Mul(d, y)))
					expand(d, y, depth+1)
				}
			}
		})
	}
	expand(a, b, 0)
	expand(b, a, 0)
	return out
}

// symValue materialises a symbolic value of Go type t.
func (c *FuncCtx) symValue(st *State, name string, t types.Type) Value {
	return c.symValueK(st, name, t, nil)
}

// leaf builds the term of a scalar leaf: a variable, or an uninterpreted function of the key.
func leafTerm(name string, key []*Term, s Sort) *Term {
	if key == nil {
		return Var(name, s)
	}
	return App("F."+name, s, key...)
}

func (c *FuncCtx) symValueK(st *State, name string, t types.Type, key []*Term) Value {
	if key != nil {
		switch u := t.Underlying().(type) {
		case *types.Basic:
			if u.Info()&types.IsBoolean != 0 {
				return BoolV{leafTerm(name, key, SBool)}
			}
			if k, ok := intKindOf(t); ok {
				v := leafTerm(name, key, SInt)
				if k.bits > 0 {
					lo, hi := k.rng()
					// the range fact holds for every key (index), so it is sound for any free symbol in it
					c.setRange(v, lo, hi)
					st.assume(And(Le(Const(lo), v), Le(v, Const(hi))))
				}
				return IntV{v}
			}
			return OpaqueV{Desc: name, T: t}
		case *types.Array:
			if u.Len() <= 64 {
				a := ArrV{}
				for i := int64(0); i < u.Len(); i++ {
					a.Elems = append(a.Elems, c.symValueK(st, fmt.Sprintf("%s.%d", name, i), u.Elem(), key))
				}
				return a
			}
			return OpaqueV{Desc: name, T: t}
		case *types.Slice:
			sl := SliceV{Addr: leafTerm(name+".addr", key, SInt), Len: leafTerm(name+".len", key, SInt), Cap: leafTerm(name+".cap", key, SInt), Elem: u.Elem()}
			c.sliceFacts(st, sl)
			return sl
		case *types.Pointer:
			if et, ok := extRefType(t); ok {
				return c.symRef(st, leafTerm(name+".ref", key, SInt), et)
			}
			if _, ok := u.Elem().Underlying().(*types.Struct); ok {
				return &StructV{T: u.Elem(), Prefix: name, F: map[string]Value{}, Key: key}
			}
			return OpaqueV{Desc: name, T: t}
		case *types.Struct:
			return &StructV{T: t, Prefix: name, F: map[string]Value{}, Key: key}
		}
		return OpaqueV{Desc: name, T: t}
	}
	if isErrorType(t) {
		return ErrV{Var(name+".isnil", SBool)}
	}
	switch u := t.Underlying().(type) {
	case *types.Basic:
		if u.Info()&types.IsBoolean != 0 {
			return BoolV{Var(name, SBool)}
		}
		if _, ok := intKindOf(t); ok {
			return IntV{c.freshInt(st, name, t)}
		}
		return OpaqueV{Desc: name, T: t}
	case *types.Array:
		if u.Len() <= 64 {
			a := ArrV{}
			for i := int64(0); i < u.Len(); i++ {
				a.Elems = append(a.Elems, c.symValue(st, fmt.Sprintf("%s.%d", name, i), u.Elem()))
			}
			return a
		}
		return OpaqueV{Desc: name, T: t}
	case *types.Slice:
		return c.symSlice(st, name, u.Elem())
	case *types.Pointer:
		if et, ok := extRefType(t); ok {
			return c.symRef(st, Var(name+".ref", SInt), et)
		}
		if _, ok := u.Elem().Underlying().(*types.Struct); ok {
			return &StructV{T: u.Elem(), Prefix: name, F: map[string]Value{}}
		}
		return OpaqueV{Desc: name, T: t}
	case *types.Struct:
		return &StructV{T: t, Prefix: name, F: map[string]Value{}}
	}
	return OpaqueV{Desc: name, T: t}
}

// ---- external objects modelled by one ghost integer (RefV) ----

// rbrk0 is the allocation watermark of external objects at function entry: every object
// reachable from the inputs has an identity at or below it, every allocation a larger one than
// all earlier ones of the path (so: different from them).
var rbrk0 = Var("rbrk0", SInt)

func (c *FuncCtx) refTop(st *State) *Term {
	if st.refTop == nil {
		return rbrk0
	}
	return st.refTop
}

func (c *FuncCtx) symRef(st *State, id *Term, et types.Type) RefV {
	st.assume(Le(ConstI(1), id))
	if entryDerived(id) {
		st.assume(Le(id, rbrk0))
	}
	return RefV{ID: id, T: et}
}

// allocRef: a newly allocated external object (new(T), or the result of a callee whose contract
// says `refnew`): its identity is above everything allocated before on this path.
func (c *FuncCtx) allocRef(st *State, et types.Type, tag string) RefV {
	id := Var(c.freshName("ref."+tag), SInt)
	st.assume(And(Le(ConstI(1), id), Lt(c.refTop(st), id)))
	st.refTop = id
	c.assumed = append(c.assumed, "external objects (math/big values) are modelled by one ghost integer each, in a ghost heap indexed by an allocation identity; allocations get increasing identities; methods on them follow ASSUMED `ext:` contracts")
	return RefV{ID: id, T: et}
}

// bumpRefTop: allocations may have happened (a loop body, a callee without frame): the watermark is unknown but not lower.
func (c *FuncCtx) bumpRefTop(st *State) {
	nt := Var(c.freshName("reftop"), SInt)
	st.assume(Le(c.refTop(st), nt))
	st.refTop = nt
}

func (c *FuncCtx) refVal(st *State, r RefV) *Term {
	return Select(c.heap(st, refHeapName(r.T)), r.ID)
}

func (c *FuncCtx) setRefVal(st *State, r RefV, v *Term) {
	hn := refHeapName(r.T)
	st.heaps[hn] = Store(c.heap(st, hn), r.ID, v)
}

var maxLen = pow2(40)
var maxAddr = pow2(56)

func (c *FuncCtx) symSlice(st *State, name string, elem types.Type) SliceV {
	s := SliceV{Addr: Var(name+".addr", SInt), Len: Var(name+".len", SInt), Cap: Var(name+".cap", SInt), Elem: elem}
	c.sliceFacts(st, s)
	return s
}

func (c *FuncCtx) sliceFacts(st *State, s SliceV) {
	// address 0 is the nil slice
	st.assume(And(Le(ConstI(0), s.Len), Le(s.Len, s.Cap), Le(s.Cap, Const(maxLen)),
		Le(ConstI(0), s.Addr), Le(s.Addr, Const(maxAddr)), Implies(Eq(s.Addr, ConstI(0)), Eq(s.Cap, ConstI(0)))))
	c.setRange(s.Len, bigZero, maxLen)
	c.setRange(s.Cap, bigZero, maxLen)
	c.setRange(s.Addr, bigZero, maxAddr)
	if entryDerived(s.Addr) {
		st.assume(Le(Add(s.Addr, s.Cap), brk0))
	}
}

// entryDerived: the term names storage reachable from the function's inputs (no fresh symbol,
// which would come from a havoc, a callee result or an allocation).
func entryDerived(t *Term) bool {
	// row j of a slice of slices reachable from the inputs is input storage whatever the index j is
	// (a loop variable, a quantified row index): only the base decides
	if t.Op == "app" && t.Name == "row.addr" && len(t.Args) == 2 {
		return entryDerived(t.Args[0])
	}
	ok := true
	t.walk(func(x *Term) {
		if (x.Op == "var" || x.Op == "app") && strings.Contains(x.Name, "!") {
			ok = false
		}
	})
	return ok
}

// field returns (materialising lazily) a field of a symbolic struct.
func fieldOvKey(sv *StructV, name string) string {
	k := sv.Prefix
	for _, t := range sv.Key {
		k += "|" + t.Key()
	}
	return k + "." + name
}

func (c *FuncCtx) field(st *State, sv *StructV, name string) Value {
	if st != nil && st.fieldOv != nil {
		if v, ok := st.fieldOv[fieldOvKey(sv, name)]; ok {
			return v
		}
	}
	if v, ok := sv.F[name]; ok {
		return v
	}
	stt, ok := sv.T.Underlying().(*types.Struct)
	if !ok {
		panic(verr("field %s of non-struct %s", name, sv.T))
	}
	for i := 0; i < stt.NumFields(); i++ {
		f := stt.Field(i)
		if f.Name() == name {
			v := c.symValueK(st, sv.Prefix+"."+name, f.Type(), sv.Key)
			sv.F[name] = v
			return v
		}
	}
	// promoted field through embedded structs
	for i := 0; i < stt.NumFields(); i++ {
		f := stt.Field(i)
		if !f.Embedded() {
			continue
		}
		ft := f.Type()
		if p, ok := ft.(*types.Pointer); ok {
			ft = p.Elem()
		}
		if _, ok := ft.Underlying().(*types.Struct); !ok {
			continue
		}
		if hasField(ft, name) {
			ev := c.field(st, sv, f.Name())
			if es, ok := ev.(*StructV); ok {
				return c.field(st, es, name)
			}
		}
	}
	panic(verr("no field %s in %s", name, sv.T))
}

func hasField(t types.Type, name string) bool {
	st, ok := t.Underlying().(*types.Struct)
	if !ok {
		return false
	}
	for i := 0; i < st.NumFields(); i++ {
		f := st.Field(i)
		if f.Name() == name {
			return true
		}
		if f.Embedded() {
			ft := f.Type()
			if p, ok := ft.(*types.Pointer); ok {
				ft = p.Elem()
			}
			if hasField(ft, name) {
				return true
			}
		}
	}
	return false
}

// heap access
func (c *FuncCtx) heap(st *State, name string) *Term {
	if h, ok := st.heaps[name]; ok {
		return h
	}
	h := Var(name, SArr)
	st.heaps[name] = h
	return h
}

func (c *FuncCtx) readCell(st *State, elem types.Type, addr *Term) Value {
	hn := heapName(elem)
	return c.readHeap(st, c.heap(st, hn), elem, addr)
}

func (c *FuncCtx) readHeap(st *State, h *Term, elem types.Type, addr *Term) Value {
	t := Select(h, addr)
	if isBoolType(elem) {
		return BoolV{Ne(t, ConstI(0))}
	}
	if t.Op == "select" {
		if t.Args[0].Op == "store" {
			// a read through pending stores: name the loaded value so that later terms stay small
			v := Var(c.freshName("ld"), SInt)
			st.assume(Eq(v, t))
			c.noteRange(st, v, elem)
			return IntV{v}
		}
		c.noteRange(st, t, elem)
	}
	return IntV{t}
}

func (c *FuncCtx) writeCell(st *State, elem types.Type, addr *Term, v Value) {
	hn := heapName(elem)
	h := c.heap(st, hn)
	var t *Term
	if isBoolType(elem) {
		t = Ite(asBool(v), ConstI(1), ConstI(0))
	} else if rv, ok := v.(RefV); ok {
		t = rv.ID // a slice of pointers to external objects holds their identities
	} else {
		t = asInt(v)
	}
	nh := Store(h, addr, t)
	st.heaps[hn] = nh
}

func sortedHeapNames(m map[string]*Term) []string {
	var ks []string
	for k := range m {
		ks = append(ks, k)
	}
	sort.Strings(ks)
	return ks
}

// ghostVar: the current value of a ghost variable (declared `//@ ghostvar name`): an integer that
// only contracts mention (`gassigns name` on the functions that change it).  Its entry value is
// the symbol gv.<name>.
func (c *FuncCtx) ghostVar(st *State, name string) *Term {
	if t, ok := st.ghostv[name]; ok {
		return t
	}
	return Var("gv."+name, SInt)
}

func (c *FuncCtx) havocGhosts(st *State, only []string) {
	names := only
	if names == nil {
		for g := range c.prog.GhostVars {
			names = append(names, g)
		}
		sort.Strings(names)
	}
	for _, g := range names {
		if !c.prog.GhostVars[g] {
			panic(verr("gassigns %s: not a declared ghostvar", g))
		}
		if st.ghostv == nil {
			st.ghostv = map[string]*Term{}
		}
		st.ghostv[g] = Var(c.freshName("gv."+g), SInt)
	}
}

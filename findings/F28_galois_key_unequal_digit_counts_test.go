package multiparty

import (
	"math"
	"testing"

	"github.com/stretchr/testify/require"

	"github.com/tuneinsight/lattigo/v6/core/rlwe"
	"github.com/tuneinsight/lattigo/v6/ring"
	"github.com/tuneinsight/lattigo/v6/utils"
	"github.com/tuneinsight/lattigo/v6/utils/sampling"
)

// Finding F28 (property C14): EvaluationKeyGenProtocol.GenEvaluationKey (and GenGaloisKey through it)
// copies len(share.Value[0]) digits for EVERY RNS component instead of each component's own digit
// count: with moduli of unequal sizes and a power-of-two decomposition the collective key misses
// rows (or the call panics).  Harness adapted from a seeding sub-agent's demonstration.
//
// The test runs the collective Galois-key generation for several party
// counts, Galois elements and evaluation-key parameterisations. Every party's
// share goes through serialization, and the shares are then aggregated
//
//   - sequentially, in party order, in place on the first share (what the unit tests do),
//   - sequentially, in reverse party order, in place on the last share,
//   - as a balanced binary tree whose inner nodes are freshly allocated shares
//     (what a tree of aggregators, each allocating its own output, would do).
//
// The three aggregates must be identical, and the Galois key finalised from the
// tree aggregate must rotate a ciphertext under the ideal secret (the sum of the
// parties' secrets) like a single-party Galois key for that secret would.
func TestF28GaloisKeyUnequalDigitCounts(t *testing.T) {

	q45, q35a, q35b, q35c := uint64(0x200000440001), uint64(0x7fff80001), uint64(0x800280001), uint64(0x7ffd80001)
	pj := []uint64{0x3ffffffb80001, 0x4000000800001}

	type cfg struct {
		name    string
		Q, P    []uint64
		pw2     int
		levelQ  int
		parties int
		rots    []int // Galois elements 5^k, and the conjugation/row-swap for k=0
	}

	for _, c := range []cfg{
		// control: all moduli need the same number of power-of-two digits
		{"digits[3 3 3]", []uint64{q35a, q35b, q35c}, pj[:1], 12, 2, 3, []int{1}},
		// finding F28: 35-, 45-, 35-bit moduli with a 20-bit base need [2 3 2] digits
		{"digits[2 3 2]", []uint64{q35a, q45, q35b}, pj[:1], 20, 2, 3, []int{1}},
		} {
		c := c
		t.Run(c.name, func(t *testing.T) {

			params, err := rlwe.NewParametersFromLiteral(rlwe.ParametersLiteral{LogN: 10, Q: c.Q, P: c.P, NTTFlag: true})
			require.NoError(t, err)

			levelQ := c.levelQ
			ringQ := params.RingQ().AtLevel(levelQ)
			evkParams := rlwe.EvaluationKeyParameters{LevelQ: utils.Pointy(levelQ), BaseTwoDecomposition: utils.Pointy(c.pw2)}

			kgen := rlwe.NewKeyGenerator(params)
			sks := make([]*rlwe.SecretKey, c.parties)
			skIdeal := rlwe.NewSecretKey(params)
			for i := range sks {
				sks[i] = kgen.GenSecretKeyNew()
				params.RingQP().Add(skIdeal.Value, sks[i].Value, skIdeal.Value)
			}

			crs, err := sampling.NewKeyedPRNG([]byte("seed-C14-7"))
			require.NoError(t, err)

			gkg := make([]GaloisKeyGenProtocol, c.parties)
			for i := range gkg {
				if i == 0 {
					gkg[i] = NewGaloisKeyGenProtocol(params)
				} else {
					gkg[i] = gkg[0].ShallowCopy()
				}
			}

			prng, err := sampling.NewKeyedPRNG([]byte("seed-C14-7-pt"))
			require.NoError(t, err)
			us := ring.NewUniformSampler(prng, ringQ)

			enc := rlwe.NewEncryptor(params, skIdeal)
			dec := rlwe.NewDecryptor(params, skIdeal)

			for _, k := range c.rots {

				galEl := params.GaloisElement(k)
				if k == 0 {
					galEl = params.GaloisElementOrderTwoOrthogonalSubgroup()
				}

				crp := gkg[0].SampleCRP(crs, evkParams)

				// Each party generates its share and sends it over the wire.
				shares := make([]GaloisKeyGenShare, c.parties)
				for i := range shares {
					s := gkg[i].AllocateShare(evkParams)
					require.NoError(t, gkg[i].GenShare(sks[i], galEl, crp, &s))
					data, err := s.MarshalBinary()
					require.NoError(t, err)
					require.NoError(t, shares[i].UnmarshalBinary(data))
					require.Equal(t, galEl, shares[i].GaloisElement)
				}

				clone := func(s GaloisKeyGenShare) GaloisKeyGenShare {
					return GaloisKeyGenShare{GaloisElement: s.GaloisElement, EvaluationKeyGenShare: EvaluationKeyGenShare{GadgetCiphertext: *s.GadgetCiphertext.CopyNew()}}
				}

				// (1) in party order, in place on the first share
				seq := clone(shares[0])
				for i := 1; i < c.parties; i++ {
					require.NoError(t, gkg[0].AggregateShares(seq, shares[i], &seq))
				}

				// (2) in reverse party order, in place on the last share
				rev := clone(shares[c.parties-1])
				for i := c.parties - 2; i >= 0; i-- {
					require.NoError(t, gkg[0].AggregateShares(shares[i], rev, &rev))
				}

				// (3) balanced binary tree, each inner node is a freshly allocated share
				var tree func(lo, hi int) GaloisKeyGenShare
				tree = func(lo, hi int) GaloisKeyGenShare {
					if hi-lo == 1 {
						return shares[lo]
					}
					mid := (lo + hi) / 2
					left, right := tree(lo, mid), tree(mid, hi)
					node := gkg[0].AllocateShare(evkParams)
					require.NoError(t, gkg[0].AggregateShares(left, right, &node), "aggregation into a fresh share, galEl=%d", galEl)
					return node
				}
				root := tree(0, c.parties)

				require.Equal(t, galEl, seq.GaloisElement)
				require.Equal(t, seq.GaloisElement, rev.GaloisElement, "Galois element of the aggregate depends on the order")
				require.Equal(t, seq.GaloisElement, root.GaloisElement, "Galois element of the aggregate depends on the grouping")
				require.True(t, seq.GadgetCiphertext.Equal(&rev.GadgetCiphertext), "aggregate depends on the order")
				require.True(t, seq.GadgetCiphertext.Equal(&root.GadgetCiphertext), "aggregate depends on the grouping")

				// Finalisation from the tree aggregate
				gk := rlwe.NewGaloisKey(params, evkParams)
				require.NoError(t, gkg[0].GenGaloisKey(root, crp, gk))
				require.Equal(t, galEl, gk.GaloisElement, "collective Galois key is not a key for the requested Galois element")

				// Reference: single-party Galois key for the ideal secret
				gkRef := kgen.GenGaloisKeyNew(galEl, skIdeal, evkParams)

				pt := rlwe.NewPlaintext(params, levelQ)
				us.Read(pt.Value)
				want := ringQ.NewPoly()
				ringQ.AutomorphismNTT(pt.Value, galEl, want)

				ct, err := enc.EncryptNew(pt)
				require.NoError(t, err)

				noise := func(key *rlwe.GaloisKey) float64 {
					eval := rlwe.NewEvaluator(params, rlwe.NewMemEvaluationKeySet(nil, key))
					out := rlwe.NewCiphertext(params, 1, levelQ)
					require.NoError(t, eval.Automorphism(ct, galEl, out), "rotation with the collective Galois key, galEl=%d", galEl)
					res := dec.DecryptNew(out)
					ringQ.Sub(res.Value, want, res.Value)
					ringQ.INTT(res.Value, res.Value)
					return ringQ.Log2OfStandardDeviation(res.Value)
				}

				got := noise(gk)
				ref := noise(gkRef)
				bound := ref + math.Log2(float64(c.parties)) + 3

				t.Logf("galEl=%d rotation noise: collective=%.2f single-party=%.2f bound=%.2f", galEl, got, ref, bound)

				require.LessOrEqual(t, got, bound, "collective Galois key does not rotate like a key of the ideal secret")
			}
		})
	}
}

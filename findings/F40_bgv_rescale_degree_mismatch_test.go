package bgv

// Finding F40 (property C05): Evaluator.Rescale(op0, opOut) loops over the components of the RECEIVER.
// A degree-2 input (an unrelinearised product) rescaled into a degree-1 receiver silently loses its
// third component: no error, and the result decrypts to garbage.  A degree-1 input rescaled into a
// degree-2 receiver panics (index out of range) instead of returning an error.

import (
	"slices"
	"testing"

	"github.com/tuneinsight/lattigo/v6/core/rlwe"
)

func TestF40RescaleDegreeMismatch(t *testing.T) {
	params, err := NewParametersFromLiteral(ParametersLiteral{LogN: 10, LogQ: []int{54, 49, 49}, LogP: []int{52}, PlaintextModulus: 65537})
	if err != nil {
		t.Fatal(err)
	}
	T := params.PlaintextModulus()
	kgen := rlwe.NewKeyGenerator(params)
	sk := kgen.GenSecretKeyNew()
	ecd := NewEncoder(params)
	enc := rlwe.NewEncryptor(params, sk)
	dec := rlwe.NewDecryptor(params, sk)
	eval := NewEvaluator(params, nil)

	mk := func(f func(i int) uint64) (*rlwe.Ciphertext, []uint64) {
		v := make([]uint64, params.MaxSlots())
		for i := range v {
			v[i] = f(i) % T
		}
		pt := NewPlaintext(params, params.MaxLevel())
		if err := ecd.Encode(v, pt); err != nil {
			t.Fatal(err)
		}
		ct, err := enc.EncryptNew(pt)
		if err != nil {
			t.Fatal(err)
		}
		return ct, v
	}
	decode := func(ct *rlwe.Ciphertext) []uint64 {
		v := make([]uint64, params.MaxSlots())
		if err := ecd.Decode(dec.DecryptNew(ct), v); err != nil {
			t.Fatal(err)
		}
		return v
	}
	ctb, b := mk(func(i int) uint64 { return uint64(3*i + 2) })
	ctc, c := mk(func(i int) uint64 { return uint64(7*i + 5) })
	prod, err := eval.MulNew(ctb, ctc) // degree 2
	if err != nil {
		t.Fatal(err)
	}
	want := make([]uint64, len(b))
	for i := range want {
		want[i] = (b[i] * c[i]) % T
	}
	// control: rescaling in place keeps the product
	ctl := prod.CopyNew()
	if err := eval.Rescale(ctl, ctl); err != nil {
		t.Fatal(err)
	}
	if !slices.Equal(decode(ctl), want) {
		t.Fatal("control failed")
	}
	// degree 2 into a degree-1 receiver
	out := NewCiphertext(params, 1, prod.Level())
	err = eval.Rescale(prod, out)
	if err == nil {
		if have := decode(out); !slices.Equal(have, want) {
			t.Errorf("Rescale(degree 2 -> receiver of degree 1): no error, degree %d, slots 0..3 = %v, want %v", out.Degree(), have[:4], want[:4])
		}
	}
	// degree 1 into a degree-2 receiver
	func() {
		defer func() {
			if r := recover(); r != nil {
				t.Errorf("Rescale(degree 1 -> receiver of degree 2) panicked: %v", r)
			}
		}()
		out2 := NewCiphertext(params, 2, ctb.Level())
		if err := eval.Rescale(ctb, out2); err == nil {
			if have := decode(out2); !slices.Equal(have, b) {
				t.Errorf("Rescale(degree 1 -> receiver of degree 2): slots 0..3 = %v, want %v", have[:4], b[:4])
			}
		}
	}()
}

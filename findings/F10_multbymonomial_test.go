package probe2

import (
	"testing"

	"github.com/tuneinsight/lattigo/v6/ring"
)

// F10: Ring.MultByMonomial for k < -2N (wrong sign or index out of range) and k close to MaxInt (overflow).
func TestMultByMonomialAllK(t *testing.T) {
	r, _ := ring.NewRing(16, []uint64{97})
	p := r.NewPoly()
	for i := range p.Coeffs[0] {
		p.Coeffs[0][i] = uint64(i + 1)
	}
	ref := func(k int) []uint64 { // p * X^k by definition, k reduced with a floor modulus
		out := make([]uint64, 16)
		s := ((k % 32) + 32) % 32
		for i := 0; i < 16; i++ {
			j := i + s
			sign := (j / 16) % 2
			v := p.Coeffs[0][i]
			if sign == 1 {
				v = 97 - v
			}
			out[j%16] = v % 97
		}
		return out
	}
	for _, k := range []int{-16, -32, -33, -48, -80, 16, 48, 1<<63 - 5, -1 << 63} {
		func() {
			defer func() {
				if e := recover(); e != nil {
					t.Errorf("k=%d panic: %v", k, e)
				}
			}()
			o := r.NewPoly()
			r.MultByMonomial(p, k, o)
			want := ref(k)
			for i := range want {
				if o.Coeffs[0][i]%97 != want[i] {
					t.Errorf("k=%d coefficient %d: got %d want %d", k, i, o.Coeffs[0][i], want[i])
					break
				}
			}
		}()
	}
}

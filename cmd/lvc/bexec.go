package main

import (
	"fmt"
	"go/constant"
	"go/token"
	"go/types"
	"math/big"
	"strings"

	"golang.org/x/tools/go/ssa"
)

type bEngine struct {
	prog   *Program
	fp     *FrameProg
	reg    *bRegistry
	obls   []*Obligation
	fn     *ssa.Function
	con    *Contract
	name   string
	entry  *bState
	counters map[string]int
	notes  map[string]bool
	fresh  int
	paths  int
	maxUnwind int
	inlined map[string]bool
	ended  map[string]int
	dyn    map[string]types.Type // interface parameter -> dynamic type fixed by the contract
	storeCount int
	topBind    map[string]bVal // parameter bindings of the function under verification (for decreases)
	maxPaths   int
	loopAbs    bool
	allocMax   *big.Int
	nilable    bool // pointer fields of symbolic inputs have a symbolic nil-ness
	safetyOverflow bool // `safety overflow`: signed machine arithmetic owes its range
	safetyIndex  bool   // `safety index`: slice index expressions are obligations
	safetyRows   bool   // `safety rows`: the `rowsafe` preconditions of the leaves are obligations
	uptoLoop     bool   // prefix contract: the path ends at the first loop header of the function under contract
	callbackPure string // non-empty: calls of function values are assumed not to touch polynomial storage (clause `callback`)
	nilsafe    bool // dereferences of possibly-nil pointers are obligations (nil-deref)
	safety     bool // the contract asks for the run-time-panic obligations of make and slicing
}

const bMaxPaths = 400
const bMaxDepth = 14

func (e *bEngine) freshName(p string) string {
	e.fresh++
	return fmt.Sprintf("%s!b%d", p, e.fresh)
}

func (e *bEngine) note(s string) { e.notes[s] = true }

func (e *bEngine) obName(kind, detail string) string {
	base := e.name + "/" + kind
	if detail != "" {
		base += ":" + detail
	}
	e.counters[base]++
	if n := e.counters[base]; n > 1 {
		return fmt.Sprintf("%s#%d", base, n)
	}
	return base
}

func (e *bEngine) oblige(st *bState, kind, detail string, goal *Term, file string, extra ...*Term) {
	o := &Obligation{Name: e.obName(kind, detail), Func: e.name, Kind: kind, Goal: st.norm(goal), File: file, Native: true}
	for _, a := range st.path {
		o.Assume = append(o.Assume, a)
	}
	o.Assume = append(o.Assume, extra...)
	e.obls = append(e.obls, o)
}

// ---------- materialisation ----------

func deref(t types.Type) types.Type {
	if p, ok := t.Underlying().(*types.Pointer); ok {
		return p.Elem()
	}
	return t
}

func (e *bEngine) symVal(st *bState, name string, t types.Type) bVal {
	switch u := t.Underlying().(type) {
	case *types.Basic:
		if u.Info()&types.IsBoolean != 0 {
			return bScalar{Var(name, SBool)}
		}
		if u.Info()&types.IsInteger != 0 {
			v := Var(name, SInt)
			if u.Info()&types.IsUnsigned != 0 {
				st.assume(Le(ConstI(0), v))
			}
			return bScalar{v}
		}
		return bOpaque{typ: t, name: name}
	case *types.Pointer:
		id := e.reg.idFor(name)
		e.reg.meta[id] = bObjMeta{name: name, typ: u.Elem()}
		if _, ok := st.objs[id]; !ok {
			o := &bObject{id: id, typ: u.Elem(), sym: name}
			if _, isStruct := u.Elem().Underlying().(*types.Struct); isStruct {
				o.root = &bStruct{typ: u.Elem(), sym: name, f: map[string]bVal{}}
			} else if at, isArr := u.Elem().Underlying().(*types.Array); isArr {
				// arrays are array objects so that they can be sliced
				o.typ, o.arr, o.elems = at.Elem(), true, map[string]bVal{}
				e.reg.meta[id] = bObjMeta{name: name, typ: at.Elem(), arr: true}
			} else {
				o.root = e.symVal(st, name+".*", u.Elem())
			}
			st.objs[id] = o
		}
		if e.nilable && strings.Contains(name, ".") && !strings.HasPrefix(name, "global:") {
			// a pointer field of a symbolic input may be nil
			return bPtr{obj: id, nilv: Var(name+".isnil", SBool)}
		}
		return bPtr{obj: id}
	case *types.Struct, *types.Array:
		return &bStruct{typ: t, sym: name, f: map[string]bVal{}}
	case *types.Slice:
		id := e.reg.idFor(name + "[]")
		e.reg.meta[id] = bObjMeta{name: name, typ: u.Elem(), arr: true}
		if _, ok := st.objs[id]; !ok {
			st.objs[id] = &bObject{id: id, typ: u.Elem(), arr: true, sym: name, elems: map[string]bVal{}}
		}
		ln := Var(name+".len", SInt)
		cp := Var(name+".cap", SInt)
		st.assume(Le(ConstI(0), ln))
		st.assume(Le(ln, cp))
		if e.safetyOverflow {
			// no slice has more elements than the address space allows
			st.assume(Le(cp, Const(pow2(56))))
		}
		return bSlice{arr: id, len: ln, cap: cp}
	case *types.Interface:
		if dt, ok := e.dyn[name]; ok {
			return &bIface{dyn: dt, val: e.symVal(st, name, dt), sym: name}
		}
		return &bIface{sym: name}
	}
	return bOpaque{typ: t, name: name}
}

func (e *bEngine) zeroVal(t types.Type) bVal {
	switch u := t.Underlying().(type) {
	case *types.Basic:
		if u.Info()&types.IsBoolean != 0 {
			return bScalar{TFalse}
		}
		if u.Info()&types.IsInteger != 0 {
			return bScalar{ConstI(0)}
		}
		return bOpaque{typ: t, name: "zero"}
	case *types.Pointer:
		return bPtr{obj: 0}
	case *types.Struct, *types.Array:
		return &bStruct{typ: t, f: map[string]bVal{}}
	case *types.Slice:
		return bSlice{nil_: true, len: ConstI(0), cap: ConstI(0)}
	case *types.Interface:
		return &bIface{isNil: true}
	}
	return bOpaque{typ: t, name: "zero"}
}

func fieldType(t types.Type, name string) types.Type {
	switch u := t.Underlying().(type) {
	case *types.Struct:
		for i := 0; i < u.NumFields(); i++ {
			if u.Field(i).Name() == name {
				return u.Field(i).Type()
			}
		}
	case *types.Array:
		return u.Elem()
	}
	return nil
}

// field reads (materialising lazily) a field of a struct value.
func (e *bEngine) field(st *bState, sv *bStruct, name string) bVal {
	if v, ok := sv.f[name]; ok {
		return v
	}
	ft := fieldType(sv.typ, name)
	if ft == nil {
		panic(verr("no field %s in %s", name, bTypeName(sv.typ)))
	}
	var v bVal
	if sv.sym != "" {
		sep := "."
		if strings.HasPrefix(name, "[") {
			sep = ""
		}
		v = e.symVal(st, sv.sym+sep+name, ft)
	} else {
		v = e.zeroVal(ft)
	}
	sv.f[name] = v
	return v
}

func (e *bEngine) elem(st *bState, o *bObject, key string) bVal {
	if v, ok := o.elems[key]; ok {
		return v
	}
	var v bVal
	if o.sym != "" {
		v = e.symVal(st, o.sym+key, o.typ)
	} else {
		v = e.zeroVal(o.typ)
	}
	o.elems[key] = v
	return v
}

// obj returns the object with the given id in this state, re-creating a symbolic input object
// that this path has not touched yet.
func (e *bEngine) obj(st *bState, id int) *bObject {
	if o, ok := st.objs[id]; ok {
		return o
	}
	m, ok := e.reg.meta[id]
	if !ok {
		panic(verr("dangling object %d", id))
	}
	if m.arr {
		st.objs[id] = &bObject{id: id, typ: m.typ, arr: true, sym: m.name, elems: map[string]bVal{}}
	} else {
		o := &bObject{id: id, typ: m.typ, sym: m.name}
		switch m.typ.Underlying().(type) {
		case *types.Struct, *types.Array:
			o.root = &bStruct{typ: m.typ, sym: m.name, f: map[string]bVal{}}
		default:
			o.root = e.symVal(st, m.name+".*", m.typ)
		}
		st.objs[id] = o
	}
	return st.objs[id]
}

func splitPath(p string) []string {
	if p == "" {
		return nil
	}
	return strings.Split(strings.TrimPrefix(p, "/"), "/")
}

func (e *bEngine) loadAt(st *bState, p bPtr) bVal {
	if p.obj == 0 {
		panic(bPathEnd{"nil pointer dereference"})
	}
	o := e.obj(st, p.obj)
	comps := splitPath(p.path)
	var cur bVal
	if o.arr {
		if len(comps) == 0 {
			// the whole array as a value: its elements so far, the others materialise under the same names
			av := &bStruct{typ: types.NewArray(o.typ, 0), sym: o.sym, f: map[string]bVal{}, ver: o.ver}
			for k, ev := range o.elems {
				av.f[k] = ev
			}
			return av
		}
		cur = e.elem(st, o, comps[0])
		comps = comps[1:]
	} else {
		cur = o.root
	}
	for _, c := range comps {
		sv, ok := cur.(*bStruct)
		if !ok {
			panic(verr("path %s through non-struct %s", p.path, describeVal(cur)))
		}
		cur = e.field(st, sv, c)
	}
	return cur
}

func (e *bEngine) storeAt(st *bState, p bPtr, v bVal) {
	if p.obj == 0 {
		panic(bPathEnd{"nil pointer dereference"})
	}
	if strings.Contains(p.path, "[?") {
		panic(verr("store at a symbolic index (%s): give the contract a case/unwind that makes it concrete", p.path))
	}
	o := e.obj(st, p.obj)
	comps := splitPath(p.path)
	v = cloneVal(v)
	if o.arr {
		o.ver++
		if len(comps) == 0 {
			// a whole array value stored through a pointer to the array
			o.elems = map[string]bVal{}
			if av, ok := v.(*bStruct); ok {
				for k, ev := range av.f {
					o.elems[k] = ev
				}
				if av.sym != "" {
					o.sym = av.sym
				}
			}
			return
		}
		if len(comps) == 1 {
			o.elems[comps[0]] = v
			if isWordType(o.typ) {
				// a residue of an RNS scalar written directly: whatever ring element the array stood for, it
				// need not any more
				for _, g := range []string{"val", "mexp", "ntt", "uni"} {
					arr := e.ghostArr(st, g)
					st.ghost[g] = Store(arr, ConstI(int64(o.id)), Var(e.freshName(g), SInt))
				}
			}
			return
		}
		cur := e.elem(st, o, comps[0])
		e.storeIn(st, cur, comps[1:], v)
		return
	}
	if len(comps) == 0 {
		o.root = v
		return
	}
	e.storeIn(st, o.root, comps, v)
}

func (e *bEngine) storeIn(st *bState, cur bVal, comps []string, v bVal) {
	for i, c := range comps {
		sv, ok := cur.(*bStruct)
		if !ok {
			panic(verr("store through non-struct"))
		}
		e.storeCount++
		sv.ver = e.storeCount
		if i == len(comps)-1 {
			sv.f[c] = v
			return
		}
		cur = e.field(st, sv, c)
	}
}

type bPathEnd struct{ why string }

// ---------- scalars ----------

func bConst(c *ssa.Const, e *bEngine) bVal {
	if c.Value == nil {
		return e.zeroVal(c.Type())
	}
	switch c.Value.Kind() {
	case constant.Int:
		b, _ := new(big.Int).SetString(c.Value.ExactString(), 10)
		return bScalar{Const(b)}
	case constant.Bool:
		return bScalar{Bool(constant.BoolVal(c.Value))}
	}
	return bOpaque{typ: c.Type(), name: "const"}
}

func (e *bEngine) get(st *bState, fr *bFrame, v ssa.Value) bVal {
	switch x := v.(type) {
	case *ssa.Const:
		return bConst(x, e)
	case *ssa.Function:
		return bFuncVal{name: x.String(), fn: x}
	case *ssa.Global:
		id := e.reg.idFor("global:" + x.String())
		if _, ok := st.objs[id]; !ok {
			et := deref(x.Type())
			o := &bObject{id: id, typ: et, sym: "global:" + x.Name()}
			o.root = e.symVal(st, "global:"+x.Name(), et)
			if _, isI := et.Underlying().(*types.Interface); isI && x.Pkg != nil && !strings.HasPrefix(x.Pkg.Pkg.Path(), modPath) && isErrorType(et) {
				// the error variables of the standard library (io.EOF, io.ErrUnexpectedEOF ...) are not nil
				o.root = &bIface{val: bOpaque{name: "error:" + x.Name()}}
			}
			st.objs[id] = o
		}
		return bPtr{obj: id}
	case *ssa.Builtin:
		return bFuncVal{name: x.Name()}
	}
	if val, ok := fr.vals[v]; ok {
		if s, ok := val.(bScalar); ok {
			return bScalar{st.norm(s.t)}
		}
		return val
	}
	panic(verr("no value for %s (%T) in %s", v.Name(), v, fr.fn.(*ssa.Function).String()))
}

func asScalar(v bVal) (*Term, bool) {
	s, ok := v.(bScalar)
	if !ok {
		return nil, false
	}
	return s.t, true
}

func (e *bEngine) binop(st *bState, op token.Token, x, y bVal, typ types.Type) bVal {
	a, ok1 := asScalar(x)
	b, ok2 := asScalar(y)
	if ok1 && ok2 && (a == nil || b == nil) {
		panic(verr("internal: scalar without a term in %s", op))
	}
	if ok1 && ok2 {
		if a.Sort == SBool || b.Sort == SBool {
			switch op {
			case token.EQL:
				return bScalar{Eq(a, b)}
			case token.NEQ:
				return bScalar{Not(Eq(a, b))}
			case token.AND, token.LAND:
				return bScalar{And(a, b)}
			case token.OR, token.LOR:
				return bScalar{Or(a, b)}
			}
		} else {
			switch op {
			case token.ADD:
				return bScalar{Add(a, b)}
			case token.SUB:
				return bScalar{Sub(a, b)}
			case token.MUL:
				// a product of two non-constant unsigned machine integers wraps (a running power kept in a uint64)
				if k, ok := intKindOf(typ); ok && !k.signed && k.bits > 0 && !a.IsConst() && !b.IsConst() {
					return bScalar{Mod(Mul(a, b), Const(pow2(k.bits)))}
				}
				return bScalar{Mul(a, b)}
			case token.QUO:
				if b.IsConst() && b.Val.Sign() > 0 {
					return bScalar{Div(a, b)}
				}
			case token.REM:
				if b.IsConst() && b.Val.Sign() > 0 {
					return bScalar{Mod(a, b)}
				}
			case token.AND:
				if b.IsConst() && b.Val.Sign() >= 0 {
					m := new(big.Int).Add(b.Val, bigOne)
					if new(big.Int).And(m, b.Val).Sign() == 0 {
						return bScalar{Mod(a, Const(m))}
					}
				}
			case token.SHL:
				if b.IsConst() && b.Val.IsInt64() && b.Val.Int64() < 256 && b.Val.Sign() >= 0 {
					return bScalar{MulC(pow2(int(b.Val.Int64())), a)}
				}
			case token.SHR:
				if b.IsConst() && b.Val.IsInt64() && b.Val.Int64() < 256 && b.Val.Sign() >= 0 {
					return bScalar{Div(a, Const(pow2(int(b.Val.Int64()))))}
				}
			case token.EQL:
				return bScalar{Eq(a, b)}
			case token.NEQ:
				return bScalar{Ne(a, b)}
			case token.LSS:
				return bScalar{Lt(a, b)}
			case token.LEQ:
				return bScalar{Le(a, b)}
			case token.GTR:
				return bScalar{Gt(a, b)}
			case token.GEQ:
				return bScalar{Ge(a, b)}
			}
		}
	}
	// pointer / nil comparisons
	if op == token.EQL || op == token.NEQ {
		if t, ok := e.refEq(x, y); ok {
			if op == token.NEQ {
				t = Not(t)
			}
			return bScalar{t}
		}
	}
	// anything else: an unconstrained value of the result type (machine-level detail not modelled)
	e.note("unmodelled binary operator " + op.String() + " yields an unconstrained value")
	return e.symVal(st, e.freshName("binop"), typ)
}

func (e *bEngine) refEq(x, y bVal) (*Term, bool) {
	isNil := func(v bVal) (known bool, nilp bool) {
		switch a := v.(type) {
		case bPtr:
			if a.nilv != nil {
				return false, false
			}
			return true, a.obj == 0
		case bSlice:
			return true, a.nil_
		case *bIface:
			if a.isNil {
				return true, true
			}
			if a.dyn != nil || a.val != nil {
				return true, false
			}
			return false, false
		}
		return false, false
	}
	for _, pr := range [][2]bVal{{x, y}, {y, x}} {
		if op, ok := pr[0].(bOpaque); ok {
			t, okT := opaqueNil(op)
			if !okT {
				continue
			}
			if k, n := isNil(pr[1]); k && n {
				return t, true
			}
			if oq, ok := pr[1].(bOpaque); ok {
				if tq, ok := opaqueNil(oq); ok && tq.IsTrue() {
					return t, true
				}
			}
		}
	}
	// a possibly-nil pointer against nil
	for _, pr := range [][2]bVal{{x, y}, {y, x}} {
		if pp, ok := pr[0].(bPtr); ok && pp.nilv != nil {
			if k, n := isNil(pr[1]); k && n {
				return pp.nilv, true
			}
		}
	}
	if px, ok := x.(bPtr); ok {
		if py, ok := y.(bPtr); ok {
			return Bool(px.obj == py.obj && px.path == py.path), true
		}
	}
	k1, n1 := isNil(x)
	k2, n2 := isNil(y)
	if k1 && k2 && (n1 || n2) {
		return Bool(n1 == n2), true
	}
	// an interface value of unknown dynamic type compared with nil: its nil-ness is a symbolic boolean
	if k1 && n1 {
		if iv, ok := y.(*bIface); ok && iv.sym != "" {
			return Var(iv.sym+".isnil", SBool), true
		}
	}
	if k2 && n2 {
		if iv, ok := x.(*bIface); ok && iv.sym != "" {
			return Var(iv.sym+".isnil", SBool), true
		}
	}
	return nil, false
}

// ---------- ghost state ----------

func (e *bEngine) ghostArr(st *bState, name string) *Term {
	if g, ok := st.ghost[name]; ok {
		return g
	}
	g := Var("G."+name, SArr)
	st.ghost[name] = g
	return g
}

func (e *bEngine) polyID(st *bState, v bVal) (int, bool) {
	sv, ok := v.(*bStruct)
	if !ok {
		// a slice of machine words (an RNS scalar: one residue per modulus) stands for a ring element too (a
		// constant polynomial); its identity is its backing array
		if sl, ok := v.(bSlice); ok && !sl.nil_ {
			if o, ok := st.objs[sl.arr]; ok && o.arr && isWordType(o.typ) {
				return sl.arr, true
			}
			if m, ok := e.reg.meta[sl.arr]; ok && m.arr && isWordType(m.typ) {
				return sl.arr, true
			}
			return 0, false
		}
		if p, ok := v.(bPtr); ok && p.obj != 0 {
			return e.polyID(st, e.loadAt(st, p))
		}
		return 0, false
	}
	if fieldType(sv.typ, "Coeffs") == nil {
		return 0, false
	}
	c := e.field(st, sv, "Coeffs")
	sl, ok := c.(bSlice)
	if !ok || sl.nil_ {
		return 0, false
	}
	return sl.arr, true
}

var _ = types.Typ

// nonNil: a dereference of a possibly-nil pointer continues on the path where it is not nil
// (the other path ends in a run-time panic).
func (e *bEngine) nonNil(st *bState, p bPtr) bPtr {
	if p.nilv != nil {
		if e.nilsafe {
			// `nilsafe`: a dereference of a possibly-nil pointer is an obligation, not an assumption
			e.oblige(st, "nil-deref", "", Not(p.nilv), "")
		}
		st.assumeBranch(Not(p.nilv))
		p.nilv = nil
	}
	return p
}

// sameVal: the two values are equal, component by component (spec builtin sameval).
func (e *bEngine) sameVal(st *bState, x, y bVal, what string) *Term {
	switch a := x.(type) {
	case bScalar:
		if b, ok := y.(bScalar); ok && a.t.Sort == b.t.Sort {
			return st.norm(Eq(a.t, b.t))
		}
	case bPtr:
		if b, ok := y.(bPtr); ok {
			if t, ok := e.refEq(a, b); ok {
				return st.norm(t)
			}
		}
	case bSlice:
		if b, ok := y.(bSlice); ok {
			if a.nil_ || b.nil_ {
				return Bool(a.nil_ && b.nil_)
			}
			if a.arr != b.arr {
				return TFalse
			}
			return st.norm(Eq(a.len, b.len))
		}
	case bOpaque:
		if b, ok := y.(bOpaque); ok {
			return Bool(a.name == b.name)
		}
	case *bIface:
		if b, ok := y.(*bIface); ok {
			if a.isNil || b.isNil {
				return Bool(a.isNil && b.isNil)
			}
			if a.sym != "" && a.sym == b.sym {
				return TTrue
			}
			if a.val != nil && b.val != nil && types.Identical(a.dyn, b.dyn) {
				return e.sameVal(st, a.val, b.val, what)
			}
			return TFalse
		}
	case *bStruct:
		b, ok := y.(*bStruct)
		if !ok {
			break
		}
		if a.sym != "" && a.sym == b.sym && a.ver == b.ver {
			return TTrue
		}
		var cs []*Term
		switch u := a.typ.Underlying().(type) {
		case *types.Struct:
			for i := 0; i < u.NumFields(); i++ {
				n := u.Field(i).Name()
				cs = append(cs, e.sameVal(st, e.field(st, a, n), e.field(st, b, n), what+"."+n))
			}
		case *types.Array:
			if u.Len() > 64 {
				panic(verr("spec(B): sameval on an array of %d elements (%s)", u.Len(), what))
			}
			for i := int64(0); i < u.Len(); i++ {
				n := fmt.Sprintf("[%d]", i)
				cs = append(cs, e.sameVal(st, e.field(st, a, n), e.field(st, b, n), what+n))
			}
		}
		return And(cs...)
	}
	panic(verr("spec(B): sameval: %s: values of different or unsupported shape (%s / %s)", what, describeVal(x), describeVal(y)))
}

package rlwe

import (
	"testing"
)

// EncryptZero / Encrypt return an error for receivers they cannot handle. A degree-0 receiver is
// accepted by the secret-key encryptor (compressed ciphertext); the public-key encryptor must either
// handle it or return an error, not crash with an index-out-of-range runtime panic.
func TestC03PkEncryptDegree0(t *testing.T) {
	for _, p := range [][]uint64{nil, {0x3ffffffb80001}} {
		params, err := NewParametersFromLiteral(ParametersLiteral{
			LogN: 9,
			Q:    []uint64{0x200000440001, 0x7fff80001},
			P:    p,
		})
		if err != nil {
			t.Fatal(err)
		}

		kgen := NewKeyGenerator(params)
		sk, pk := kgen.GenKeyPairNew()

		// accepted with a secret key
		if err := NewEncryptor(params, sk).EncryptZero(NewCiphertext(params, 0, params.MaxLevel())); err != nil {
			t.Fatal(err)
		}

		func() {
			defer func() {
				if e := recover(); e != nil {
					t.Errorf("#P=%d: pk encryptor with degree-0 receiver panics: %v", len(p), e)
				}
			}()
			err := NewEncryptor(params, pk).EncryptZero(NewCiphertext(params, 0, params.MaxLevel()))
			t.Logf("#P=%d: err = %v", len(p), err)
		}()
	}
}

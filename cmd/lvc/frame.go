package main

// Engine F: frame / ownership obligations over go/ssa.
//
// For every function of the module a *mod summary* is computed bottom-up to a fixpoint:
// which memory, described by its origin (a parameter – optionally refined by the first field
// selected from it –, a global, or "unknown"), the function may write, which parameters the
// result may point into, and which parameter memory may end up pointing into which other.
// The analysis is flow-insensitive and (beyond the first field of a parameter) field-insensitive,
// i.e. it over-approximates the writes; an obligation
//
//	writes(F) ⊆ assigns(F)
//
// that it discharges therefore holds for every execution, under the assumptions listed in
// frameAssumptions.  Contracts (`frame out=...`, `type T owned=... shared=...`) are kept in the
// build-tagged comment files of /repo like all other contracts.

import (
	"fmt"
	"go/token"
	"go/types"
	"sort"
	"strings"

	"golang.org/x/tools/go/packages"
	"golang.org/x/tools/go/ssa"
	"golang.org/x/tools/go/ssa/ssautil"
)

var frameAssumptions = []string{
	"frame engine: standard-library callees are summarised by a fixed table (io.Reader.Read/io.ReadFull/copy/binary.Read/json.Unmarshal/sort/rand write their buffer argument, math/big methods write their receiver, everything else writes nothing reachable from its arguments)",
	"frame engine: function values whose target cannot be resolved (callbacks) are assumed not to write memory reachable from their pointer arguments unless resolved by class-hierarchy analysis over the module",
	"frame engine: append is treated as returning memory that may alias its first argument but not as a write to it (spare capacity beyond len is not observable through the argument)",
	"frame engine: unsafe pointer retyping and reflection are not modelled (reported as out-of-subset when they occur in a function under frame contract)",
	"frame engine: origins are parameters refined by the first selected field; writes are attributed to the designated output by name, so a write that reaches an input only because the caller passed the same object as output is attributed to the output",
}

type originSet map[string]struct{}

func (s originSet) add(o string) bool {
	if _, ok := s[o]; ok {
		return false
	}
	s[o] = struct{}{}
	return true
}

func (s originSet) addAll(t originSet) bool {
	ch := false
	for o := range t {
		if s.add(o) {
			ch = true
		}
	}
	return ch
}

func (s originSet) sorted() []string {
	var out []string
	for o := range s {
		out = append(out, o)
	}
	sort.Strings(out)
	return out
}

// origin keys:  p<i>  |  p<i>.<field>  |  a<n> (allocation in this function)  |  g:<name>  |  u
func paramOrigin(i int, field string) string {
	if field == "" {
		return fmt.Sprintf("p%d", i)
	}
	return fmt.Sprintf("p%d.%s", i, field)
}

func isParamOrigin(o string) bool { return strings.HasPrefix(o, "p") }

func splitParamOrigin(o string) (int, string) {
	rest := o[1:]
	f := ""
	if i := strings.Index(rest, "."); i >= 0 {
		f = rest[i+1:]
		rest = rest[:i]
	}
	n := 0
	fmt.Sscanf(rest, "%d", &n)
	return n, f
}

const maxPathDepth = 5

// refine extends the access path of a parameter origin by one field (k-limited).
func refine(o, field string) string {
	if o != "u" && o != "fresh" && field != "" && strings.Count(o, ".") < maxPathDepth {
		return o + "." + field
	}
	return o
}

// compose appends a (possibly multi-field) path to an origin.
func compose(o, path string) string {
	if path == "" {
		return o
	}
	for _, f := range strings.Split(path, ".") {
		o = refine(o, f)
	}
	return o
}

// related: one origin is a prefix of the other (the coarser one covers the finer one).
func related(a, b string) bool {
	return a == b || strings.HasPrefix(a, b+".") || strings.HasPrefix(b, a+".")
}

type writeWitness struct {
	Pos  token.Pos
	Via  string // callee chain
}

type modSummary struct {
	writes  originSet               // param / global / u origins written
	witness map[string]writeWitness // one witness per written origin
	ret     originSet               // param origins (and "fresh") the results may point into
	links   map[string]originSet    // location label -> labels that pointers stored there may point to
	copies  map[string]originSet    // location label -> labels whose contents were copied there
	done    bool
}

func newSummary() *modSummary {
	return &modSummary{writes: originSet{}, witness: map[string]writeWitness{}, ret: originSet{}, links: map[string]originSet{}, copies: map[string]originSet{}}
}

type FrameProg struct {
	fset   *token.FileSet
	prog   *ssa.Program
	pkgs   []*packages.Package
	sum    map[*ssa.Function]*modSummary
	funcs  []*ssa.Function // module functions with bodies
	impl   map[string][]*ssa.Function // interface method name -> module methods with that name (CHA by name+signature)
	notes  map[string]bool
	callers map[*ssa.Function]map[*ssa.Function]bool
	implCache map[string][]*ssa.Function
	namedTypes []types.Type
	roots []*ssa.Function
	steps  int
	reachable int
}

func isModuleFunc(f *ssa.Function) bool {
	if f.Pkg != nil && f.Pkg.Pkg != nil {
		return strings.HasPrefix(f.Pkg.Pkg.Path(), modPath)
	}
	// instantiated generics / wrappers / closures
	if f.Origin() != nil {
		return isModuleFunc(f.Origin())
	}
	if f.Parent() != nil {
		return isModuleFunc(f.Parent())
	}
	if o := f.Object(); o != nil && o.Pkg() != nil {
		return strings.HasPrefix(o.Pkg().Path(), modPath)
	}
	return false
}

func LoadFrameProg(repo string) (*FrameProg, error) {
	fset := token.NewFileSet()
	cfg := &packages.Config{Mode: packages.LoadAllSyntax, Dir: repo, Fset: fset, BuildFlags: []string{"-tags=verif"}}
	pkgs, err := packages.Load(cfg, "./...")
	if err != nil {
		return nil, err
	}
	var errs []string
	packages.Visit(pkgs, nil, func(p *packages.Package) {
		if strings.HasPrefix(p.PkgPath, modPath) {
			for _, e := range p.Errors {
				errs = append(errs, e.Error())
			}
		}
	})
	if len(errs) > 0 {
		return nil, fmt.Errorf("load errors: %s", strings.Join(errs, "; "))
	}
	prog, _ := ssautil.AllPackages(pkgs, ssa.InstantiateGenerics)
	prog.Build()
	fp := &FrameProg{fset: fset, prog: prog, pkgs: pkgs, sum: map[*ssa.Function]*modSummary{}, impl: map[string][]*ssa.Function{}, notes: map[string]bool{}, implCache: map[string][]*ssa.Function{}}
	for f := range ssautil.AllFunctions(prog) {
		if len(f.Blocks) == 0 || !isModuleFunc(f) {
			continue
		}
		fp.funcs = append(fp.funcs, f)
		fp.sum[f] = newSummary()
		if f.Signature.Recv() != nil {
			fp.impl[f.Name()] = append(fp.impl[f.Name()], f)
		}
	}
	sort.Slice(fp.funcs, func(i, j int) bool { return fp.funcs[i].String() < fp.funcs[j].String() })
	packages.Visit(pkgs, nil, func(p *packages.Package) {
		if !strings.HasPrefix(p.PkgPath, modPath) || p.Types == nil {
			return
		}
		sc := p.Types.Scope()
		for _, n := range sc.Names() {
			if tn, ok := sc.Lookup(n).(*types.TypeName); ok && !tn.IsAlias() {
				if nt, ok := tn.Type().(*types.Named); ok && nt.TypeParams().Len() == 0 {
					if _, isIface := nt.Underlying().(*types.Interface); !isIface {
						fp.namedTypes = append(fp.namedTypes, nt)
					}
				}
			}
		}
	})
	return fp, nil
}

// Solve computes the summaries of every function reachable from roots: one pass in
// callee-first order, then a worklist until the summaries are stable.
func (fp *FrameProg) Solve(roots []*ssa.Function) {
	fp.callers = map[*ssa.Function]map[*ssa.Function]bool{}
	// reachability + post-order over the (CHA) call graph
	visited := map[*ssa.Function]bool{}
	var order []*ssa.Function
	var visit func(f *ssa.Function)
	visit = func(f *ssa.Function) {
		if visited[f] || len(f.Blocks) == 0 || !isModuleFunc(f) {
			return
		}
		visited[f] = true
		for _, b := range f.Blocks {
			for _, ins := range b.Instrs {
				switch x := ins.(type) {
				case *ssa.MakeClosure:
					if fn, ok := x.Fn.(*ssa.Function); ok {
						visit(fn)
					}
				case ssa.CallInstruction:
					c := x.Common()
					if c.IsInvoke() {
						for _, fn := range fp.implementations(c.Value.Type(), c.Method) {
							visit(fn)
						}
					} else if fn, ok := c.Value.(*ssa.Function); ok {
						visit(fn)
					}
				}
			}
		}
		order = append(order, f)
	}
	for _, r := range roots {
		visit(r)
	}
	fp.reachable = len(order)
	inQueue := map[*ssa.Function]bool{}
	queue := append([]*ssa.Function(nil), order...)
	for _, f := range queue {
		inQueue[f] = true
		if fp.sum[f] == nil {
			fp.sum[f] = newSummary()
		}
	}
	steps := 0
	for len(queue) > 0 {
		f := queue[0]
		queue = queue[1:]
		inQueue[f] = false
		steps++
		if steps > 200*len(order)+1000 {
			fp.notes["frame engine: summary fixpoint not reached"] = true
			break
		}
		if fp.analyze(f) {
			for c := range fp.callers[f] {
				if !inQueue[c] && visited[c] {
					inQueue[c] = true
					queue = append(queue, c)
				}
			}
		}
	}
	fp.steps = steps
}

func pointerLike(t types.Type) bool {
	switch u := t.Underlying().(type) {
	case *types.Pointer, *types.Slice, *types.Map, *types.Chan, *types.Interface, *types.Signature:
		return true
	case *types.Struct:
		for i := 0; i < u.NumFields(); i++ {
			if pointerLike(u.Field(i).Type()) {
				return true
			}
		}
	case *types.Array:
		return pointerLike(u.Elem())
	case *types.Tuple:
		for i := 0; i < u.Len(); i++ {
			if pointerLike(u.At(i).Type()) {
				return true
			}
		}
	case *types.TypeParam:
		return true
	case *types.Basic:
		return u.Kind() == types.UnsafePointer
	}
	return false
}

type funcState struct {
	fp       *FrameProg
	f        *ssa.Function
	orig     map[ssa.Value]originSet
	contains map[string]originSet // location label -> labels of the objects that pointers stored there may point to
	copies   map[string]originSet // location label -> labels whose contents were copied there (struct assignment)
	writes   originSet
	witness  map[string]writeWitness
	allocN   map[ssa.Value]string
	changed  bool
}

func (s *funcState) of(v ssa.Value) originSet {
	if v == nil {
		return nil
	}
	switch x := v.(type) {
	case *ssa.Const:
		return nil
	case *ssa.Global:
		return originSet{"g:" + x.String(): {}}
	case *ssa.Function:
		return nil
	case *ssa.Builtin:
		return nil
	}
	if o, ok := s.orig[v]; ok {
		return o
	}
	return nil
}

func (s *funcState) set(v ssa.Value, o originSet) {
	if len(o) == 0 {
		return
	}
	cur, ok := s.orig[v]
	if !ok {
		cur = originSet{}
		s.orig[v] = cur
	}
	if cur.addAll(o) {
		s.changed = true
	}
}

func refTyped(t types.Type) bool {
	switch u := t.Underlying().(type) {
	case *types.Pointer, *types.Slice, *types.Map, *types.Chan, *types.Interface, *types.Signature, *types.TypeParam:
		return true
	case *types.Basic:
		return u.Kind() == types.UnsafePointer
	}
	return false
}

func depth(o string) int { return strings.Count(o, ".") }

// linksAt: the labels a pointer stored at location a may point to, besides a.* itself.
// Links recorded at a prefix of a (a coarser location) apply; links recorded at extensions
// apply only when a is truncated.  Struct copies redirect the suffix to the source.
func (s *funcState) linksAt(a string, seen map[string]bool, out originSet) {
	if seen[a] {
		return
	}
	seen[a] = true
	trunc := depth(a) >= maxPathDepth
	for d, c := range s.contains {
		if d == a || strings.HasPrefix(a, d+".") || (trunc && strings.HasPrefix(d, a+".")) {
			out.addAll(c)
		}
	}
	for d, c := range s.copies {
		if d == a || strings.HasPrefix(a, d+".") {
			suffix := strings.TrimPrefix(a[len(d):], ".")
			for src := range c {
				x := compose(src, suffix)
				out.add(refine(x, "*"))
				s.linksAt(x, seen, out)
			}
		} else if trunc && strings.HasPrefix(d, a+".") {
			for src := range c {
				out.add(src)
				s.linksAt(src, seen, out)
			}
		}
	}
}

// loadVal: the value of type t read from the locations A.
func (s *funcState) loadVal(A originSet, t types.Type) originSet {
	if len(A) == 0 {
		return nil
	}
	if !refTyped(t) {
		return A // a struct/array value: a copy of the contents of A
	}
	out := originSet{}
	for a := range A {
		out.add(refine(a, "*"))
		s.linksAt(a, map[string]bool{}, out)
	}
	return out
}

// composeResolved follows a callee access path from the caller's labels, resolving every
// dereference through the caller's own links and struct copies.
func (s *funcState) composeResolved(A originSet, path string) originSet {
	if path == "" || len(A) == 0 {
		return A
	}
	cur := A
	for _, sel := range strings.Split(path, ".") {
		next := originSet{}
		if sel == "*" {
			for a := range cur {
				next.add(refine(a, "*"))
				s.linksAt(a, map[string]bool{}, next)
			}
		} else {
			for a := range cur {
				next.add(refine(a, sel))
			}
		}
		cur = next
	}
	return cur
}

// reach: everything transitively reachable from the given labels (conservative closure).
func (s *funcState) reach(o originSet) originSet {
	out := originSet{}
	var stack []string
	for x := range o {
		if out.add(x) {
			stack = append(stack, x)
		}
	}
	for len(stack) > 0 {
		x := stack[len(stack)-1]
		stack = stack[:len(stack)-1]
		for _, m := range []map[string]originSet{s.contains, s.copies} {
			for d, c := range m {
				if !related(d, x) {
					continue
				}
				for y := range c {
					if out.add(y) {
						stack = append(stack, y)
					}
				}
			}
		}
	}
	return out
}

func (s *funcState) copyEdge(dst, src originSet) {
	if len(src) == 0 {
		return
	}
	for d := range dst {
		c, ok := s.copies[d]
		if !ok {
			c = originSet{}
			s.copies[d] = c
		}
		for x := range src {
			if x != d && c.add(x) {
				s.changed = true
			}
		}
	}
}

// storeVal records that val (of type t) is stored at the locations dst.
func (s *funcState) storeVal(dst originSet, val originSet, t types.Type) {
	if !pointerLike(t) {
		return
	}
	if refTyped(t) {
		s.link(dst, val)
	} else {
		s.copyEdge(dst, val)
	}
}

func (s *funcState) write(o originSet, pos token.Pos, via string) {
	for x := range o {
		if strings.HasPrefix(x, "a") {
			continue // memory allocated in this function
		}
		if s.writes.add(x) {
			s.changed = true
			s.witness[x] = writeWitness{pos, via}
		}
	}
}

func (s *funcState) link(dst, src originSet) {
	if len(src) == 0 {
		return
	}
	for d := range dst {
		c, ok := s.contains[d]
		if !ok {
			c = originSet{}
			s.contains[d] = c
		}
		for x := range src {
			if x != d && c.add(x) {
				s.changed = true
			}
		}
	}
}

func fieldName(t types.Type, idx int) string {
	if p, ok := t.Underlying().(*types.Pointer); ok {
		t = p.Elem()
	}
	if st, ok := t.Underlying().(*types.Struct); ok && idx < st.NumFields() {
		return st.Field(idx).Name()
	}
	return ""
}

func refineSet(o originSet, field string) originSet {
	out := originSet{}
	for x := range o {
		out.add(refine(x, field))
	}
	return out
}

// analyze recomputes the summary of f; returns true if it changed.
func (fp *FrameProg) analyze(f *ssa.Function) bool {
	s := &funcState{fp: fp, f: f, orig: map[ssa.Value]originSet{}, contains: map[string]originSet{}, copies: map[string]originSet{}, writes: originSet{}, witness: map[string]writeWitness{}, allocN: map[ssa.Value]string{}}
	for i, p := range f.Params {
		if pointerLike(p.Type()) {
			s.orig[p] = originSet{paramOrigin(i, ""): {}}
		}
	}
	for i, fv := range f.FreeVars {
		// free variables of closures are numbered after the parameters
		s.orig[fv] = originSet{paramOrigin(len(f.Params)+i, ""): {}}
	}
	nAlloc := 0
	newAlloc := func(v ssa.Value) originSet {
		n, ok := s.allocN[v]
		if !ok {
			nAlloc++
			n = fmt.Sprintf("a%d", nAlloc)
			s.allocN[v] = n
		}
		return originSet{n: {}}
	}
	for iter := 0; iter < 30; iter++ {
		s.changed = false
		for _, b := range f.Blocks {
			for _, ins := range b.Instrs {
				switch x := ins.(type) {
				case *ssa.Alloc:
					s.set(x, newAlloc(x))
				case *ssa.MakeSlice:
					s.set(x, newAlloc(x))
				case *ssa.MakeMap:
					s.set(x, newAlloc(x))
				case *ssa.MakeChan:
					s.set(x, newAlloc(x))
				case *ssa.FieldAddr:
					s.set(x, refineSet(s.of(x.X), fieldName(x.X.Type(), x.Field)))
				case *ssa.Field:
					if pointerLike(x.Type()) {
						s.set(x, s.loadVal(refineSet(s.of(x.X), fieldName(x.X.Type(), x.Field)), x.Type()))
					}
				case *ssa.IndexAddr:
					s.set(x, s.of(x.X))
				case *ssa.Index:
					if pointerLike(x.Type()) {
						s.set(x, s.loadVal(s.of(x.X), x.Type()))
					}
				case *ssa.Lookup:
					if pointerLike(x.Type()) {
						s.set(x, s.loadVal(s.of(x.X), x.Type()))
					}
				case *ssa.Slice:
					s.set(x, s.of(x.X))
				case *ssa.UnOp:
					if x.Op == token.MUL { // load
						if pointerLike(x.Type()) {
							s.set(x, s.loadVal(s.of(x.X), x.Type()))
						}
					} else if x.Op == token.ARROW {
						if pointerLike(x.Type()) {
							s.set(x, s.loadVal(s.of(x.X), x.Type()))
						}
					}
				case *ssa.Phi:
					for _, e := range x.Edges {
						s.set(x, s.of(e))
					}
				case *ssa.ChangeType:
					s.set(x, s.of(x.X))
				case *ssa.Convert:
					if pointerLike(x.Type()) {
						s.set(x, s.of(x.X))
					}
				case *ssa.MultiConvert:
					s.set(x, s.of(x.X))
				case *ssa.ChangeInterface:
					s.set(x, s.of(x.X))
				case *ssa.MakeInterface:
					s.set(x, s.of(x.X))
				case *ssa.SliceToArrayPointer:
					s.set(x, s.of(x.X))
				case *ssa.TypeAssert:
					s.set(x, s.of(x.X))
				case *ssa.Extract:
					if pointerLike(x.Type()) {
						s.set(x, s.of(x.Tuple))
					}
				case *ssa.Select:
					// channels are not modelled
				case *ssa.Range:
					s.set(x, s.of(x.X))
				case *ssa.Next:
					if pointerLike(x.Type()) {
						s.set(x, s.reach(s.of(x.Iter)))
					}
				case *ssa.MakeClosure:
					// the closure value carries the origins of its bindings; its effects are applied
					// where it is created (it is assumed to be called only while those bindings live)
					o := originSet{}
					for _, bnd := range x.Bindings {
						o.addAll(s.of(bnd))
					}
					s.set(x, o)
					if fn, ok := x.Fn.(*ssa.Function); ok {
						s.applyCallee(fn, nil, x.Bindings, x, x.Pos(), true)
					}
				case *ssa.Store:
					s.write(s.of(x.Addr), x.Pos(), "")
					s.storeVal(s.of(x.Addr), s.of(x.Val), x.Val.Type())
				case *ssa.MapUpdate:
					s.write(s.of(x.Map), x.Pos(), "")
					s.storeVal(s.of(x.Map), s.of(x.Value), x.Value.Type())
					s.storeVal(s.of(x.Map), s.of(x.Key), x.Key.Type())
				case *ssa.Send:
					s.link(s.of(x.Chan), s.of(x.X))
				case ssa.CallInstruction:
					s.call(x)
				case *ssa.Return:
					// handled below
				}
			}
		}
		if !s.changed {
			break
		}
	}
	// build the new summary
	ns := newSummary()
	for o := range s.writes {
		if strings.HasPrefix(o, "a") {
			continue
		}
		ns.writes.add(o)
		ns.witness[o] = s.witness[o]
	}
	for _, b := range f.Blocks {
		for _, ins := range b.Instrs {
			if r, ok := ins.(*ssa.Return); ok {
				for _, res := range r.Results {
					if !pointerLike(res.Type()) {
						continue
					}
					direct := s.of(res)
					for o := range s.reach(direct) {
						if strings.HasPrefix(o, "a") {
							ns.ret.add("fresh")
						} else if _, isDirect := direct[o]; isDirect {
							ns.ret.add(o)
						} else {
							// reachable through memory allocated here: the result may lead to it
							ns.ret.add(o)
						}
					}
				}
			}
		}
	}
	flatten := func(c originSet) originSet {
		r := originSet{}
		for x := range c {
			if strings.HasPrefix(x, "a") {
				r.add("fresh")
				for y := range s.reach(originSet{x: {}}) {
					if !strings.HasPrefix(y, "a") {
						r.add(y)
					}
				}
			} else {
				r.add(x)
			}
		}
		return r
	}
	for d, c := range s.contains {
		if strings.HasPrefix(d, "a") {
			continue
		}
		if r := flatten(c); len(r) > 0 {
			ns.links[d] = r
		}
	}
	for d, c := range s.copies {
		if strings.HasPrefix(d, "a") {
			continue
		}
		if r := flatten(c); len(r) > 0 {
			ns.copies[d] = r
		}
	}
	old := fp.sum[f]
	size := func(m *modSummary) int {
		if m == nil {
			return -1
		}
		n := len(m.writes) + len(m.ret)
		for _, v := range m.links {
			n += 1 + len(v)
		}
		for _, v := range m.copies {
			n += 1 + len(v)
		}
		return n
	}
	// summaries only grow
	if old != nil {
		for o := range old.writes {
			if ns.writes.add(o) {
				ns.witness[o] = old.witness[o]
			}
		}
		ns.ret.addAll(old.ret)
		for k, v := range old.links {
			if ns.links[k] == nil {
				ns.links[k] = originSet{}
			}
			ns.links[k].addAll(v)
		}
		for k, v := range old.copies {
			if ns.copies[k] == nil {
				ns.copies[k] = originSet{}
			}
			ns.copies[k].addAll(v)
		}
	}
	ch := size(ns) != size(old)
	fp.sum[f] = ns
	return ch
}

// mapOrigin translates a callee origin into caller origins given the argument origins.
func (s *funcState) mapOrigin(o string, args []ssa.Value, extra []ssa.Value) originSet {
	out := originSet{}
	switch {
	case o == "fresh":
		return out
	case isParamOrigin(o):
		i, f := splitParamOrigin(o)
		var v ssa.Value
		if i < len(args) {
			v = args[i]
		} else if i-len(args) < len(extra) {
			v = extra[i-len(args)]
		}
		if v != nil {
			out.addAll(s.composeResolved(s.of(v), f))
		}
	default:
		out.add(o)
	}
	return out
}

func (s *funcState) applyCallee(fn *ssa.Function, args []ssa.Value, extra []ssa.Value, result ssa.Value, pos token.Pos, closureCreation bool) {
	if s.fp.callers[fn] == nil {
		s.fp.callers[fn] = map[*ssa.Function]bool{}
	}
	s.fp.callers[fn][s.f] = true
	sum := s.fp.sum[fn]
	if sum == nil {
		return
	}
	all := append(append([]ssa.Value{}, args...), extra...)
	_ = all
	for o := range sum.writes {
		if closureCreation && isParamOrigin(o) {
			i, _ := splitParamOrigin(o)
			if i < len(fn.Params) {
				continue // writes through the closure's own parameters are attributed at its call sites
			}
			// free variable i-len(Params)
			fv := i - len(fn.Params)
			if fv < len(extra) {
				_, f := splitParamOrigin(o)
				s.write(s.composeResolved(s.of(extra[fv]), f), pos, fn.String())
			}
			continue
		}
		s.write(s.mapOrigin(o, args, extra), pos, fn.String())
	}
	if closureCreation {
		return
	}
	for d, srcs := range sum.links {
		dst := s.mapOrigin(d, args, extra)
		for src := range srcs {
			if src == "fresh" {
				continue
			}
			s.link(dst, s.mapOrigin(src, args, extra))
		}
	}
	for d, srcs := range sum.copies {
		dst := s.mapOrigin(d, args, extra)
		for src := range srcs {
			if src == "fresh" {
				continue
			}
			s.copyEdge(dst, s.mapOrigin(src, args, extra))
		}
	}
	if result != nil && pointerLike(result.Type()) {
		o := originSet{}
		for r := range sum.ret {
			if r == "fresh" {
				n, ok := s.allocN[result]
				if !ok {
					n = fmt.Sprintf("a_call%d", len(s.allocN)+1)
					s.allocN[result] = n
				}
				o.add(n)
			} else {
				o.addAll(s.mapOrigin(r, args, extra))
			}
		}
		s.set(result, o)
	}
}

func (s *funcState) call(ci ssa.CallInstruction) {
	c := ci.Common()
	var result ssa.Value
	if v, ok := ci.(ssa.Value); ok {
		result = v
	}
	pos := ci.Pos()
	if _, isGo := ci.(*ssa.Go); isGo {
		s.fp.notes["frame engine: go statements are analysed as ordinary calls"] = true
	}
	// builtins
	if b, ok := c.Value.(*ssa.Builtin); ok {
		switch b.Name() {
		case "copy":
			s.write(s.of(c.Args[0]), pos, "copy")
			if sl, ok := c.Args[0].Type().Underlying().(*types.Slice); ok && pointerLike(sl.Elem()) {
				s.storeVal(s.of(c.Args[0]), s.loadVal(s.of(c.Args[1]), sl.Elem()), sl.Elem())
			}
		case "append":
			if result != nil {
				o := originSet{}
				o.addAll(s.of(c.Args[0]))
				n, ok := s.allocN[result]
				if !ok {
					n = fmt.Sprintf("a_app%d", len(s.allocN)+1)
					s.allocN[result] = n
				}
				o.add(n)
				s.set(result, o)
				if len(c.Args) > 1 {
					if sl, ok := c.Args[1].Type().Underlying().(*types.Slice); ok && pointerLike(sl.Elem()) {
						s.storeVal(o, s.loadVal(s.of(c.Args[1]), sl.Elem()), sl.Elem())
					}
				}
			}
		case "clear":
			s.write(s.of(c.Args[0]), pos, "clear")
		case "delete":
			s.write(s.of(c.Args[0]), pos, "delete")
		}
		return
	}
	var callees []*ssa.Function
	var args []ssa.Value
	if c.IsInvoke() {
		args = append([]ssa.Value{c.Value}, c.Args...)
		// class-hierarchy analysis restricted to module types that implement the interface
		callees = s.fp.implementations(c.Value.Type(), c.Method)
		if s.stdlibInvoke(c, args, result, pos) {
			// standard interfaces (io.Reader etc.) may also be implemented by module types: continue
		}
	} else {
		args = c.Args
		switch fn := c.Value.(type) {
		case *ssa.Function:
			callees = []*ssa.Function{fn}
		case *ssa.MakeClosure:
			if f2, ok := fn.Fn.(*ssa.Function); ok {
				s.applyCallee(f2, args, fn.Bindings, result, pos, false)
				return
			}
		default:
			// dynamic call through a function value: try to resolve closures created in this function
			resolved := false
			for _, b := range s.f.Blocks {
				for _, ins := range b.Instrs {
					if mc, ok := ins.(*ssa.MakeClosure); ok {
						if f2, ok := mc.Fn.(*ssa.Function); ok && types.Identical(f2.Signature, c.Signature()) {
							s.applyCallee(f2, args, mc.Bindings, result, pos, false)
							resolved = true
						}
					}
				}
			}
			if !resolved {
				s.fp.notes["frame engine: unresolved function value called in "+s.f.String()] = true
				if result != nil && pointerLike(result.Type()) {
					o := originSet{}
					for _, a := range args {
						o.addAll(s.reach(s.of(a)))
					}
					s.set(result, o)
				}
			}
			return
		}
	}
	for _, fn := range callees {
		if len(fn.Blocks) == 0 || !isModuleFunc(fn) {
			s.stdlibCall(fn, args, result, pos)
			continue
		}
		s.applyCallee(fn, args, nil, result, pos, false)
	}
}

// implementations: methods of module types implementing the interface type it.
func (fp *FrameProg) implementations(it types.Type, m *types.Func) []*ssa.Function {
	key := types.TypeString(it, nil) + "." + m.Name()
	if r, ok := fp.implCache[key]; ok {
		return r
	}
	iface, ok := it.Underlying().(*types.Interface)
	var out []*ssa.Function
	if ok {
		for _, T := range fp.namedTypes {
			for _, cand := range []types.Type{T, types.NewPointer(T)} {
				if !types.Implements(cand, iface) {
					continue
				}
				sel := fp.prog.MethodSets.MethodSet(cand).Lookup(m.Pkg(), m.Name())
				if sel == nil {
					continue
				}
				if fn := fp.prog.MethodValue(sel); fn != nil {
					out = append(out, fn)
				}
				break
			}
		}
	}
	fp.implCache[key] = out
	return out
}

func stripRecv(sig *types.Signature) *types.Signature {
	return types.NewSignatureType(nil, nil, nil, sig.Params(), sig.Results(), sig.Variadic())
}

// stdlibInvoke: interface methods of standard interfaces with known effects.
func (s *funcState) stdlibInvoke(c *ssa.CallCommon, args []ssa.Value, result ssa.Value, pos token.Pos) bool {
	switch c.Method.Name() {
	case "Read", "ReadAt", "ReadFull":
		if len(c.Args) >= 1 {
			if _, ok := c.Args[0].Type().Underlying().(*types.Slice); ok {
				s.write(s.of(c.Args[0]), pos, "io.Reader."+c.Method.Name())
			}
		}
		s.write(s.of(c.Value), pos, "io.Reader.Read(receiver state)")
		return true
	case "Write", "WriteString", "WriteByte", "Flush", "Reset", "Discard", "Peek", "Sum":
		s.write(s.of(c.Value), pos, "stream receiver state")
		if result != nil && pointerLike(result.Type()) {
			s.set(result, s.of(c.Value))
		}
		return true
	}
	if result != nil && pointerLike(result.Type()) {
		o := originSet{}
		for _, a := range args {
			o.addAll(s.reach(s.of(a)))
		}
		s.set(result, o)
	}
	return false
}

// stdlibCall: summary table for functions outside the module.
func (s *funcState) stdlibCall(fn *ssa.Function, args []ssa.Value, result ssa.Value, pos token.Pos) {
	name := fn.String()
	pkg := ""
	if fn.Pkg != nil {
		pkg = fn.Pkg.Pkg.Path()
	} else if o := fn.Object(); o != nil && o.Pkg() != nil {
		pkg = o.Pkg().Path()
	}
	recvWrites := false
	var bufArgs []int
	switch {
	case pkg == "math/big" && fn.Signature.Recv() != nil:
		// z.Op(x, y): writes the receiver, returns it; accessors write nothing
		switch fn.Name() {
		case "Sign", "Cmp", "CmpAbs", "Int64", "Uint64", "IsInt64", "IsUint64", "BitLen", "Bit", "String", "Text", "Bytes", "Bits",
			"ProbablyPrime", "TrailingZeroBits", "Float64", "Int", "Prec", "MinPrec", "Mode", "Acc", "IsInf", "IsInt", "Signbit", "MantExp", "Append", "Format", "FillBytes", "Num", "Denom", "IsInt ":
		default:
			recvWrites = true
		}
	case pkg == "io" && (fn.Name() == "ReadFull" || fn.Name() == "ReadAtLeast"):
		bufArgs = []int{1}
		s.write(s.of(args[0]), pos, name)
	case pkg == "encoding/binary" && fn.Name() == "Read":
		bufArgs = []int{2}
	case pkg == "encoding/binary" && strings.HasPrefix(fn.Name(), "Put"):
		bufArgs = []int{1}
	case pkg == "encoding/json" && (fn.Name() == "Unmarshal"):
		bufArgs = []int{1}
	case pkg == "sort" || pkg == "slices":
		switch fn.Name() {
		case "Sort", "Slice", "SliceStable", "Stable", "Ints", "Strings", "Float64s", "SortFunc", "SortStableFunc", "Reverse":
			bufArgs = []int{0}
		}
	case pkg == "crypto/rand" && fn.Name() == "Read":
		bufArgs = []int{0}
	case pkg == "bufio" || pkg == "bytes" || pkg == "strings" || pkg == "sync" || pkg == "sync/atomic" || pkg == "hash" || strings.HasPrefix(pkg, "golang.org/x/crypto"):
		if fn.Signature.Recv() != nil {
			recvWrites = true
			if fn.Name() == "Read" && len(args) > 1 {
				bufArgs = []int{1}
			}
		}
	case pkg == "unsafe" || pkg == "reflect":
		s.fp.notes["frame engine: "+s.f.String()+" uses "+pkg] = true
	}
	if recvWrites && len(args) > 0 {
		s.write(s.of(args[0]), pos, name)
	}
	for _, i := range bufArgs {
		if i < len(args) {
			s.write(s.reach(s.of(args[i])), pos, name)
		}
	}
	if result != nil && pointerLike(result.Type()) {
		o := originSet{}
		for _, a := range args {
			o.addAll(s.reach(s.of(a)))
		}
		n, ok := s.allocN[result]
		if !ok {
			n = fmt.Sprintf("a_std%d", len(s.allocN)+1)
			s.allocN[result] = n
		}
		o.add(n)
		s.set(result, o)
	}
}

// ---------- lookups ----------

// FindMethod returns the SSA function for pkgPath.Type.Method or pkgPath.Func.
func (fp *FrameProg) Find(key string) []*ssa.Function {
	var out []*ssa.Function
	for _, f := range fp.funcs {
		if f.Parent() != nil || f.Synthetic != "" && !strings.Contains(f.Synthetic, "instance") {
			continue
		}
		if frameKey(f) == key {
			out = append(out, f)
		}
	}
	return out
}

func frameKey(f *ssa.Function) string {
	g := f
	if g.Origin() != nil {
		g = g.Origin()
	}
	o := g.Object()
	fn, ok := o.(*types.Func)
	if !ok || fn == nil {
		return ""
	}
	return funcObjKey(fn)
}

func (fp *FrameProg) paramNames(f *ssa.Function) []string {
	var n []string
	for _, p := range f.Params {
		n = append(n, p.Name())
	}
	return n
}

package ckks

import (
	"fmt"
	"math/cmplx"
	"testing"

	"github.com/tuneinsight/lattigo/v6/core/rlwe"
	"github.com/tuneinsight/lattigo/v6/ring"
)

// Average(ctIn, logBatchSize, opOut) is documented to replace every sub-vector of batchSize slots by
// the component-wise average of all sub-vectors. Like every other evaluator method (InnerSum, Rotate,
// Trace, ...) it must produce a self-describing opOut when opOut is a distinct, freshly allocated
// ciphertext: decoding opOut has to give the averages.
func TestDemoC11AverageOutOfPlace(t *testing.T) {

	params, err := NewParametersFromLiteral(ParametersLiteral{
		LogN:            5,
		LogQ:            []int{55, 45},
		LogP:            []int{56},
		LogDefaultScale: 30,
	})
	if err != nil {
		t.Fatal(err)
	}

	kgen := rlwe.NewKeyGenerator(params)
	sk := kgen.GenSecretKeyNew()
	enc := rlwe.NewEncryptor(params, sk)
	dec := rlwe.NewDecryptor(params, sk)
	ecd := NewEncoder(params)

	for _, tc := range []struct {
		logSlots int
		logScale int
	}{
		{params.LogMaxSlots(), 25},     // full packing, scale differs from the default scale
		{params.LogMaxSlots() - 2, 30}, // sparse packing, default scale
	} {
		for logBatch := 0; logBatch < tc.logSlots; logBatch++ {
			t.Run(fmt.Sprintf("logSlots=%d/logScale=%d/logBatch=%d", tc.logSlots, tc.logScale, logBatch), func(t *testing.T) {
				slots := 1 << tc.logSlots
				batch := 1 << logBatch
				n := slots / batch

				v := make([]complex128, slots)
				for i := range v {
					v[i] = complex(float64(i+1), float64(-2*i-1))
				}
				want := make([]complex128, slots)
				for i := range want {
					for r := 0; r < n; r++ {
						want[i] += v[(i+r*batch)%slots]
					}
					want[i] /= complex(float64(n), 0)
				}

				pt := NewPlaintext(params, params.MaxLevel())
				pt.LogDimensions = ring.Dimensions{Rows: 0, Cols: tc.logSlots}
				pt.Scale = rlwe.NewScale(1 << tc.logScale)
				if err := ecd.Encode(v, pt); err != nil {
					t.Fatal(err)
				}
				ct, err := enc.EncryptNew(pt)
				if err != nil {
					t.Fatal(err)
				}

				evk := rlwe.NewMemEvaluationKeySet(nil, kgen.GenGaloisKeysNew(params.GaloisElementsForInnerSum(batch, n), sk)...)
				eval := NewEvaluator(params, evk)

				// Reference: in place.
				inplace := ct.CopyNew()
				if err := eval.Average(inplace, logBatch, inplace); err != nil {
					t.Fatal(err)
				}
				have := make([]complex128, slots)
				if err := ecd.Decode(dec.DecryptNew(inplace), have); err != nil {
					t.Fatal(err)
				}
				for i := range have {
					if cmplx.Abs(have[i]-want[i]) > 1e-3 {
						t.Fatalf("in place: slot %d: have %v want %v", i, have[i], want[i])
					}
				}

				// Out of place on a fresh receiver.
				out := NewCiphertext(params, 1, ct.Level())
				if err := eval.Average(ct, logBatch, out); err != nil {
					t.Fatal(err)
				}
				if err := ecd.Decode(dec.DecryptNew(out), have); err != nil {
					t.Fatal(err)
				}
				for i := range have {
					if cmplx.Abs(have[i]-want[i]) > 1e-3 {
						t.Fatalf("out of place: slot %d: have %v want %v (opOut.Scale=2^%.1f ctIn.Scale=2^%.1f, opOut.LogDimensions=%v ctIn.LogDimensions=%v)",
							i, have[i], want[i], out.LogScale(), ct.LogScale(), out.LogDimensions, ct.LogDimensions)
					}
				}
			})
		}
	}
}

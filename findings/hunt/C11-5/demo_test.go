package rlwe

import (
	"fmt"
	"testing"

	"github.com/tuneinsight/lattigo/v6/ring"
)

// PartialTracesSum (the engine of InnerSum / RotateAndAdd / Replicate) and InnerFunction explicitly
// support ciphertexts that are not in the NTT domain ("if !ctIn.IsNTT { NTT ... INTT }"). For such a
// ciphertext the result must decrypt to sum_{i<n} phi_{5^(i*batch)}(m), in particular to m itself for n=1.
func TestDemoC11InnerSumNonNTTCiphertext(t *testing.T) {

	const delta = uint64(1) << 30

	params, err := NewParametersFromLiteral(ParametersLiteral{
		LogN:     4,
		LogQ:     []int{50, 40},
		LogP:     []int{55},
		NTTFlag:  false, // ciphertexts live in the coefficient domain
		RingType: ring.Standard,
	})
	if err != nil {
		t.Fatal(err)
	}

	kgen := NewKeyGenerator(params)
	sk := kgen.GenSecretKeyNew()
	enc := NewEncryptor(params, sk)
	dec := NewDecryptor(params, sk)
	N := params.N()
	level := params.MaxLevel()
	ringQ := params.RingQ().AtLevel(level)
	q0 := ringQ.SubRings[0].Modulus

	center := func(p ring.Poly) []int64 {
		out := make([]int64, N)
		for i := range out {
			c := p.Coeffs[0][i]
			if c > q0/2 {
				out[i] = -int64((q0 - c + delta/2) / delta)
			} else {
				out[i] = int64((c + delta/2) / delta)
			}
		}
		return out
	}

	add := func(a, b, c *Ciphertext) error {
		rq := params.RingQ().AtLevel(c.Level())
		rq.Add(a.Value[0], b.Value[0], c.Value[0])
		rq.Add(a.Value[1], b.Value[1], c.Value[1])
		return nil
	}

	for _, n := range []int{1, 2, 3} {
		const batch = 1

		pt := NewPlaintext(params, level)
		for i := 0; i < N; i++ {
			for j := 0; j <= level; j++ {
				pt.Value.Coeffs[j][i] = uint64(i+1) * delta
			}
		}
		pt.IsNTT = false

		// reference on the plaintext polynomial
		ref := ringQ.NewPoly()
		tmp := ringQ.NewPoly()
		for r := 0; r < n; r++ {
			ringQ.Automorphism(pt.Value, params.GaloisElement(r*batch), tmp)
			ringQ.Add(ref, tmp, ref)
		}
		want := center(ref)

		ct := NewCiphertext(params, 1, level)
		if err := enc.Encrypt(pt, ct); err != nil {
			t.Fatal(err)
		}
		if ct.IsNTT {
			t.Fatal("test expects a coefficient-domain ciphertext")
		}

		evk := NewMemEvaluationKeySet(nil, kgen.GenGaloisKeysNew(GaloisElementsForInnerSum(params, batch, n), sk)...)
		eval := NewEvaluator(params, evk)

		check := func(name string, out *Ciphertext) {
			res := dec.DecryptNew(out)
			if res.IsNTT {
				ringQ.INTT(res.Value, res.Value)
			}
			have := center(res.Value)
			for i := range have {
				if have[i] != want[i] {
					t.Errorf("%s: have %v want %v (opOut.IsNTT=%v)", name, have, want, out.IsNTT)
					return
				}
			}
		}

		out := NewCiphertext(params, 1, level)
		if err := eval.PartialTracesSum(ct, batch, n, out); err != nil {
			t.Fatal(err)
		}
		check(fmt.Sprintf("PartialTracesSum/n=%d", n), out)

		out = NewCiphertext(params, 1, level)
		if err := eval.InnerFunction(ct, batch, n, add, out); err != nil {
			t.Fatal(err)
		}
		check(fmt.Sprintf("InnerFunction/n=%d", n), out)
	}
}

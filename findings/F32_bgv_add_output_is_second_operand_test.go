package bgv

// Finding F32 (property C09, second sentence): Evaluator.Add / Sub accept an output that is the same
// object as the SECOND operand; when the two operands have different scales the scale-matching
// path first writes r0*op0 into the output - i.e. over op1 - and then reads op1: the result is
// r0*op0 +- r1*(r0*op0), not r0*op0 +- r1*op1.  No error is returned.

import (
	"slices"
	"testing"

	"github.com/tuneinsight/lattigo/v6/core/rlwe"
)

func TestF32AddOutputIsSecondOperand(t *testing.T) {
	params, err := NewParametersFromLiteral(ParametersLiteral{LogN: 10, LogQ: []int{54, 49, 49}, LogP: []int{52}, PlaintextModulus: 65537})
	if err != nil {
		t.Fatal(err)
	}
	kgen := rlwe.NewKeyGenerator(params)
	sk := kgen.GenSecretKeyNew()
	ecd := NewEncoder(params)
	enc := rlwe.NewEncryptor(params, sk)
	dec := rlwe.NewDecryptor(params, sk)
	eval := NewEvaluator(params, nil)

	mk := func(scale uint64, f func(i int) uint64) *rlwe.Ciphertext {
		v := make([]uint64, params.MaxSlots())
		for i := range v {
			v[i] = f(i) % params.PlaintextModulus()
		}
		pt := NewPlaintext(params, params.MaxLevel())
		pt.Scale = rlwe.NewScaleModT(scale, params.PlaintextModulus())
		if err := ecd.Encode(v, pt); err != nil {
			t.Fatal(err)
		}
		ct, err := enc.EncryptNew(pt)
		if err != nil {
			t.Fatal(err)
		}
		return ct
	}
	decode := func(ct *rlwe.Ciphertext) []uint64 {
		v := make([]uint64, params.MaxSlots())
		if err := ecd.Decode(dec.DecryptNew(ct), v); err != nil {
			t.Fatal(err)
		}
		return v
	}
	for _, op := range []string{"Add", "Sub"} {
		ct0 := mk(3, func(i int) uint64 { return uint64(2*i + 1) })
		ct1 := mk(7, func(i int) uint64 { return uint64(5*i + 3) })
		var fresh *rlwe.Ciphertext
		if op == "Add" {
			fresh, err = eval.AddNew(ct0, ct1)
		} else {
			fresh, err = eval.SubNew(ct0, ct1)
		}
		if err != nil {
			t.Fatal(err)
		}
		want := decode(fresh)
		if op == "Add" {
			err = eval.Add(ct0, ct1, ct1)
		} else {
			err = eval.Sub(ct0, ct1, ct1)
		}
		if err != nil {
			continue // a refusal would be acceptable
		}
		if have := decode(ct1); !slices.Equal(want, have) {
			t.Errorf("%s(ct0, ct1, ct1) with different scales differs from %sNew(ct0, ct1): slot 1 is %d, expected %d", op, op, have[1], want[1])
		}
	}
}

package rgsw

// Finding F47 (properties C03 / C20): the secret-key and the no-P public-key paths of
// rlwe.Encryptor.EncryptZero for an rlwe ciphertext ignore the IsMontgomery flag of the receiver's
// metadata ("the zero encryption is generated according to the given Ciphertext MetaData"): the error is
// added outside the Montgomery domain although the rows are then read as Montgomery representatives.
// RGSW encryption WITHOUT auxiliary modulus goes through that path with IsMontgomery = true: the
// ciphertext it produces has noise of the size of Q (with one P, the QP path puts the error in
// Montgomery form, and the noise is a few bits).

import (
	"testing"

	"github.com/tuneinsight/lattigo/v6/core/rlwe"
	"github.com/tuneinsight/lattigo/v6/ring/ringqp"
)

func TestF47RGSWEncryptionWithoutP(t *testing.T) {
	for _, logP := range [][]int{{30}, nil} {
		params, err := rlwe.NewParametersFromLiteral(rlwe.ParametersLiteral{LogN: 10, LogQ: []int{27}, LogP: logP, NTTFlag: true})
		if err != nil {
			t.Fatal(err)
		}
		kgen := rlwe.NewKeyGenerator(params)
		sk, pk := kgen.GenKeyPairNew()
		pt := rlwe.NewPlaintext(params, params.MaxLevel())
		skPt := &rlwe.SecretKey{Value: ringqp.Poly{Q: pt.Value}}
		if params.RingP() != nil {
			skPt.Value.P = params.RingP().NewPoly()
		}
		kgen.GenSecretKey(skPt) // a ternary plaintext, in NTT and Montgomery form
		pt.IsMontgomery = true
		want := *pt.Value.CopyNew()
		for name, key := range map[string]rlwe.EncryptionKey{"sk": sk, "pk": pk} {
			ct := NewCiphertext(params, params.MaxLevelQ(), params.MaxLevelP(), 7)
			ptc := *pt
			ptc.Value = *want.CopyNew()
			if err := NewEncryptor(params, key).Encrypt(&ptc, ct); err != nil {
				t.Fatal(err)
			}
			left, right := NoiseRGSWCiphertext(ct, want, sk, params)
			if left > 12 || right > 12 {
				t.Errorf("%d auxiliary moduli, %s: RGSW noise (log2) = (%.1f, %.1f), want a few bits", len(logP), name, left, right)
			}
		}
	}
}

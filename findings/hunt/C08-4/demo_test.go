package rlwe_test

import (
	"bufio"
	"bytes"
	"math/big"
	"testing"

	"github.com/tuneinsight/lattigo/v6/core/rlwe"
)

// The encoding of a Scale (hence of MetaData and of every plaintext/ciphertext header) is assumed
// to have a fixed size, but the decimal exponent is printed with a variable number of digits:
// a scale >= 1e100 (e.g. 2^340, reachable by multiplying without rescaling in a large-Q CKKS
// parameter set, or set by the user) is one byte longer than BinarySize() announces.
func TestC08ScaleBinarySize(t *testing.T) {

	params, err := rlwe.NewParametersFromLiteral(rlwe.ParametersLiteral{LogN: 5, LogQ: []int{30, 30}, NTTFlag: true})
	if err != nil {
		t.Fatal(err)
	}

	scale := rlwe.NewScale(new(big.Float).SetMantExp(big.NewFloat(1), 340)) // 2^340 ~ 2.2e102

	// Scale
	sb, err := scale.MarshalBinary()
	if err != nil {
		t.Fatal(err)
	}
	if len(sb) != scale.BinarySize() {
		t.Errorf("Scale: len(MarshalBinary())=%d but BinarySize()=%d", len(sb), scale.BinarySize())
	}

	// Ciphertext carrying that scale
	ct := rlwe.NewCiphertext(params, 1, 1)
	ct.Scale = scale

	var buf bytes.Buffer
	n, err := ct.WriteTo(&buf)
	if err != nil {
		t.Fatal(err)
	}
	if int(n) != ct.BinarySize() || buf.Len() != ct.BinarySize() {
		t.Errorf("Ciphertext: WriteTo wrote %d bytes (reported %d) but BinarySize()=%d", buf.Len(), n, ct.BinarySize())
	}

	if _, err = ct.MarshalBinary(); err != nil {
		t.Errorf("Ciphertext.MarshalBinary: %v", err)
	}

	// what WriteTo produced cannot be read back, and a second object on the stream is lost
	ct2 := rlwe.NewCiphertext(params, 1, 0)
	if _, err = ct2.WriteTo(&buf); err != nil {
		t.Fatal(err)
	}

	r := bufio.NewReader(&buf)
	got := new(rlwe.Ciphertext)
	if _, err = got.ReadFrom(r); err != nil {
		t.Errorf("Ciphertext.ReadFrom of the bytes produced by WriteTo: %v", err)
	} else if got.Scale.Cmp(scale) != 0 {
		t.Errorf("scale not preserved")
	}
	got2 := new(rlwe.Ciphertext)
	if _, err = got2.ReadFrom(r); err != nil {
		t.Errorf("second ciphertext on the same stream: %v", err)
	}
}

package bootstrapping

import (
	"testing"

	"github.com/tuneinsight/lattigo/v6/schemes/ckks"
)

// Every shipped default bootstrapping set must instantiate and keep log2(QP) of the bootstrapping
// context within the value it advertises in its name (which is the 128-bit bound it was tuned for).
func TestC19DefaultSetsLogQPWithinClaim(t *testing.T) {
	type set struct {
		name  string
		lit   defaultParametersLiteral
		claim float64
	}
	sets := []set{
		{"N16QP1546H192H32", N16QP1546H192H32, 1546},
		{"N16QP1547H192H32", N16QP1547H192H32, 1547},
		{"N16QP1553H192H32", N16QP1553H192H32, 1553},
		{"N16QP1767H32768H32", N16QP1767H32768H32, 1767},
		{"N16QP1788H32768H32", N16QP1788H32768H32, 1788},
		{"N16QP1793H32768H32", N16QP1793H32768H32, 1793},
	}
	for _, s := range sets {
		res, err := ckks.NewParametersFromLiteral(s.lit.SchemeParams)
		if err != nil {
			t.Errorf("%s: residual parameters: %v", s.name, err)
			continue
		}
		btp, err := NewParametersFromLiteral(res, s.lit.BootstrappingParams)
		if err != nil {
			t.Errorf("%s: bootstrapping parameters: %v", s.name, err)
			continue
		}
		if got := btp.BootstrappingParameters.LogQP(); got > s.claim+0.5 {
			t.Errorf("%s: log2(QP) of the bootstrapping context = %.1f exceeds the advertised %v", s.name, got, s.claim)
		}
	}
}

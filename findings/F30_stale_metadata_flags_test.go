package rlwe

// Finding F30 (property C08, "into one that previously held any other value"):
// CiphertextMetaData.UnmarshalJSON only ever SETS IsNTT / IsMontgomery, it never clears them: reading
// the metadata of a coefficient-domain object into a receiver that held an NTT / Montgomery one
// leaves both flags true.  Reaches every ReadFrom that reuses a receiver (Element, Plaintext,
// Ciphertext, shares).

import (
	"bytes"
	"testing"
)

func TestF30StaleMetaDataFlags(t *testing.T) {
	src := &MetaData{}
	src.IsNTT, src.IsMontgomery = false, false
	var buf bytes.Buffer
	if _, err := src.WriteTo(&buf); err != nil {
		t.Fatal(err)
	}
	dst := &MetaData{}
	dst.IsNTT, dst.IsMontgomery = true, true
	if _, err := dst.ReadFrom(&buf); err != nil {
		t.Fatal(err)
	}
	if !dst.Equal(src) {
		t.Fatalf("metadata read back into a used receiver differs: IsNTT=%v IsMontgomery=%v, written false/false", dst.IsNTT, dst.IsMontgomery)
	}
}

package bootstrapping

import (
	"testing"

	"github.com/tuneinsight/lattigo/v6/schemes/ckks"
)

// The two shipped LogN=15 default sets must instantiate as shipped.
func TestC19DefaultSetsLogN15Instantiate(t *testing.T) {
	for name, s := range map[string]defaultParametersLiteral{"N15QP768H192H32": N15QP768H192H32, "N15QP880H16384H32": N15QP880H16384H32} {
		res, err := ckks.NewParametersFromLiteral(s.SchemeParams)
		if err != nil {
			t.Errorf("%s: residual parameters: %v", name, err)
			continue
		}
		btp, err := NewParametersFromLiteral(res, s.BootstrappingParams)
		if err != nil {
			t.Errorf("%s: bootstrapping parameters: %v", name, err)
			continue
		}
		if btp.BootstrappingParameters.LogN() != 15 {
			t.Errorf("%s: bootstrapping LogN = %d, the set is named and tuned for LogN = 15", name, btp.BootstrappingParameters.LogN())
		}
	}
}

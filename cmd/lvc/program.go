package main

import (
	"fmt"
	"go/ast"
	"go/parser"
	"go/token"
	"go/types"
	"path/filepath"
	"sort"
	"strings"

	"golang.org/x/tools/go/packages"
)

type FuncInfo struct {
	Key  string
	Pkg  *packages.Package
	Decl *ast.FuncDecl
	Obj  *types.Func
}

type SpecFunc struct {
	Bool   bool // ghost function of boolean sort
	Name   string
	Params []string
	Body   ast.Expr
}

type Program struct {
	Fset      *token.FileSet
	Pkgs      map[string]*packages.Package
	Contracts map[string]*Contract // pkgpath.Func
	AContracts map[string]*Contract // abstract (Engine B) contracts, separate name space
	AOrder    []string
	Order     []string             // contract keys in file order
	Funcs     map[string]*FuncInfo
	SpecFuncs map[string]*SpecFunc // pkgpath.name
	GhostVars map[string]bool      // ghost variables (global names)
	Frames    []*FrameSpec
	Copies    []*CopySpec
	Lanes     []*LaneSpec
	Readonly  []*ReadonlySpec
	NoEscape  []*NoEscapeSpec
	FieldOrder []*FieldOrderSpec
	StoresVia []*StoresViaSpec
	Unrolled  []*UnrolledSpec
	Owned     map[string][]string // pkgpath.Type -> owned receiver fields
	RepoDir   string
}

const modPath = "github.com/tuneinsight/lattigo/v6"

func funcKey(pkgPath string, fd *ast.FuncDecl) string {
	name := fd.Name.Name
	if fd.Recv != nil && len(fd.Recv.List) > 0 {
		t := fd.Recv.List[0].Type
		for {
			switch x := t.(type) {
			case *ast.StarExpr:
				t = x.X
				continue
			case *ast.IndexExpr:
				t = x.X
				continue
			case *ast.IndexListExpr:
				t = x.X
				continue
			case *ast.ParenExpr:
				t = x.X
				continue
			}
			break
		}
		if id, ok := t.(*ast.Ident); ok {
			name = id.Name + "." + name
		}
	}
	return pkgPath + "." + name
}

func funcObjKey(f *types.Func) string {
	if f.Pkg() == nil {
		return f.Name()
	}
	sig := f.Type().(*types.Signature)
	name := f.Name()
	if r := sig.Recv(); r != nil {
		t := r.Type()
		if p, ok := t.(*types.Pointer); ok {
			t = p.Elem()
		}
		if n, ok := t.(*types.Named); ok {
			name = n.Obj().Name() + "." + name
		}
	}
	return f.Pkg().Path() + "." + name
}

func LoadProgram(repo string, patterns ...string) (*Program, error) {
	fset := token.NewFileSet()
	cfg := &packages.Config{
		Mode: packages.NeedName | packages.NeedSyntax | packages.NeedTypes | packages.NeedTypesInfo |
			packages.NeedFiles | packages.NeedImports | packages.NeedDeps | packages.NeedCompiledGoFiles,
		Dir:        repo,
		Fset:       fset,
		BuildFlags: []string{"-tags=verif"},
		ParseFile: func(fset *token.FileSet, filename string, src []byte) (*ast.File, error) {
			return parser.ParseFile(fset, filename, src, parser.ParseComments|parser.AllErrors)
		},
	}
	pkgs, err := packages.Load(cfg, patterns...)
	if err != nil {
		return nil, err
	}
	p := &Program{Fset: fset, Pkgs: map[string]*packages.Package{}, Contracts: map[string]*Contract{}, AContracts: map[string]*Contract{},
		Funcs: map[string]*FuncInfo{}, SpecFuncs: map[string]*SpecFunc{}, RepoDir: repo, Owned: map[string][]string{}}
	var errs []string
	packages.Visit(pkgs, nil, func(pk *packages.Package) {
		if !strings.HasPrefix(pk.PkgPath, modPath) {
			return
		}
		p.Pkgs[pk.PkgPath] = pk
		for _, e := range pk.Errors {
			errs = append(errs, e.Error())
		}
		for _, f := range pk.Syntax {
			fname := fset.Position(f.Pos()).Filename
			for _, d := range f.Decls {
				if fd, ok := d.(*ast.FuncDecl); ok {
					k := funcKey(pk.PkgPath, fd)
					obj, _ := pk.TypesInfo.Defs[fd.Name].(*types.Func)
					p.Funcs[k] = &FuncInfo{Key: k, Pkg: pk, Decl: fd, Obj: obj}
				}
			}
			if strings.HasSuffix(filepath.Base(fname), "_verif.go") {
				cs, err := ParseContracts(fset, f, pk.PkgPath)
				if err != nil {
					errs = append(errs, err.Error())
					continue
				}
				for _, c := range cs {
					if strings.HasPrefix(c.Func, "spec:") {
						continue
					}
					k := pk.PkgPath + "." + c.Func
					if strings.HasPrefix(c.Func, "ext:") {
						// a contract assumed of a function or interface method outside the module (io.Writer.Write ...)
						k = strings.TrimPrefix(c.Func, "ext:")
					}
					if isAbstract(c) {
						if _, dup := p.AContracts[k]; dup {
							errs = append(errs, fmt.Sprintf("%s: duplicate abstract contract for %s", c.File, k))
						}
						p.AContracts[k] = c
						p.AOrder = append(p.AOrder, k)
						continue
					}
					if _, dup := p.Contracts[k]; dup {
						errs = append(errs, fmt.Sprintf("%s: duplicate contract for %s", c.File, k))
					}
					p.Contracts[k] = c
					p.Order = append(p.Order, k)
				}
				p.parseSpecFuncs(fset, f, pk.PkgPath, &errs)
			}
		}
	})
	for _, k := range p.Order {
		c := p.Contracts[k]
		if c.Vec != nil {
			func() {
				defer func() {
					if r := recover(); r != nil {
						errs = append(errs, fmt.Sprint(r))
					}
				}()
				expandVecKernel(c)
			}()
		}
	}
	if len(errs) > 0 {
		sort.Strings(errs)
		return p, fmt.Errorf("load errors:\n  %s", strings.Join(errs, "\n  "))
	}
	return p, nil
}

// spec functions:  //@ spec name(a, b) = expr
func (p *Program) parseSpecFuncs(fset *token.FileSet, f *ast.File, pkgPath string, errs *[]string) {
	// copy blocks: "copy T.M" followed by its clauses until the next blank //@ line or block keyword
	{
		var cur, where []string
		flush := func() {
			if len(cur) > 0 {
				cs, err := parseCopyBlock(pkgPath, cur, where)
				if err != nil {
					*errs = append(*errs, err.Error())
				} else {
					p.Copies = append(p.Copies, cs)
				}
			}
			cur, where = nil, nil
		}
		for _, cg := range f.Comments {
			for _, c := range cg.List {
				if !strings.HasPrefix(c.Text, "//@") {
					continue
				}
				text := strings.TrimSpace(strings.TrimPrefix(c.Text, "//@"))
				pos := fset.Position(c.Pos())
				w := fmt.Sprintf("%s:%d", pos.Filename, pos.Line)
				kw := strings.Fields(text + " x")[0]
				switch {
				case kw == "copy":
					flush()
					cur, where = []string{text}, []string{w}
				case len(cur) > 0 && (kw == "shared" || kw == "fresh" || kw == "copied" || kw == "rebound" || kw == "derived" || kw == "zero" || kw == "property"):
					cur = append(cur, text)
					where = append(where, w)
				default:
					flush()
				}
			}
			flush()
		}
	}
	// lanes8 blocks: "lanes8 F" followed by "property ..."
	{
		var lines, where []string
		for _, cg := range f.Comments {
			for _, c := range cg.List {
				if !strings.HasPrefix(c.Text, "//@") {
					continue
				}
				text := strings.TrimSpace(strings.TrimPrefix(c.Text, "//@"))
				pos := fset.Position(c.Pos())
				lines = append(lines, text)
				where = append(where, fmt.Sprintf("%s:%d", pos.Filename, pos.Line))
			}
			lines = append(lines, "")
			where = append(where, "")
		}
		p.Lanes = append(p.Lanes, parseLaneBlocks(pkgPath, lines, where)...)
		p.Readonly = append(p.Readonly, parseReadonlyBlocks(pkgPath, lines, where)...)
		p.NoEscape = append(p.NoEscape, parseNoEscapeBlocks(pkgPath, lines, where)...)
		p.FieldOrder = append(p.FieldOrder, parseFieldOrderBlocks(pkgPath, lines, where)...)
		p.StoresVia = append(p.StoresVia, parseStoresViaBlocks(pkgPath, lines, where)...)
		p.Unrolled = append(p.Unrolled, parseUnrolledBlocks(pkgPath, lines, where)...)
	}
	for _, cg := range f.Comments {
		for _, c := range cg.List {
			if !strings.HasPrefix(c.Text, "//@") {
				continue
			}
			text := strings.TrimSpace(strings.TrimPrefix(c.Text, "//@"))
			if strings.HasPrefix(text, "frame ") || strings.HasPrefix(text, "owned ") {
				pos := fset.Position(c.Pos())
				fs, fields, tn, err := parseFrameLine(pkgPath, text, fmt.Sprintf("%s:%d", pos.Filename, pos.Line))
				if err != nil {
					*errs = append(*errs, err.Error())
				} else if fs != nil {
					p.Frames = append(p.Frames, fs)
				} else {
					p.Owned[pkgPath+"."+tn] = append(p.Owned[pkgPath+"."+tn], fields...)
				}
				continue
			}
			if strings.HasPrefix(text, "ghostvar ") {
				if p.GhostVars == nil {
					p.GhostVars = map[string]bool{}
				}
				for _, g := range strings.Fields(text[9:]) {
					p.GhostVars[g] = true
				}
				continue
			}
			if strings.HasPrefix(text, "ghost ") {
				f := strings.Fields(strings.TrimSpace(text[6:]))
				head := strings.Join(f[:len(f)-1], " ")
				he, err := parser.ParseExpr(head)
				call, ok := he.(*ast.CallExpr)
				if err != nil || !ok {
					*errs = append(*errs, "bad ghost line: "+text)
					continue
				}
				sf := &SpecFunc{Name: call.Fun.(*ast.Ident).Name, Bool: f[len(f)-1] == "bool"}
				for _, a := range call.Args {
					sf.Params = append(sf.Params, a.(*ast.Ident).Name)
				}
				p.SpecFuncs[pkgPath+"."+sf.Name] = sf
				continue
			}
			if !strings.HasPrefix(text, "spec ") {
				continue
			}
			text = strings.TrimSpace(text[5:])
			i := strings.Index(text, " = ")
			if i >= 0 {
				i++
			}
			if i < 0 {
				*errs = append(*errs, "bad spec line: "+text)
				continue
			}
			head, body := strings.TrimSpace(text[:i]), strings.TrimSpace(text[i+1:])
			he, err := parser.ParseExpr(head)
			if err != nil {
				*errs = append(*errs, "bad spec head: "+head)
				continue
			}
			call, ok := he.(*ast.CallExpr)
			if !ok {
				*errs = append(*errs, "bad spec head: "+head)
				continue
			}
			sf := &SpecFunc{Name: call.Fun.(*ast.Ident).Name}
			for _, a := range call.Args {
				sf.Params = append(sf.Params, a.(*ast.Ident).Name)
			}
			be, err := parser.ParseExpr(body)
			if err != nil {
				*errs = append(*errs, "bad spec body: "+body+": "+err.Error())
				continue
			}
			sf.Body = be
			p.SpecFuncs[pkgPath+"."+sf.Name] = sf
		}
	}
}

func (p *Program) pos(n ast.Node) string {
	ps := p.Fset.Position(n.Pos())
	rel, err := filepath.Rel(p.RepoDir, ps.Filename)
	if err != nil {
		rel = ps.Filename
	}
	return fmt.Sprintf("%s:%d", rel, ps.Line)
}

package mpbgv

// Finding F55 (property C16): NewMaskedTransformProtocol accepts input and output parameters with DIFFERENT
// plaintext moduli.  The masks are drawn modulo the input's t and lifted / re-encoded with the output's: the
// refreshed ciphertext decrypts to values unrelated to the input, and no error is ever reported.  Output
// parameters that differ from the input's can preserve the message only if the plaintext ring is the same.

import (
	"testing"

	"github.com/tuneinsight/lattigo/v6/ring"
	"github.com/tuneinsight/lattigo/v6/schemes/bgv"
)

func TestF55MaskedTransformPlaintextModuli(t *testing.T) {
	pIn, err := bgv.NewParametersFromLiteral(bgv.ParametersLiteral{LogN: 10, LogQ: []int{50, 40, 40}, LogP: []int{50}, PlaintextModulus: 0xffc001})
	if err != nil {
		t.Fatal(err)
	}
	pOut, err := bgv.NewParametersFromLiteral(bgv.ParametersLiteral{LogN: 10, LogQ: []int{50, 40, 40}, LogP: []int{50}, PlaintextModulus: 0x10001})
	if err != nil {
		t.Fatal(err)
	}
	if _, err := NewMaskedTransformProtocol(pIn, pOut, ring.DiscreteGaussian{Sigma: 8, Bound: 48}); err == nil {
		t.Fatalf("a masked transform from plaintext modulus %#x to %#x is accepted", pIn.PlaintextModulus(), pOut.PlaintextModulus())
	}
	if _, err := NewMaskedTransformProtocol(pIn, pIn, ring.DiscreteGaussian{Sigma: 8, Bound: 48}); err != nil {
		t.Fatalf("same parameters refused: %v", err)
	}
}

package main

// Structural contract "read back in the order written" (property C08):
//
//	//@ fieldorder <Type>
//	//@   property C08
//
// The count-level contracts of WriteTo / ReadFrom are satisfied by a reader that consumes the right
// number of bytes into the WRONG fields (two parts of equal size read back in swapped order).  The
// contract: the receiver fields that take part in write calls of T.WriteTo, in source order of
// their first such use, and the receiver fields that take part in read calls of T.ReadFrom, in
// source order of their first such use, are the same sequence on their common fields.  A field
// "takes part" in a call whose callee name starts with Write / write (resp. Read / read) when it
// occurs in the receiver or an argument of the call, or is assigned the call's result.  Decided on
// the typed AST; necessary, not sufficient, for the read-back object to equal the written one.

import (
	"fmt"
	"go/ast"
	"go/types"
	"strings"
)

type FieldOrderSpec struct {
	Pkg, Target, Line string
	Props             []string
	Decodes           bool // `decodes T.M`: the decoding method M of T stores what it decodes in its receiver
}

func parseFieldOrderBlocks(pkgPath string, lines, where []string) []*FieldOrderSpec {
	var out []*FieldOrderSpec
	var cur *FieldOrderSpec
	for i, l := range lines {
		f := strings.Fields(l)
		if len(f) == 0 {
			cur = nil
			continue
		}
		switch f[0] {
		case "fieldorder", "decodes":
			if len(f) < 2 {
				continue
			}
			cur = &FieldOrderSpec{Pkg: pkgPath, Target: f[1], Line: where[i], Decodes: f[0] == "decodes"}
			out = append(out, cur)
		case "property":
			if cur != nil {
				cur.Props = append(cur.Props, f[1:]...)
			}
		default:
			cur = nil
		}
	}
	return out
}

func fieldOrderObligations(prog *Program, id string) []simpleObligation {
	var out []simpleObligation
	for _, fs := range prog.FieldOrder {
		for _, p := range fs.Props {
			if p == id && fs.Decodes {
				out = append(out, checkDecodes(prog, fs)...)
			} else if p == id {
				out = append(out, checkFieldOrder(prog, fs)...)
			}
		}
	}
	return out
}

// ioFieldSequence: receiver fields taking part in calls whose callee name has the given prefixes, in order of first use.
func ioFieldSequence(fi *FuncInfo, prefixes []string) []string {
	info := fi.Pkg.TypesInfo
	var recv types.Object
	if fi.Decl.Recv != nil {
		for _, fl := range fi.Decl.Recv.List {
			for _, n := range fl.Names {
				recv = info.Defs[n]
			}
		}
	}
	if recv == nil {
		return nil
	}
	// aliases of the receiver introduced by a type switch on it are not needed: fields are selected on the receiver
	var seq []string
	seen := map[string]bool{}
	note := func(e ast.Expr) {
		ast.Inspect(e, func(n ast.Node) bool {
			sel, ok := n.(*ast.SelectorExpr)
			if !ok {
				return true
			}
			// the outermost selector directly on the receiver names the field
			if id, ok := stripParens(sel.X).(*ast.Ident); ok && info.Uses[id] == recv {
				if s, ok := info.Selections[sel]; ok && s.Kind() == types.FieldVal {
					if !seen[sel.Sel.Name] {
						seen[sel.Sel.Name] = true
						seq = append(seq, sel.Sel.Name)
					}
				}
				return false
			}
			return true
		})
	}
	isIO := func(call *ast.CallExpr) bool {
		name := ""
		switch f := call.Fun.(type) {
		case *ast.Ident:
			name = f.Name
		case *ast.SelectorExpr:
			name = f.Sel.Name
		case *ast.IndexExpr: // generic instantiation f[T](...)
			switch g := f.X.(type) {
			case *ast.Ident:
				name = g.Name
			case *ast.SelectorExpr:
				name = g.Sel.Name
			}
		}
		for _, p := range prefixes {
			if strings.HasPrefix(name, p) {
				return true
			}
		}
		return false
	}
	ast.Inspect(fi.Decl.Body, func(n ast.Node) bool {
		switch x := n.(type) {
		case *ast.AssignStmt:
			for _, r := range x.Rhs {
				if call, ok := stripParens(r).(*ast.CallExpr); ok && isIO(call) {
					for _, l := range x.Lhs {
						note(l)
					}
				}
			}
		case *ast.CallExpr:
			if isIO(x) {
				if sel, ok := x.Fun.(*ast.SelectorExpr); ok {
					note(sel.X)
				}
				for _, a := range x.Args {
					note(a)
				}
			}
		}
		return true
	})
	return seq
}

func checkFieldOrder(prog *Program, fs *FieldOrderSpec) []simpleObligation {
	short := shortPkg(fs.Pkg + "." + fs.Target)
	name := "fieldorder/" + short
	w := prog.Funcs[fs.Pkg+"."+fs.Target+".WriteTo"]
	r := prog.Funcs[fs.Pkg+"."+fs.Target+".ReadFrom"]
	if w == nil || r == nil || w.Decl.Body == nil || r.Decl.Body == nil {
		return []simpleObligation{{Name: name + "/target", Func: short, File: fs.Line, OK: false, Detail: "WriteTo or ReadFrom not found (renamed or removed?)"}}
	}
	ws := ioFieldSequence(w, []string{"Write", "write"})
	rs := ioFieldSequence(r, []string{"Read", "read"})
	inW, inR := map[string]bool{}, map[string]bool{}
	for _, f := range ws {
		inW[f] = true
	}
	for _, f := range rs {
		inR[f] = true
	}
	var cw, cr []string
	for _, f := range ws {
		if inR[f] {
			cw = append(cw, f)
		}
	}
	for _, f := range rs {
		if inW[f] {
			cr = append(cr, f)
		}
	}
	ok := strings.Join(cw, ",") == strings.Join(cr, ",")
	so := simpleObligation{Name: name + "/order", Func: short, File: fs.Line, OK: ok}
	if !ok {
		so.Detail = fmt.Sprintf("WriteTo writes the fields in the order [%s], ReadFrom reads them in the order [%s]: parts of equal size would be read back into the wrong fields", strings.Join(cw, " "), strings.Join(cr, " "))
	} else {
		so.Detail = fmt.Sprintf("common order [%s] (written: %v, read: %v)", strings.Join(cw, " "), ws, rs)
	}
	return []simpleObligation{so}
}

// Structural contract "a decoder decodes into the caller's object" (property C08):
//
//	//@ decodes <Type>.<Method>
//
// UnmarshalBinary / UnmarshalJSON / ReadFrom store what they decode in their receiver.  With a VALUE
// receiver the method works on a private copy and the caller's object keeps its old contents, without
// any error (finding F41: rlwe.Scale.UnmarshalBinary).  The contract: the receiver is a pointer, or a
// named map type (whose entries are shared with the caller).
func checkDecodes(prog *Program, fs *FieldOrderSpec) []simpleObligation {
	short := shortPkg(fs.Pkg + "." + fs.Target)
	name := "decodes/" + short
	fi := prog.Funcs[fs.Pkg+"."+fs.Target]
	if fi == nil || fi.Decl.Recv == nil || len(fi.Decl.Recv.List) == 0 {
		return []simpleObligation{{Name: name + "/target", Func: short, File: fs.Line, OK: false, Detail: "method not found (renamed or removed?)"}}
	}
	rt := fi.Pkg.TypesInfo.TypeOf(fi.Decl.Recv.List[0].Type)
	ok := false
	detail := ""
	if rt != nil {
		switch u := rt.Underlying().(type) {
		case *types.Pointer:
			ok = true
			detail = "pointer receiver"
		case *types.Map:
			ok = true
			detail = "map receiver (entries shared with the caller)"
		default:
			detail = fmt.Sprintf("the receiver has the value type %s (%T): the method decodes into a private copy and the caller's object is left unchanged", rt.String(), u)
		}
	}
	out := []simpleObligation{{Name: name + "/receiver", Func: short, File: fs.Line, OK: ok, Detail: detail}}
	// A decoder that goes through a local mirror struct and then assigns the receiver's fields one by one
	// (UnmarshalJSON of the parameter literals) must assign EVERY exported field of the receiver: a field the
	// encoder emits and the decoder forgets is silently dropped (finding F76: ParametersLiteral.LogNthRoot).
	if fi.Decl.Body != nil && len(fi.Decl.Recv.List[0].Names) == 1 {
		recv := fi.Decl.Recv.List[0].Names[0].Name
		assigned := map[string]bool{}
		mirror := false // the body declares a local struct type to decode into
		ast.Inspect(fi.Decl.Body, func(n ast.Node) bool {
			switch x := n.(type) {
			case *ast.StructType:
				mirror = true
			case *ast.SelectorExpr:
				// any mention of recv.F counts (assignment, method call on the field, address taken)
				if id, ok := x.X.(*ast.Ident); ok && id.Name == recv {
					assigned[x.Sel.Name] = true
				}
			}
			return true
		})
		if mirror && strings.HasSuffix(fs.Target, ".UnmarshalJSON") && len(assigned) > 0 {
			var st *types.Struct
			if pt, ok := rt.Underlying().(*types.Pointer); ok {
				st, _ = pt.Elem().Underlying().(*types.Struct)
			}
			if st != nil {
				for i := 0; i < st.NumFields(); i++ {
					f := st.Field(i)
					if !f.Exported() {
						continue
					}
					so := simpleObligation{Name: name + "/field:" + f.Name(), Func: short, File: fs.Line, OK: assigned[f.Name()]}
					if so.OK {
						so.Detail = "assigned"
					} else {
						so.Detail = fmt.Sprintf("the decoder goes through a local mirror struct and handles %d fields of the receiver but never mentions %s.%s: a value of that field does not survive the round trip", len(assigned), recv, f.Name())
					}
					out = append(out, so)
				}
			}
		}
	}
	return out
}

package rlwe

import (
	"math/big"
	"math/rand"
	"testing"

	"github.com/tuneinsight/lattigo/v6/ring"
	"github.com/tuneinsight/lattigo/v6/utils/sampling"
)

// Parameters WITHOUT auxiliary modulus P and an evaluation key with the default
// BaseTwoDecomposition = 0 (pure RNS decomposition, one digit per prime of Q).
var demoC02NoPQ = []uint64{0x200000440001, 0x7fff80001, 0x800280001, 0x7ffd80001, 0x7ffc80001}

// TestDemoC02GadgetProductNoPExact multiplies a polynomial cx with a NOISELESS gadget
// "encryption" of 1 (the gadget vector itself, written by
// AddPolyTimesGadgetVectorToGadgetCiphertext). If the digits produced by the evaluator
// recombine against the gadget vector, the result is exactly cx (mod Q).
func TestDemoC02GadgetProductNoPExact(t *testing.T) {

	params, err := NewParametersFromLiteral(ParametersLiteral{LogN: 5, Q: demoC02NoPQ, NTTFlag: true})
	if err != nil {
		t.Fatal(err)
	}

	levelQ := params.MaxLevelQ()
	ringQ := params.RingQ().AtLevel(levelQ)
	N := params.N()

	// gadget ciphertext, no P (levelP = -1), no power-of-two decomposition
	gct := NewGadgetCiphertext(params, 1, levelQ, -1, 0)

	// the constant polynomial 1 in the NTT and Montgomery domain
	one := ringQ.NewPoly()
	for i, s := range ringQ.SubRings[:levelQ+1] {
		m := ring.MForm(1, s.Modulus, s.BRedConstant)
		for j := range one.Coeffs[i] {
			one.Coeffs[i][j] = m
		}
	}

	if err = AddPolyTimesGadgetVectorToGadgetCiphertext(one, []GadgetCiphertext{*gct}, *params.RingQP(), ringQ.NewPoly()); err != nil {
		t.Fatal(err)
	}

	rnd := rand.New(rand.NewSource(1))
	Q := ringQ.ModulusAtLevel[levelQ]
	xs := make([]*big.Int, N)
	for j := range xs {
		xs[j] = new(big.Int).Rand(rnd, Q)
	}
	xs[0] = big.NewInt(1)
	xs[1] = new(big.Int).Sub(Q, big.NewInt(1))

	cx := ringQ.NewPoly()
	ringQ.SetCoefficientsBigint(xs, cx)
	ringQ.NTT(cx, cx)

	ct := NewCiphertext(params, 1, levelQ) // IsNTT = true

	NewEvaluator(params, nil).GadgetProduct(levelQ, cx, gct, ct)

	got := ringQ.NewPoly()
	ringQ.INTT(ct.Value[0], got)
	gb := make([]*big.Int, N)
	ringQ.PolyToBigint(got, 1, gb)

	bad := 0
	for j := range gb {
		if gb[j].Cmp(xs[j]) != 0 {
			if bad < 4 {
				t.Errorf("coeff %d: <decomp(cx), gadget> = %v, want cx = %v", j, gb[j], xs[j])
			}
			bad++
		}
	}
	if bad > 0 {
		t.Errorf("%d/%d coefficients do not recombine to cx modulo Q", bad, N)
	}
}

// TestDemoC02GadgetProductNoPKeySwitch is the same defect through the regular API:
// a key-switch with a freshly generated evaluation key (default parameters).
// A correct RNS decomposition (digits bounded by q_i/2) leaves a noise of about
// log2(max q_i) + log2(sigma*sqrt(N*#Q)) bits, far below log2(Q) = 185.
func TestDemoC02GadgetProductNoPKeySwitch(t *testing.T) {

	params, err := NewParametersFromLiteral(ParametersLiteral{LogN: 10, Q: demoC02NoPQ, NTTFlag: true})
	if err != nil {
		t.Fatal(err)
	}

	kgen := NewKeyGenerator(params)
	sk := kgen.GenSecretKeyNew()
	skOut := kgen.GenSecretKeyNew()

	evk := NewEvaluationKey(params) // levelP = -1 (no P), BaseTwoDecomposition = 0
	kgen.GenEvaluationKey(sk, skOut, evk)

	levelQ := params.MaxLevelQ()
	ringQ := params.RingQ().AtLevel(levelQ)

	prng, _ := sampling.NewKeyedPRNG([]byte{'a', 'b', 'c'})
	a := ring.NewUniformSampler(prng, ringQ).ReadNew()

	ct := NewCiphertext(params, 1, levelQ)
	NewEvaluator(params, nil).GadgetProduct(levelQ, a, &evk.GadgetCiphertext, ct)

	pt := NewDecryptor(params, skOut).DecryptNew(ct)
	ringQ.MulCoeffsMontgomeryThenSub(a, sk.Value.Q, pt.Value) // phase - a*sk = noise
	ringQ.INTT(pt.Value, pt.Value)

	noise := ringQ.Log2OfStandardDeviation(pt.Value)
	bound := 45.0 + 2 + float64(params.LogN()) + 8 // log2(q_0) + log2(sigma) + logN + margin
	if noise > bound {
		t.Errorf("key-switch noise has %.1f bits (log2(Q)=%.1f), expected at most %.1f bits", noise, params.LogQ(), bound)
	}
}

package main

// Structural contract for the hand-unrolled butterfly layers (ring/ntt.go):
//
//	//@ unrolled <function>
//	//@   property C01
//
// A lane index is a constant index into a value of fixed-size array type (or pointer to one).  In
// every block, statements that carry lane indices must belong to a run of exactly eight units of the
// same shape (a unit is 1..4 consecutive statements; the shape is the text with the lane indices
// blanked), and for every blanked position the eight indices must follow one of the index patterns
// of a radix-2 layer of stride t, the same t for the whole run:
//
//	lower_t(u) = (u mod t) + 2t*(u div t)     upper_t(u) = lower_t(u) + t
//	group_t(u) = u div t                      or a constant
//
// (t = 8: lower = u, upper = u + 8, group = 0; the units may be written down in any order).  The mirrored first layer of the conjugate-invariant
// transform is a run of seven units whose indices are u, 6-u or constant.  A wrong index in one lane, a lane that is missing or
// repeated, or a twiddle factor taken from the wrong group breaks the pattern.  It says nothing about
// WHAT a lane computes: the butterflies themselves are under arithmetic contracts.

import (
	"fmt"
	"go/ast"
	"go/constant"
	"go/printer"
	"go/token"
	"go/types"
	"strings"
)

type UnrolledSpec struct {
	Pkg, Target, Line string
	Props             []string
}

func parseUnrolledBlocks(pkgPath string, lines, where []string) []*UnrolledSpec {
	var out []*UnrolledSpec
	var cur *UnrolledSpec
	for i, l := range lines {
		f := strings.Fields(l)
		if len(f) == 0 {
			cur = nil
			continue
		}
		switch f[0] {
		case "unrolled":
			if len(f) < 2 {
				continue
			}
			cur = &UnrolledSpec{Pkg: pkgPath, Target: f[1], Line: where[i]}
			out = append(out, cur)
		case "property":
			if cur != nil {
				cur.Props = append(cur.Props, f[1:]...)
			}
		default:
			cur = nil
		}
	}
	return out
}

func unrolledObligations(prog *Program, id string) []simpleObligation {
	var out []simpleObligation
	for _, s := range prog.Unrolled {
		for _, p := range s.Props {
			if p == id {
				out = append(out, checkUnrolled(prog, s)...)
			}
		}
	}
	return out
}

type laneStmt struct {
	shape string
	idx   []int64
	pos   token.Pos
	text  string
}

func checkUnrolled(prog *Program, sp *UnrolledSpec) []simpleObligation {
	key := sp.Pkg + "." + sp.Target
	short := shortPkg(key)
	name := "unrolled/" + short
	fi := prog.Funcs[key]
	if fi == nil || fi.Decl.Body == nil {
		return []simpleObligation{{Name: name + "/target", Func: short, File: sp.Line, OK: false, Detail: "function not found (renamed or removed?)"}}
	}
	info := fi.Pkg.TypesInfo
	fixedArr := func(t types.Type) bool {
		if p, ok := t.Underlying().(*types.Pointer); ok {
			t = p.Elem()
		}
		_, ok := t.Underlying().(*types.Array)
		return ok
	}
	analyse := func(s ast.Stmt) laneStmt {
		ls := laneStmt{pos: s.Pos()}
		repl := map[token.Pos]string{}
		var order []token.Pos
		vals := map[token.Pos]int64{}
		ast.Inspect(s, func(n ast.Node) bool {
			if ix, ok := n.(*ast.IndexExpr); ok {
				if tv, ok := info.Types[ix.Index]; ok && tv.Value != nil && tv.Value.Kind() == constant.Int {
					if xt, ok := info.Types[ix.X]; ok && fixedArr(xt.Type) {
						if v, exact := constant.Int64Val(tv.Value); exact {
							repl[ix.Index.Pos()] = "#"
							order = append(order, ix.Index.Pos())
							vals[ix.Index.Pos()] = v
						}
					}
				}
			}
			return true
		})
		// positions in source order
		for i := 0; i < len(order); i++ {
			for j := i + 1; j < len(order); j++ {
				if order[j] < order[i] {
					order[i], order[j] = order[j], order[i]
				}
			}
		}
		for _, p := range order {
			ls.idx = append(ls.idx, vals[p])
		}
		var b strings.Builder
		_ = printer.Fprint(&b, prog.Fset, s)
		ls.text = b.String()
		ls.shape = ls.text
		if len(repl) > 0 {
			b.Reset()
			_ = printer.Fprint(&b, token.NewFileSet(), rewriteLanes(s, repl))
			ls.shape = b.String()
		}
		return ls
	}
	base := prog.Fset.Position(fi.Decl.Pos()).Line
	var out []simpleObligation
	runs := 0
	lower := func(t, u int64) int64 { return u%t + 2*t*(u/t) }
	var walk func(list []ast.Stmt)
	walk = func(list []ast.Stmt) {
		var ss []laneStmt
		flush := func() {
			i := 0
			for i < len(ss) {
				if len(ss[i].idx) == 0 {
					i++
					continue
				}
				matched := false
				for _, n := range []int{8, 7} {
					for p := 1; p <= 4 && !matched; p++ {
						if i+n*p > len(ss) {
							continue
						}
						ok := true
						for k := 0; k < n && ok; k++ {
							for r := 0; r < p; r++ {
								if ss[i+k*p+r].shape != ss[i+r].shape {
									ok = false
									break
								}
							}
						}
						// a unit must carry at least one lane index
						nIdx := 0
						for r := 0; r < p; r++ {
							nIdx += len(ss[i+r].idx)
						}
						if !ok || nIdx == 0 {
							continue
						}
						// the run must not continue with a ninth unit of the same shape
						if i+(n+1)*p <= len(ss) {
							ninth := true
							for r := 0; r < p; r++ {
								if ss[i+n*p+r].shape != ss[i+r].shape {
									ninth = false
								}
							}
							if ninth {
								continue
							}
						}
						matched = true
						runs++
						// index vectors per blank position
						var vecs [][8]int64
						for r := 0; r < p; r++ {
							for q := range ss[i+r].idx {
								var v [8]int64
								for k := 0; k < n; k++ {
									v[k] = ss[i+k*p+r].idx[q]
								}
								vecs = append(vecs, v)
							}
						}
						// the order in which the lanes are written down does not matter: put the units in
						// the order of the first index position that distinguishes them
						for _, key := range vecs {
							distinct := true
							for a := 0; a < n && distinct; a++ {
								for b := a + 1; b < n; b++ {
									if key[a] == key[b] {
										distinct = false
										break
									}
								}
							}
							if !distinct {
								continue
							}
							perm := make([]int, n)
							for a := range perm {
								perm[a] = a
							}
							for a := 0; a < n; a++ {
								for b := a + 1; b < n; b++ {
									if key[perm[b]] < key[perm[a]] {
										perm[a], perm[b] = perm[b], perm[a]
									}
								}
							}
							for vi := range vecs {
								var nv [8]int64
								for a := 0; a < n; a++ {
									nv[a] = vecs[vi][perm[a]]
								}
								vecs[vi] = nv
							}
							break
						}
						fits := func(t int64) bool {
							for _, v := range vecs {
								c, lo, up, gr := true, true, true, true
								for u := int64(0); u < 8; u++ {
									if v[u] != v[0] {
										c = false
									}
									if v[u] != lower(t, u) {
										lo = false
									}
									if v[u] != lower(t, u)+t {
										up = false
									}
									if v[u] != u/t {
										gr = false
									}
								}
								if !(c || lo || up || gr) {
									return false
								}
							}
							return true
						}
						good := fits(1) || fits(2) || fits(4) || fits(8)
						if n == 7 || !good {
							// the mirrored first layer of the conjugate-invariant transform: pairs (u, n-1-u)
							mirror := true
							for _, v := range vecs {
								id, rev, c := true, true, true
								for u := int64(0); u < int64(n); u++ {
									if v[u] != u {
										id = false
									}
									if v[u] != int64(n)-1-u {
										rev = false
									}
									if v[u] != v[0] {
										c = false
									}
								}
								if !(id || rev || c) {
									mirror = false
								}
							}
							good = mirror
						}
						at := prog.Fset.Position(ss[i].pos)
						so := simpleObligation{Name: fmt.Sprintf("%s/run@+%d:%s", name, at.Line-base, strings.Join(strings.Fields(ss[i].shape), " ")), Func: short, File: fmt.Sprintf("%s:%d", at.Filename, at.Line), OK: good}
						if len(so.Name) > 160 {
							so.Name = so.Name[:160]
						}
						if !good {
							so.Detail = fmt.Sprintf("the eight unrolled units starting with `%s` do not follow one radix-2 index pattern (index vectors %v)", ss[i].text, vecs)
						}
						out = append(out, so)
						i += n * p
					}
				}
				if !matched {
					at := prog.Fset.Position(ss[i].pos)
					out = append(out, simpleObligation{Name: fmt.Sprintf("%s/orphan@+%d", name, at.Line-base), Func: short, File: fmt.Sprintf("%s:%d", at.Filename, at.Line), OK: false,
						Detail: fmt.Sprintf("statement `%s` carries a lane index but is not part of a run of eight units of one shape (a lane is missing, repeated or differs from its siblings)", ss[i].text)})
					i++
				}
			}
			ss = nil
		}
		for _, s := range list {
			switch x := s.(type) {
			case *ast.ForStmt:
				flush()
				walk(x.Body.List)
			case *ast.RangeStmt:
				flush()
				walk(x.Body.List)
			case *ast.IfStmt:
				flush()
				walk(x.Body.List)
				for e := x.Else; e != nil; {
					switch eb := e.(type) {
					case *ast.BlockStmt:
						walk(eb.List)
						e = nil
					case *ast.IfStmt:
						walk(eb.Body.List)
						e = eb.Else
					default:
						e = nil
					}
				}
			case *ast.BlockStmt:
				flush()
				walk(x.List)
			default:
				ss = append(ss, analyse(s))
			}
		}
		flush()
	}
	walk(fi.Decl.Body.List)
	if runs == 0 {
		out = append(out, simpleObligation{Name: name + "/target", Func: short, File: sp.Line, OK: false, Detail: "no unrolled run found: the contract does not fit this function"})
	}
	return out
}

package rlwe

// Finding F26 (property C03, "every ciphertext degree"): Encryptor.Encrypt into a receiver of
// degree 2 returned garbage with a secret key (the uniform mask went to a scratch buffer for every
// degree other than 1) and kept a stale third component with a public key.

import (
	"testing"

	"github.com/tuneinsight/lattigo/v6/ring"
	"github.com/tuneinsight/lattigo/v6/utils/sampling"
)

func TestF26EncryptIntoDegree2(t *testing.T) {
	params, err := NewParametersFromLiteral(ParametersLiteral{LogN: 10, LogQ: []int{50, 40}, LogP: []int{50}, NTTFlag: true})
	if err != nil {
		t.Fatal(err)
	}
	kgen := NewKeyGenerator(params)
	sk := kgen.GenSecretKeyNew()
	pk := kgen.GenPublicKeyNew(sk)
	dec := NewDecryptor(params, sk)
	prng, _ := sampling.NewKeyedPRNG([]byte("f26"))
	level := params.MaxLevel()
	ringQ := params.RingQ().AtLevel(level)
	for _, name := range []string{"sk", "pk"} {
		for _, stale := range []bool{false, true} {
			for _, degree := range []int{1, 2} {
				var enc *Encryptor
				if name == "sk" {
					enc = NewEncryptor(params, sk)
				} else {
					enc = NewEncryptor(params, pk)
				}
				pt := NewPlaintext(params, level)
				ring.NewUniformSampler(prng, ringQ).Read(pt.Value)
				ct := NewCiphertext(params, degree, level)
				if stale {
					for i := range ct.Value {
						ring.NewUniformSampler(prng, ringQ).Read(ct.Value[i])
					}
				}
				if err := enc.Encrypt(pt, ct); err != nil {
					t.Logf("%s degree=%d stale=%v: refused: %v", name, degree, stale, err)
					continue
				}
				got := dec.DecryptNew(ct)
				ringQ.Sub(got.Value, pt.Value, got.Value)
				if got.IsNTT {
					ringQ.INTT(got.Value, got.Value)
				}
				if noise := ringQ.Log2OfStandardDeviation(got.Value); noise > 20 {
					t.Errorf("%s key, receiver of degree %d, stale content %v: Dec(Enc(pt)) - pt has log2(std) = %.1f", name, degree, stale, noise)
				}
			}
		}
	}
}

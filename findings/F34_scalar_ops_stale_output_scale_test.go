package bgv

// Finding F34 (property C09, "the result of an operation does not depend on what the output object
// was used for before"): Add / Mul with a scalar operand write the coefficients at the scale of op0
// but never set the scale of the output object: with an output other than op0 (AddNew, MulNew, a
// reused ciphertext) the recorded scale is whatever the output held before, and decoding gives
// another message.  ckks Add / Sub with a scalar have the same shape (not exercised here).

import (
	"slices"
	"testing"

	"github.com/tuneinsight/lattigo/v6/core/rlwe"
)

func TestF34ScalarOpsStaleOutputScale(t *testing.T) {
	params, err := NewParametersFromLiteral(ParametersLiteral{LogN: 10, LogQ: []int{54, 49, 49}, LogP: []int{52}, PlaintextModulus: 65537})
	if err != nil {
		t.Fatal(err)
	}
	sk := rlwe.NewKeyGenerator(params).GenSecretKeyNew()
	ecd, enc, dec, eval := NewEncoder(params), rlwe.NewEncryptor(params, sk), rlwe.NewDecryptor(params, sk), NewEvaluator(params, nil)
	T := params.PlaintextModulus()
	v := make([]uint64, params.MaxSlots())
	for i := range v {
		v[i] = uint64(2*i+1) % T
	}
	pt := NewPlaintext(params, params.MaxLevel())
	pt.Scale = rlwe.NewScaleModT(3, T)
	if err := ecd.Encode(v, pt); err != nil {
		t.Fatal(err)
	}
	ct, err := enc.EncryptNew(pt)
	if err != nil {
		t.Fatal(err)
	}
	decode := func(c *rlwe.Ciphertext) []uint64 {
		w := make([]uint64, params.MaxSlots())
		if err := ecd.Decode(dec.DecryptNew(c), w); err != nil {
			t.Fatal(err)
		}
		return w
	}
	for _, op := range []string{"Add", "Mul"} {
		want := make([]uint64, len(v))
		var out *rlwe.Ciphertext
		if op == "Add" {
			for i := range v {
				want[i] = (v[i] + 5) % T
			}
			out, err = eval.AddNew(ct, uint64(5))
		} else {
			for i := range v {
				want[i] = (v[i] * 5) % T
			}
			out, err = eval.MulNew(ct, uint64(5))
		}
		if err != nil {
			t.Fatal(err)
		}
		if have := decode(out); !slices.Equal(want, have) {
			t.Errorf("%sNew(ct at scale 3, 5): recorded output scale %d, slot 1 decodes to %d, expected %d", op, out.Scale.Uint64(), have[1], want[1])
		}
	}
}

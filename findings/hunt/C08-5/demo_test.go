package rlwe_test

import (
	"testing"

	"github.com/tuneinsight/lattigo/v6/core/rlwe"
	"github.com/tuneinsight/lattigo/v6/utils/buffer"
)

// buffer.Buffer is a fixed-size writer: Available() is len(buf)-n and "writes beyond capacity
// will result in an error". When the backing slice has cap > len, Write nevertheless accepts
// data it cannot store: it copies what fits in len(buf) and returns a SHORT count with a NIL
// error. Every WriteTo that ends with a raw Write (MetaData, Parameters, the seed of a compressed
// evaluation key) then reports success although the object was truncated.
func TestC08BufferShortWriteNilError(t *testing.T) {

	t.Run("Buffer.Write", func(t *testing.T) {
		b := buffer.NewBuffer(make([]byte, 4, 64))
		n, err := b.Write(make([]byte, 10))
		if err == nil && n != 10 {
			t.Errorf("Buffer.Write(10 bytes) on a 4-byte buffer returned n=%d with a nil error (io.Writer requires a non-nil error when n < len(p))", n)
		}
	})

	params, err := rlwe.NewParametersFromLiteral(rlwe.ParametersLiteral{LogN: 5, LogQ: []int{30, 30}, LogP: []int{31}, NTTFlag: true})
	if err != nil {
		t.Fatal(err)
	}

	pool := make([]byte, 1<<16) // e.g. a pooled scratch slice, resliced to the space the caller wants to grant

	t.Run("MetaData.WriteTo", func(t *testing.T) {
		md := rlwe.MetaData{}
		md.Scale = rlwe.NewScale(1 << 30)
		for _, k := range []int{0, 10, md.BinarySize() - 1} {
			n, err := md.WriteTo(buffer.NewBuffer(pool[:k]))
			if err == nil {
				t.Errorf("MetaData.WriteTo into a %d-byte buffer (object needs %d): nil error, n=%d", k, md.BinarySize(), n)
			}
		}
	})

	t.Run("Parameters.WriteTo", func(t *testing.T) {
		k := params.BinarySize() / 2
		n, err := params.WriteTo(buffer.NewBuffer(pool[:k]))
		if err == nil {
			t.Errorf("Parameters.WriteTo into a %d-byte buffer (object needs %d): nil error, n=%d", k, params.BinarySize(), n)
		}
	})

	t.Run("CompressedEvaluationKey.WriteTo", func(t *testing.T) {
		kgen := rlwe.NewKeyGenerator(params)
		sk := kgen.GenSecretKeyNew()
		evk := kgen.GenEvaluationKeyNew(sk, sk, rlwe.EvaluationKeyParameters{Compressed: true})
		k := evk.BinarySize() - 32 // room for everything but the seed
		n, err := evk.WriteTo(buffer.NewBuffer(pool[:k]))
		if err == nil {
			t.Errorf("compressed EvaluationKey.WriteTo into a %d-byte buffer (object needs %d): nil error, n=%d: the seed was silently dropped", k, evk.BinarySize(), n)
		}
	})
}

package rlwe

import (
	"math"
	"math/big"
	"testing"

	"github.com/tuneinsight/lattigo/v6/ring/ringqp"
)

// EncryptZero on an Element[ringqp.Poly] receiver "is generated according to the given MetaData".
// The public-key path honours IsMontgomery=false, the secret-key path must as well:
// c0 + c1*sk must be a small error, not the error times the Montgomery constant 2^64.
func TestC03SkEncryptZeroQPNonMontgomery(t *testing.T) {
	params, err := NewParametersFromLiteral(ParametersLiteral{
		LogN: 9,
		Q:    []uint64{0x200000440001, 0x7fff80001},
		P:    []uint64{0x3ffffffb80001},
	})
	if err != nil {
		t.Fatal(err)
	}

	kgen := NewKeyGenerator(params)
	sk, pk := kgen.GenKeyPairNew()
	rqp := params.RingQP()

	for _, key := range []EncryptionKey{pk, sk} {
		for _, isMontgomery := range []bool{true, false} {
			el := Element[ringqp.Poly]{
				MetaData: &MetaData{CiphertextMetaData: CiphertextMetaData{IsNTT: true, IsMontgomery: isMontgomery}},
				Value:    []ringqp.Poly{rqp.NewPoly(), rqp.NewPoly()},
			}
			if err := NewEncryptor(params, key).EncryptZero(el); err != nil {
				t.Fatal(err)
			}

			// phase = c0 + c1*sk (sk is stored in the NTT and Montgomery domain)
			phase := *el.Value[0].CopyNew()
			rqp.MulCoeffsMontgomeryThenAdd(el.Value[1], sk.Value, phase)
			rqp.INTT(phase, phase)
			if isMontgomery {
				rqp.IMForm(phase, phase)
			}

			coeffs := make([]*big.Int, params.N())
			for i := range coeffs {
				coeffs[i] = new(big.Int)
			}
			rqp.PolyToBigintCentered(phase, 1, coeffs)
			var max float64
			for i := range coeffs {
				f, _ := new(big.Float).SetInt(coeffs[i]).Float64()
				max = math.Max(max, math.Abs(f))
			}

			// generous bound that also covers the public-key case e0 + u*e_pk + s*e1
			bound := params.NoiseBound() * float64(2*params.N()+1)
			if max > bound {
				t.Errorf("key %T, IsMontgomery=%v: |c0 + c1*sk|_inf = %g, want <= %g", key, isMontgomery, max, bound)
			}
		}
	}
}

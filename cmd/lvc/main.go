package main

import (
	"fmt"
	"golang.org/x/tools/go/packages"
)

func main() {
	cfg := &packages.Config{Mode: packages.NeedName | packages.NeedSyntax | packages.NeedTypes | packages.NeedTypesInfo | packages.NeedFiles | packages.NeedImports | packages.NeedDeps, Dir: "/repo", BuildFlags: []string{"-tags=verif"}}
	pkgs, err := packages.Load(cfg, "./ring")
	fmt.Println(len(pkgs), err)
	for _, p := range pkgs { fmt.Println(p.PkgPath, len(p.Syntax), p.Errors) }
}

package bgv

// Finding F33 (property C09, second sentence): Evaluator.MulScaleInvariant(a, b, b) - output == second
// operand - swaps its operands internally to avoid overwriting b and then computes the output scale
// from a.Scale * a.Scale instead of a.Scale * b.Scale: the recorded scale (and hence the decoded
// message) differs from MulScaleInvariantNew(a, b).

import (
	"slices"
	"testing"

	"github.com/tuneinsight/lattigo/v6/core/rlwe"
)

func TestF33MulScaleInvariantOutputIsSecondOperand(t *testing.T) {
	params, err := NewParametersFromLiteral(ParametersLiteral{LogN: 10, LogQ: []int{54, 49, 49}, LogP: []int{52}, PlaintextModulus: 65537})
	if err != nil {
		t.Fatal(err)
	}
	kgen := rlwe.NewKeyGenerator(params)
	sk := kgen.GenSecretKeyNew()
	ecd := NewEncoder(params)
	enc := rlwe.NewEncryptor(params, sk)
	dec := rlwe.NewDecryptor(params, sk)
	eval := NewEvaluator(params, rlwe.NewMemEvaluationKeySet(kgen.GenRelinearizationKeyNew(sk)))
	mk := func(scale uint64, f func(i int) uint64) *rlwe.Ciphertext {
		v := make([]uint64, params.MaxSlots())
		for i := range v {
			v[i] = f(i) % params.PlaintextModulus()
		}
		pt := NewPlaintext(params, params.MaxLevel())
		pt.Scale = rlwe.NewScaleModT(scale, params.PlaintextModulus())
		if err := ecd.Encode(v, pt); err != nil {
			t.Fatal(err)
		}
		ct, err := enc.EncryptNew(pt)
		if err != nil {
			t.Fatal(err)
		}
		return ct
	}
	decode := func(ct *rlwe.Ciphertext) []uint64 {
		v := make([]uint64, params.MaxSlots())
		if err := ecd.Decode(dec.DecryptNew(ct), v); err != nil {
			t.Fatal(err)
		}
		return v
	}
	a := mk(3, func(i int) uint64 { return uint64(2*i + 1) })
	b := mk(7, func(i int) uint64 { return uint64(5*i + 3) })
	fresh, err := eval.MulRelinScaleInvariantNew(a, b)
	if err != nil {
		t.Fatal(err)
	}
	want := decode(fresh)
	if err := eval.MulRelinScaleInvariant(a, b, b); err != nil {
		return // a refusal would be acceptable
	}
	if !b.Scale.Equal(fresh.Scale) {
		t.Errorf("scale with output == second operand: %v, with a fresh output: %v", &b.Scale.Value, &fresh.Scale.Value)
	}
	if have := decode(b); !slices.Equal(want, have) {
		t.Errorf("message with output == second operand differs from the fresh-output result (slot 1: %d, expected %d)", have[1], want[1])
	}
}

package main

import (
	"flag"
	"runtime/pprof"
	"golang.org/x/tools/go/ssa"
	"fmt"
	"os"
	"regexp"
	"sort"
	"strings"
	"time"
)

func usage() {
	fmt.Fprintln(os.Stderr, `usage:
  lvc verify [-repo /repo] [-pkg ./ring,...] [-f regexp] [-t sec] [-v]     (development)
  lvc check <property-id> [--tier quick|thorough]                            (registered checks)
  lvc lemmas                                                                 (prove the lemma library)`)
	os.Exit(2)
}

func main() {
	if len(os.Args) < 2 {
		usage()
	}
	if pf := os.Getenv("LVC_PROF"); pf != "" {
		f, err := os.Create(pf)
		if err == nil {
			_ = pprof.StartCPUProfile(f)
			defer pprof.StopCPUProfile()
		}
	}
	switch os.Args[1] {
	case "verify":
		cmdVerify(os.Args[2:])
	case "lemmas":
		cmdLemmas(os.Args[2:])
	case "check":
		cmdCheck(os.Args[2:])
	case "frames":
		cmdFrames(os.Args[2:])
	case "copydraft":
		prog, err := LoadProgram("/repo", "./...")
		if err != nil {
			fmt.Fprintln(os.Stderr, err)
			os.Exit(2)
		}
		draftCopies(prog)
	default:
		if f, ok := extraCmds[os.Args[1]]; ok {
			f(os.Args[2:])
			return
		}
		usage()
	}
}

var extraCmds = map[string]func([]string){}

func cmdLemmas(args []string) {
	var obs []*Obligation
	for _, n := range lemmaNames() {
		obs = append(obs, lemmaLib[n].Proof())
	}
	DischargeAll(obs, 30)
	bad := 0
	for _, o := range obs {
		fmt.Printf("%-28s %-8s %-7s %.2fs\n", o.Name, o.Status, o.Solver, o.Seconds)
		if o.Status != "unsat" {
			bad++
		}
	}
	if bad > 0 {
		os.Exit(1)
	}
}

func cmdVerify(args []string) {
	fs := flag.NewFlagSet("verify", flag.ExitOnError)
	repo := fs.String("repo", "/repo", "repository root")
	pkgs := fs.String("pkg", "./ring", "comma separated package patterns")
	filt := fs.String("f", "", "regexp on function key")
	timeout := fs.Int("t", 5, "solver timeout per obligation (s)")
	verbose := fs.Bool("v", false, "print every obligation")
	_ = fs.Parse(args)
	t0 := time.Now()
	prog, err := LoadProgram(*repo, strings.Split(*pkgs, ",")...)
	if err != nil {
		fmt.Fprintln(os.Stderr, err)
		os.Exit(2)
	}
	fmt.Printf("loaded in %.1fs: %d contracts\n", time.Since(t0).Seconds(), len(prog.Contracts))
	var re *regexp.Regexp
	if *filt != "" {
		re = regexp.MustCompile(*filt)
	}
	var results []*FuncResult
	var all []*Obligation
	for _, k := range prog.Order {
		if re != nil && !re.MatchString(k) {
			continue
		}
		r := prog.VerifyFunc(k)
		results = append(results, r)
		all = append(all, r.Obls...)
	}
	used := map[string]bool{}
	for n := range usedLemmas {
		used[n] = true
	}
	var ln []string
	for n := range used {
		ln = append(ln, n)
	}
	sort.Strings(ln)
	for _, n := range ln {
		all = append(all, lemmaLib[n].Proof())
	}
	t1 := time.Now()
	DischargeAll(all, *timeout)
	fmt.Printf("%d obligations discharged in %.1fs\n", len(all), time.Since(t1).Seconds())
	bad := 0
	for _, r := range results {
		ok, n := 0, 0
		for _, o := range r.Obls {
			if o.Kind == "vacuity" {
				continue
			}
			n++
			if o.Status == "unsat" {
				ok++
			}
		}
		status := "ok"
		if r.Err != "" {
			status = "ERROR " + r.Err
			bad++
		} else if r.Trusted {
			status = "trusted"
		} else if ok != n {
			status = "FAILED"
			bad++
		}
		fmt.Printf("%-50s %3d/%3d %s\n", r.Name, ok, n, status)
		for _, o := range r.Obls {
			if o.Kind == "vacuity" {
				if o.Status == "unsat" {
					fmt.Printf("    VACUOUS preconditions: %s\n", o.Name)
					bad++
				}
				continue
			}
			if *verbose || o.Status != "unsat" {
				fmt.Printf("    %-60s %-8s %-7s %.2fs %s\n", o.Name, o.Status, o.Solver, o.Seconds, o.File)
				if o.Status == "sat" && len(o.Model) > 0 {
					var ks []string
					for k := range o.Model {
						ks = append(ks, k)
					}
					sort.Strings(ks)
					var parts []string
					for _, k := range ks {
						if len(parts) < 24 {
							parts = append(parts, k+"="+o.Model[k])
						}
					}
					fmt.Printf("        model: %s\n", strings.Join(parts, " "))
				}
			}
		}
	}
	for _, n := range ln {
		for _, o := range all {
			if o.Name == "lemma/"+n && o.Status != "unsat" {
				fmt.Printf("LEMMA %s: %s\n", n, o.Status)
				bad++
			}
		}
	}
	if bad > 0 {
		os.Exit(1)
	}
}


func cmdFrames(args []string) {
	fs := flag.NewFlagSet("frames", flag.ExitOnError)
	repo := fs.String("repo", "/repo", "repository root")
	id := fs.String("p", "C09", "property id")
	filt := fs.String("f", "", "regexp on obligation name")
	verbose := fs.Bool("v", false, "print passing obligations too")
	dump := fs.String("dump", "", "print the mod summaries of functions matching this regexp")
	_ = fs.Parse(args)
	t0 := time.Now()
	prog, err := LoadProgram(*repo, "./...")
	if err != nil {
		fmt.Fprintln(os.Stderr, err)
		os.Exit(2)
	}
	fp, err := LoadFrameProg(*repo)
	if err != nil {
		fmt.Fprintln(os.Stderr, err)
		os.Exit(2)
	}
	fmt.Printf("loaded+solved in %.1fs (%d module functions)\n", time.Since(t0).Seconds(), len(fp.funcs))
	if *dump != "" {
		dre := regexp.MustCompile(*dump)
		var roots []*ssa.Function
		for _, f := range fp.funcs {
			if dre.MatchString(f.String()) {
				roots = append(roots, f)
			}
		}
		fp.Solve(roots)
		fmt.Printf("solved: %d reachable functions, %d analysis steps, %.1fs\n", fp.reachable, fp.steps, time.Since(t0).Seconds())
		for _, f := range fp.funcs {
			if !dre.MatchString(f.String()) {
				continue
			}
			sum := fp.sum[f]
			fmt.Printf("%s  params=%v\n", f.String(), fp.paramNames(f))
			for _, o := range sum.writes.sorted() {
				w := sum.witness[o]
				fmt.Printf("   writes %-22s at %s via %s\n", o, fp.fset.Position(w.Pos), w.Via)
			}
			fmt.Printf("   ret %v\n", sum.ret.sorted())
			for k, v := range sum.links {
				fmt.Printf("   link %s <- %v\n", k, v.sorted())
			}
		}
		return
	}
	obs, notes := frameObligations(prog, fp, *id)
	var re *regexp.Regexp
	if *filt != "" {
		re = regexp.MustCompile(*filt)
	}
	bad := 0
	for _, o := range obs {
		if re != nil && !re.MatchString(o.Name) {
			continue
		}
		if !o.OK {
			bad++
			fmt.Printf("FAIL %s\n     %s\n     at %s\n", o.Name, o.Detail, o.Witness)
		} else if *verbose {
			fmt.Printf("ok   %s\n", o.Name)
		}
	}
	for _, n := range notes {
		fmt.Println("note:", n)
	}
	fmt.Printf("%d frame obligations, %d failed\n", len(obs), bad)
}

func init() {
	extraCmds["copies"] = func(args []string) {
		repo := "/repo"
		if len(args) > 0 {
			repo = args[0]
		}
		prog, err := LoadProgram(repo, "./...")
		if err != nil {
			fmt.Fprintln(os.Stderr, err)
			os.Exit(2)
		}
		bad := 0
		n := 0
		for _, id := range []string{"C10"} {
			for _, o := range copyObligations(prog, id) {
				n++
				if !o.OK {
					bad++
					fmt.Printf("FAIL %s: %s\n", o.Name, o.Detail)
				}
			}
		}
		fmt.Printf("%d copy obligations, %d failed\n", n, bad)
	}
}

func init() {
	extraCmds["averify"] = func(args []string) {
		fs := flag.NewFlagSet("averify", flag.ExitOnError)
		repo := fs.String("repo", "/repo", "repository root")
		filt := fs.String("f", "", "regexp on function key")
		timeout := fs.Int("t", 5, "solver timeout")
		verbose := fs.Bool("v", false, "print every obligation")
		_ = fs.Parse(args)
		prog, err := LoadProgram(*repo, "./...")
		if err != nil {
			fmt.Fprintln(os.Stderr, err)
			os.Exit(2)
		}
		fp, err := LoadFrameProg(*repo)
		if err != nil {
			fmt.Fprintln(os.Stderr, err)
			os.Exit(2)
		}
		var re *regexp.Regexp
		if *filt != "" {
			re = regexp.MustCompile(*filt)
		}
		var results []*bResult
		var all []*Obligation
		for _, k := range prog.AOrder {
			if re != nil && !re.MatchString(k) {
				continue
			}
			c := prog.AContracts[k]
			if c.Trusted {
				continue
			}
			r := VerifyAbstract(prog, fp, k)
			results = append(results, r)
			all = append(all, r.Obls...)
		}
		DischargeAll(all, *timeout)
		bad := 0
		for _, r := range results {
			ok, n := 0, 0
			for _, o := range r.Obls {
				if o.Kind == "vacuity" {
					if o.Status == "unsat" {
						fmt.Printf("    VACUOUS %s\n", o.Name)
						bad++
					}
					continue
				}
				n++
				if o.Status == "unsat" {
					ok++
				}
			}
			status := "ok"
			if r.Err != "" {
				status = "ERROR " + r.Err
				bad++
			} else if ok != n {
				status = "FAILED"
				bad++
			}
			fmt.Printf("%-55s %3d/%3d paths=%d %s\n", r.Name, ok, n, r.Paths, status)
			if *verbose {
				fmt.Printf("    inlined: %s\n    notes: %s\n    ended: %v\n", strings.Join(r.Inlined, ", "), strings.Join(r.Notes, "; "), r.Ended)
			}
			for _, o := range r.Obls {
				if o.Kind != "vacuity" && (*verbose || o.Status != "unsat") {
					fmt.Printf("    %-60s %-8s %-7s %.2fs %s\n", o.Name, o.Status, o.Solver, o.Seconds, o.File)
					if o.Status != "unsat" {
						fmt.Printf("        goal: %s\n", trunc(o.Goal.Key(), 400))
					}
				}
			}
		}
		if bad > 0 {
			os.Exit(1)
		}
	}
}

package ring

import (
	"math/big"
	"math/rand"
	"testing"
)

// ModUpQtoP / ModUpPtoQ / Decomposer.DecomposeAndSplit are not "Lazy" functions and do not
// document a relaxed output range, yet they return residues >= the modulus (up to 3*p_j - 1).

func demoC02Ring(t *testing.T, N int, bits []uint64, n int) (*Ring, []uint64) {
	var moduli []uint64
	for _, b := range bits {
		g := NewNTTFriendlyPrimesGenerator(b, uint64(2*N))
		ps, err := g.NextAlternatingPrimes(n)
		if err != nil {
			t.Fatal(err)
		}
		moduli = append(moduli, ps...)
	}
	r, err := NewRing(N, moduli)
	if err != nil {
		t.Fatal(err)
	}
	return r, moduli
}

func TestDemoC02ModUpReturnsUnreducedResidues(t *testing.T) {

	N := 16
	ringQ, _ := demoC02Ring(t, N, []uint64{55}, 3)
	ringP, P := demoC02Ring(t, N, []uint64{58}, 2)

	be := NewBasisExtender(ringQ, ringP)
	levelQ, levelP := ringQ.MaxLevel(), ringP.MaxLevel()
	Q := ringQ.ModulusAtLevel[levelQ]

	rnd := rand.New(rand.NewSource(1))
	xs := make([]*big.Int, N)
	for j := range xs {
		// |x| < Q/8 : the extension must be the exact centred value
		xs[j] = new(big.Int).Rand(rnd, new(big.Int).Rsh(Q, 3))
		if j&1 == 1 {
			xs[j].Neg(xs[j])
		}
	}

	polQ, polP := ringQ.NewPoly(), ringP.NewPoly()
	ringQ.SetCoefficientsBigint(xs, polQ)
	be.ModUpQtoP(levelQ, levelP, polQ, polP)

	want := ringP.NewPoly()
	ringP.SetCoefficientsBigint(xs, want)

	bad := 0
	for i := range P {
		for j := 0; j < N; j++ {
			if polP.Coeffs[i][j]%P[i] != want.Coeffs[i][j] {
				t.Fatalf("coeff %d mod p_%d: not congruent to x", j, i) // does not happen
			}
			if polP.Coeffs[i][j] >= P[i] {
				if bad < 3 {
					t.Errorf("ModUpQtoP: coeff %d: residue modulo p_%d=%d is %d = x mod p + %d*p", j, i, P[i], polP.Coeffs[i][j], polP.Coeffs[i][j]/P[i])
				}
				bad++
			}
		}
	}
	if bad > 0 {
		t.Errorf("ModUpQtoP: %d/%d residues are not in [0, p_j)", bad, N*len(P))
	}

	// consequence: the regular (non lazy) ring operations give wrong results on this output
	zero, neg, wantNeg := ringP.NewPoly(), ringP.NewPoly(), ringP.NewPoly()
	ringP.Sub(zero, polP, neg)     // 0 - ModUp(x)
	ringP.Sub(zero, want, wantNeg) // 0 - x
	if !neg.Equal(&wantNeg) {
		t.Errorf("ringP.Sub(0, ModUpQtoP(x)) != -x mod P")
	}
}

func TestDemoC02DecomposeAndSplitReturnsModulusAsResidue(t *testing.T) {

	N := 16
	ringQ, Q := demoC02Ring(t, N, []uint64{30, 50}, 1) // Q = {q0 (30 bits), q1 (50 bits)}
	ringP, _ := demoC02Ring(t, N, []uint64{55}, 1)

	dec := NewDecomposer(ringQ, ringP)

	// digit 1 (the residue modulo q1) of the input is -q0 : its residue modulo q0 is 0
	p0 := ringQ.NewPoly()
	for j := 0; j < N; j++ {
		p0.Coeffs[1][j] = Q[1] - Q[0]
	}

	outQ, outP := ringQ.NewPoly(), ringP.NewPoly()
	dec.DecomposeAndSplit(ringQ.MaxLevel(), 0, 1, 1, p0, outQ, outP)

	if got := outQ.Coeffs[0][0]; got != 0 {
		t.Errorf("DecomposeAndSplit: digit -q0 reduced modulo q0=%d is %d, want 0", Q[0], got)
	}
}

// place in: schemes/bgv
package bgv

import (
	"slices"
	"testing"

	"github.com/stretchr/testify/require"

	"github.com/tuneinsight/lattigo/v6/core/rlwe"
	"github.com/tuneinsight/lattigo/v6/ring"
)

// TestDemoWithKeyKeepsScaleInvariant demonstrates that Evaluator.WithKey drops the
// ScaleInvariant flag: a BFV-style (scale-invariant) evaluator silently becomes a
// BGV-style evaluator after WithKey.
func TestDemoWithKeyKeepsScaleInvariant(t *testing.T) {

	p := testInsecure
	p.PlaintextModulus = 0x101

	tc := NewTestContext(p, true) // scale-invariant (BFV-style) evaluator
	params := tc.Params

	orig := tc.Evl
	require.True(t, orig.ScaleInvariant)

	// A second, independent, relinearization key for the same secret key.
	evk2 := rlwe.NewMemEvaluationKeySet(tc.Kgen.GenRelinearizationKeyNew(tc.Sk))
	cpy := orig.WithKey(evk2)

	t.Run("Flag", func(t *testing.T) {
		require.Equal(t, orig.ScaleInvariant, cpy.ScaleInvariant, "WithKey must preserve ScaleInvariant")
	})

	t.Run("MulOutputScale", func(t *testing.T) {
		lvl := params.MaxLevel()
		_, _, ct0 := NewTestVector(params, tc.Ecd, tc.Enc, lvl, params.NewScale(3))
		_, _, ct1 := NewTestVector(params, tc.Ecd, tc.Enc, lvl, params.NewScale(7))

		resOrig, err := orig.MulRelinNew(ct0, ct1)
		require.NoError(t, err)
		resCpy, err := cpy.MulRelinNew(ct0, ct1)
		require.NoError(t, err)

		// BFV-style tensoring yields scale a*b/(-Q mod T), BGV-style tensoring yields a*b.
		want := MulScaleInvariant(params, ct0.Scale, ct1.Scale, lvl)
		require.Equal(t, 0, resOrig.Scale.Cmp(want), "original: BFV-style output scale expected")
		require.Equal(t, 0, resCpy.Scale.Cmp(want), "copy: BFV-style output scale expected, have %v want %v", &resCpy.Scale.Value, &want.Value)
	})

	t.Run("DeepCircuit", func(t *testing.T) {
		// x -> x^(2^depth) by repeated squaring with relinearization and WITHOUT any rescaling.
		// This is the usage pattern of a BFV evaluator (noise growth is additive in bits).
		// With BGV-style tensoring the noise bit-size doubles at each squaring and the result
		// is garbage.
		const depth = 4
		lvl := params.MaxLevel()

		run := func(eval *Evaluator) (ok bool) {
			values, _, ct := NewTestVector(params, tc.Ecd, tc.Enc, lvl, params.DefaultScale())
			pv := ring.Poly{Coeffs: [][]uint64{values}}
			for i := 0; i < depth; i++ {
				require.NoError(t, eval.MulRelin(ct, ct, ct))
				params.RingT().MulCoeffsBarrett(pv, pv, pv)
			}
			have := make([]uint64, params.MaxSlots())
			require.NoError(t, tc.Ecd.Decode(tc.Dec.DecryptNew(ct), have))
			return slices.Equal(have, pv.Coeffs[0])
		}

		require.True(t, run(orig), "original scale-invariant evaluator must evaluate the circuit correctly")
		require.True(t, run(cpy), "evaluator returned by WithKey must evaluate the circuit correctly")
	})
}

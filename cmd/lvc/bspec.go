package main

import (
	"os"
	"fmt"
	"go/ast"
	"go/token"
	"go/types"
	"math/big"
	"strings"

	"golang.org/x/tools/go/ssa"
)

// bEnv evaluates contract expressions for Engine B.  Values are bVals; ghost functions:
//
//	val(p) mexp(p) isntt(p)      ghost attributes of a ring.Poly (identity = its Coeffs array)
//	same(p, q)                   p and q are the same polynomial storage
//	fresh(d, n)                  the n-th value drawn from distribution d
//	draws(d)                     how many values have been drawn from d so far
//	dist(s)                      the distribution a sampler object draws from (ghost field)
//	isnil(x) len(x) old(e) implies ite iff
//
// ALL-CAPS identifiers that are not bound are abstract constants (XE, XS, UNIFORM, P ...).
type bEnv struct {
	e     *bEngine
	st    *bState
	old   *bState
	bind  map[string]bVal
	obind map[string]bVal // bindings for old(): entry values of parameters
	inOld bool
	lets  []LetDef
	pkg   string
	callee bool // the contract is being applied at a call site (announced(x) is then the abstract bsize(x))
}

func (b *bEnv) state() *bState {
	if b.inOld && b.old != nil {
		return b.old
	}
	return b.st
}

func (b *bEnv) Term(x ast.Expr) *Term {
	v := b.Eval(x)
	if s, ok := v.(bScalar); ok {
		return s.t
	}
	panic(verr("spec(B): expected a scalar: %s (got %s)", exprString(x), describeVal(v)))
}

func (b *bEnv) Eval(x ast.Expr) bVal {
	switch n := x.(type) {
	case *ast.ParenExpr:
		return b.Eval(n.X)
	case *ast.BasicLit:
		if n.Kind == token.INT {
			v, _ := new(big.Int).SetString(n.Value, 0)
			return bScalar{Const(v)}
		}
		if n.Kind == token.STRING {
			return bOpaque{name: strings.Trim(n.Value, "\"")}
		}
	case *ast.Ident:
		switch n.Name {
		case "true":
			return bScalar{TTrue}
		case "false":
			return bScalar{TFalse}
		case "nil":
			return bPtr{obj: 0}
		}
		if b.inOld && b.obind != nil {
			if v, ok := b.obind[n.Name]; ok {
				return v
			}
		}
		if v, ok := b.bind[n.Name]; ok {
			if s, ok := v.(bScalar); ok {
				return bScalar{b.state().norm(s.t)}
			}
			return v
		}
		for i := len(b.lets) - 1; i >= 0; i-- {
			if b.lets[i].Name == n.Name {
				nb := *b
				nb.lets = b.lets[:i]
				return nb.Eval(b.lets[i].Expr)
			}
		}
		if n.Name == strings.ToUpper(n.Name) {
			// abstract constants (distribution names ...) are pairwise distinct
			return bScalar{ConstI(abstractConst(n.Name))}
		}
		panic(verr("spec(B): unknown identifier %s", n.Name))
	case *ast.StarExpr:
		pv, ok := b.Eval(n.X).(bPtr)
		if !ok || pv.obj == 0 {
			panic(verr("spec(B): cannot dereference %s", exprString(n.X)))
		}
		return b.e.loadAt(b.state(), pv)
	case *ast.UnaryExpr:
		switch n.Op {
		case token.NOT:
			return bScalar{Not(b.Term(n.X))}
		case token.SUB:
			return bScalar{Neg(b.Term(n.X))}
		}
	case *ast.BinaryExpr:
		switch n.Op {
		case token.LAND:
			return bScalar{And(b.Term(n.X), b.Term(n.Y))}
		case token.LOR:
			return bScalar{Or(b.Term(n.X), b.Term(n.Y))}
		}
		l, r := b.Eval(n.X), b.Eval(n.Y)
		if n.Op == token.EQL || n.Op == token.NEQ {
			if _, isS := l.(bScalar); !isS {
				if t, ok := b.e.refEq(l, r); ok {
					if n.Op == token.NEQ {
						t = Not(t)
					}
					return bScalar{t}
				}
			}
		}
		return b.e.binopSpec(n.Op, l, r, x)
	case *ast.SelectorExpr:
		base := b.Eval(n.X)
		return b.selectField(base, n.Sel.Name, x)
	case *ast.IndexExpr:
		base := b.Eval(n.X)
		idx := b.state().norm(b.Term(n.Index))
		if _, isMap := base.(bOpaque); !idx.IsConst() && !isMap {
			panic(verr("spec(B): symbolic index in %s", exprString(x)))
		}
		key := ""
		if idx.IsConst() {
			key = "[" + idx.Val.String() + "]"
		}
		switch a := base.(type) {
		case bSlice:
			if a.nil_ {
				panic(verr("spec(B): index into nil slice in %s", exprString(x)))
			}
			return b.e.loadAt(b.state(), bPtr{obj: a.arr, path: "/" + key})
		case *bStruct:
			return b.e.field(b.state(), a, key)
		case bOpaque:
			// a map with scalar keys: the entry the execution knows (or an unconstrained, remembered one)
			if mt, ok := a.typ.Underlying().(*types.Map); ok {
				if v, _, found := b.e.mapLookup(b.state(), a, bScalar{idx}, mt.Elem()); found {
					return v
				}
			}
		}
		panic(verr("spec(B): cannot index %s", describeVal(base)))
	case *ast.CallExpr:
		return b.call(n)
	}
	panic(verr("spec(B): unsupported expression %s", exprString(x)))
}

func (b *bEnv) selectField(base bVal, name string, x ast.Expr) bVal {
	st := b.state()
	for depth := 0; depth < 8; depth++ {
		switch a := base.(type) {
		case bPtr:
			if a.obj == 0 {
				panic(verr("spec(B): nil dereference in %s", exprString(x)))
			}
			base = b.e.loadAt(st, a)
			continue
		case *bIface:
			if a.val == nil {
				panic(verr("spec(B): field of an interface value of unknown dynamic type in %s", exprString(x)))
			}
			base = a.val
			continue
		case *bStruct:
			if fieldType(a.typ, name) != nil {
				return b.e.field(st, a, name)
			}
			// promoted through embedded fields
			if s, ok := a.typ.Underlying().(*types.Struct); ok {
				for i := 0; i < s.NumFields(); i++ {
					f := s.Field(i)
					if f.Embedded() && hasField(deref(f.Type()), name) {
						base = b.e.field(st, a, f.Name())
						goto next
					}
				}
			}
			panic(verr("spec(B): no field %s in %s", name, bTypeName(a.typ)))
		default:
			panic(verr("spec(B): selector %s on %s", name, describeVal(base)))
		}
	next:
	}
	panic(verr("spec(B): selector too deep: %s", exprString(x)))
}

func (e *bEngine) binopSpec(op token.Token, l, r bVal, x ast.Expr) bVal {
	a, ok1 := asScalar(l)
	c, ok2 := asScalar(r)
	if !ok1 || !ok2 {
		panic(verr("spec(B): operands of %s must be scalars in %s", op, exprString(x)))
	}
	if a.Sort == SBool {
		switch op {
		case token.EQL:
			return bScalar{Eq(a, c)}
		case token.NEQ:
			return bScalar{Not(Eq(a, c))}
		}
	}
	switch op {
	case token.ADD:
		return bScalar{Add(a, c)}
	case token.SUB:
		return bScalar{Sub(a, c)}
	case token.MUL:
		return bScalar{Mul(a, c)}
	case token.EQL:
		return bScalar{Eq(a, c)}
	case token.NEQ:
		return bScalar{Ne(a, c)}
	case token.LSS:
		return bScalar{Lt(a, c)}
	case token.LEQ:
		return bScalar{Le(a, c)}
	case token.GTR:
		return bScalar{Gt(a, c)}
	case token.GEQ:
		return bScalar{Ge(a, c)}
	}
	panic(verr("spec(B): unsupported operator %s", op))
}

func (b *bEnv) ghostSel(name string, p ast.Expr) *Term {
	v := b.Eval(p)
	id, ok := b.e.polyID(b.state(), v)
	if !ok {
		panic(verr("spec(B): %s(%s): not a polynomial (got %s)", name, exprString(p), describeVal(v)))
	}
	return Select(b.e.ghostArr(b.state(), name), ConstI(int64(id)))
}

func (b *bEnv) call(n *ast.CallExpr) bVal {
	fn, ok := n.Fun.(*ast.Ident)
	if !ok {
		panic(verr("spec(B): unsupported call %s", exprString(n)))
	}
	arg := func(i int) ast.Expr {
		if i >= len(n.Args) {
			panic(verr("spec(B): %s: missing argument", fn.Name))
		}
		return n.Args[i]
	}
	if strings.HasPrefix(fn.Name, "uf_") {
		// uf_<name>(t1, ..., tn): an uninterpreted integer function of integer terms.  A trusted contract
		// uses it to NAME what an opaque callee computes, so that a caller's contract can refer to it
		var ts []*Term
		for i := range n.Args {
			ts = append(ts, b.Term(n.Args[i]))
		}
		return bScalar{App(fmt.Sprintf("%s%d", fn.Name, len(ts)), SInt, ts...)}
	}
	switch fn.Name {
	case "unbox":
		// the value inside an interface value whose dynamic value the execution knows (a boxed scalar)
		if iv, ok := b.Eval(arg(0)).(*bIface); ok && iv.val != nil {
			return iv.val
		}
		panic(verr("spec(B): unbox(%s): not an interface value with a known dynamic value", exprString(arg(0))))
	case "contentid":
		// an integer naming the contents of a value (access path + store version, scalars by value)
		ts := b.e.contentTerms(b.state(), b.Eval(arg(0)), arg(0))
		return bScalar{App(fmt.Sprintf("contentid%d", len(ts)), SInt, ts...)}
	case "old":
		nb := *b
		nb.inOld = true
		return nb.Eval(arg(0))
	case "val":
		return bScalar{b.ghostSel("val", arg(0))}
	case "mexp":
		return bScalar{b.ghostSel("mexp", arg(0))}
	case "uni":
		return bScalar{Eq(b.ghostSel("uni", arg(0)), ConstI(1))}
	case "dom":
		return bScalar{b.ghostSel("ntt", arg(0))}
	case "isntt":
		return bScalar{Le(ConstI(1), b.ghostSel("ntt", arg(0)))}
	case "iscoef":
		d := b.ghostSel("ntt", arg(0))
		return bScalar{Or(Eq(d, ConstI(0)), Eq(d, ConstI(2)))}
	case "same":
		x, ok1 := b.e.polyID(b.state(), b.Eval(arg(0)))
		y, ok2 := b.e.polyID(b.state(), b.Eval(arg(1)))
		return bScalar{Bool(ok1 && ok2 && x == y)}
	case "ispoly":
		_, ok := b.e.polyID(b.state(), b.Eval(arg(0)))
		return bScalar{Bool(ok)}
	case "fresh":
		return bScalar{App("fresh", SInt, b.Term(arg(0)), b.Term(arg(1)))}
	case "draws":
		return bScalar{Select(b.e.ghostArr(b.state(), "draws"), b.Term(arg(0)))}
	case "dist":
		// ghost field of a sampler object, named after its access path
		v := b.Eval(arg(0))
		return bScalar{App("dist", SInt, ConstI(int64(b.e.objectIdentity(b.state(), v, arg(0)))))}
	case "len":
		lv := b.Eval(arg(0))
		if p, ok := lv.(bPtr); ok && p.obj != 0 {
			lv = b.e.loadAt(b.state(), p)
		}
		switch a := lv.(type) {
		case bSlice:
			return bScalar{b.state().norm(a.len)}
		case *bStruct:
			if at, ok := a.typ.Underlying().(*types.Array); ok {
				return bScalar{ConstI(at.Len())}
			}
		}
		panic(verr("spec(B): len of %s", exprString(arg(0))))
	case "cap":
		cv := b.Eval(arg(0))
		if p, ok := cv.(bPtr); ok && p.obj != 0 {
			cv = b.e.loadAt(b.state(), p)
		}
		if a, ok := cv.(bSlice); ok && a.cap != nil {
			return bScalar{b.state().norm(a.cap)}
		}
		panic(verr("spec(B): cap of %s is not tracked", exprString(arg(0))))
	case "cmpval":
		// the outcome of comparing two values (rlwe.Scale.Cmp ...): an uninterpreted function of the
		// identity of their contents, so that a contract can name the branch a comparison selected
		ts := append(b.e.contentTerms(b.state(), b.Eval(arg(0)), arg(0)), b.e.contentTerms(b.state(), b.Eval(arg(1)), arg(1))...)
		return bScalar{App(fmt.Sprintf("cmpval%d", len(ts)), SInt, ts...)}
	case "sameval":
		// deep equality of two values of the same type: scalars equal, pointers to the same location,
		// slices over the same array with the same length, structs field by field
		return bScalar{b.e.sameVal(b.state(), b.Eval(arg(0)), b.Eval(arg(1)), exprString(arg(0)))}
	case "samearray":
		// two slices over the same backing array object
		x, ok1 := b.Eval(arg(0)).(bSlice)
		y, ok2 := b.Eval(arg(1)).(bSlice)
		return bScalar{Bool(ok1 && ok2 && !x.nil_ && !y.nil_ && x.arr == y.arr)}
	case "isnil":
		known, t := false, TFalse
		switch a := b.Eval(arg(0)).(type) {
		case bPtr:
			known, t = true, Bool(a.obj == 0)
			if a.nilv != nil {
				t = b.state().norm(a.nilv)
			}
		case bSlice:
			known, t = true, Bool(a.nil_)
		case *bIface:
			if a.isNil {
				known, t = true, TTrue
			} else if a.val != nil || a.dyn != nil {
				known, t = true, TFalse
			} else if a.sym != "" {
				known, t = true, b.state().norm(Var(a.sym+".isnil", SBool))
			}
		case bOpaque:
			if nt, ok := opaqueNil(a); ok {
				known, t = true, b.state().norm(nt)
			}
		}
		if !known {
			panic(verr("spec(B): nil-ness of %s is not known", exprString(arg(0))))
		}
		return bScalar{t}
	case "bsize":
		// announced serialized size of a value: an uninterpreted function of the identity of its contents
		ts := b.e.contentTerms(b.state(), b.Eval(arg(0)), arg(0))
		return bScalar{App(fmt.Sprintf("bsize%d", len(ts)), SInt, ts...)}
	case "announced":
		// the number of bytes the value announces: what its BinarySize method returns.  In the
		// function under verification the method is executed symbolically on the current state; at
		// a call site it is the abstract size of the callee's object.
		v := b.Eval(arg(0))
		return bScalar{b.e.announced(b.state(), v, arg(0), b.callee)}
	case "pending", "lastword":
		// ghost counters per object: pending(w), bytes handed to a buffered writer and not flushed yet;
		// lastword(r), the value the last ReadUint64 on that reader decoded
		name := exprString(n.Fun)
		return bScalar{Select(b.e.ghostArr(b.state(), name), ConstI(int64(b.e.objectIdentity(b.state(), b.Eval(arg(0)), arg(0)))))}
	case "implies":
		// the consequent is evaluated only when the antecedent is not plainly false (nil guards)
		c := b.state().norm(b.Term(arg(0)))
		if c.IsFalse() {
			return bScalar{TTrue}
		}
		return bScalar{Implies(c, b.Term(arg(1)))}
	case "iff":
		return bScalar{Eq(b.Term(arg(0)), b.Term(arg(1)))}
	case "ite":
		c := b.state().norm(b.Term(arg(0)))
		if c.IsTrue() {
			return b.Eval(arg(1))
		}
		if c.IsFalse() {
			return b.Eval(arg(2))
		}
		x, y := b.Term(arg(1)), b.Term(arg(2))
		return bScalar{Ite(c, x, y)}
	}
	sf, ok := b.e.prog.SpecFuncs[b.pkg+"."+fn.Name]
	if !ok {
		// spec macros are looked up across packages by name (ring's macros are used by rlwe, multiparty)
		for k, v := range b.e.prog.SpecFuncs {
			if strings.HasSuffix(k, "."+fn.Name) {
				sf, ok = v, true
			}
		}
	}
	if ok && sf.Body == nil {
		// ghost attribute: an uninterpreted function of the identities / scalar values of its arguments
		var ts []*Term
		for i := range sf.Params {
			v := b.Eval(arg(i))
			if sc, isS := v.(bScalar); isS {
				ts = append(ts, sc.t)
			} else {
				ts = append(ts, ConstI(int64(b.e.objectIdentity(b.state(), v, arg(i)))))
			}
		}
		if sf.Bool {
			return bScalar{App("ghost."+fn.Name, SBool, ts...)}
		}
		return bScalar{App("ghost."+fn.Name, SInt, ts...)}
	}
	if ok && sf.Body != nil {
		nb := *b
		nb.bind = map[string]bVal{}
		nb.lets = nil
		for i, p := range sf.Params {
			nb.bind[p] = b.Eval(arg(i))
		}
		return nb.Eval(sf.Body)
	}
	panic(verr("spec(B): unknown function %s", fn.Name))
}

// objectIdentity: a stable integer naming the object a value refers to (pointer target, slice
// array, interface payload), used for ghost fields such as dist(sampler).
func (e *bEngine) objectIdentity(st *bState, v bVal, x ast.Expr) int {
	switch a := v.(type) {
	case bPtr:
		return a.obj
	case bSlice:
		return a.arr
	case *bIface:
		if a.val != nil {
			return e.objectIdentity(st, a.val, x)
		}
		return e.reg.idFor("iface:" + a.sym)
	case *bStruct:
		if a.sym != "" {
			// the contents of a named object: the object itself
			if id, ok := e.reg.ids[a.sym]; ok {
				return id
			}
			return e.reg.idFor("struct:" + a.sym)
		}
	}
	panic(verr("spec(B): %s does not denote an object", exprString(x)))
}

var abstractConsts = map[string]int64{"XE": 9001, "XS": 9002, "UNIFORM": 9003, "XSMUDGE": 9004}

func abstractConst(name string) int64 {
	if v, ok := abstractConsts[name]; ok {
		return v
	}
	v := int64(9100 + len(abstractConsts))
	abstractConsts[name] = v
	return v
}

// opaqueNil: nil-ness of a map value (maps are opaque; a map made by the code is not nil, the
// nil-ness of an input map is a symbolic boolean named after its access path).
func opaqueNil(a bOpaque) (*Term, bool) {
	if a.typ == nil {
		return nil, false
	}
	if _, isMap := a.typ.Underlying().(*types.Map); !isMap {
		return nil, false
	}
	if isMadeMap(a.name) {
		return TFalse, true
	}
	if a.name == "zero" {
		return TTrue, true
	}
	return Var(a.name+".isnil", SBool), true
}

// contentTerms names the contents of a value: two values with the same terms have the same
// contents.  Structs are named by (access path, store version), slices by (array, version, length).
func (e *bEngine) contentTerms(st *bState, v bVal, x ast.Expr) []*Term {
	switch a := v.(type) {
	case bScalar:
		return []*Term{a.t}
	case bPtr:
		if a.obj == 0 {
			panic(verr("spec(B): contents of a nil pointer in %s", exprString(x)))
		}
		o := e.obj(st, a.obj)
		if o.arr && a.path == "" {
			return []*Term{ConstI(int64(e.reg.idFor(fmt.Sprintf("content:arr%d#%d", a.obj, o.ver))))}
		}
		return e.contentTerms(st, e.loadAt(st, a), x)
	case *bIface:
		if a.val != nil {
			return e.contentTerms(st, a.val, x)
		}
		return []*Term{ConstI(int64(e.reg.idFor("content:iface:" + a.sym)))}
	case *bStruct:
		if os.Getenv("LVC_DEBUG") != "" {
			fmt.Fprintf(os.Stderr, "content %s: %s#%d -> %d\n", exprString(x), a.sym, a.ver, e.reg.idFor(fmt.Sprintf("content:%s#%d", a.sym, a.ver)))
		}
		return []*Term{ConstI(int64(e.reg.idFor(fmt.Sprintf("content:%s#%d", a.sym, a.ver))))}
	case bSlice:
		if a.nil_ {
			return []*Term{ConstI(0), ConstI(0)}
		}
		o := e.obj(st, a.arr)
		return []*Term{ConstI(int64(e.reg.idFor(fmt.Sprintf("content:arr%d#%d", a.arr, o.ver)))), st.norm(a.len)}
	case bOpaque:
		return []*Term{ConstI(int64(e.reg.idFor("content:opaque:" + a.name)))}
	}
	panic(verr("spec(B): %s has no nameable contents", exprString(x)))
}

// announced runs the BinarySize method of v's type on (a copy of) the state and returns its
// result as a term: an if-then-else over the paths of the method.
func (e *bEngine) announced(st *bState, v bVal, x ast.Expr, asCall bool) *Term {
	var typ types.Type
	arg := v
	switch a := v.(type) {
	case *bStruct:
		typ = a.typ
	case bSlice, bOpaque:
		panic(verr("spec(B): announced(%s): give the contract a struct or pointer value", exprString(x)))
	case bPtr:
		if a.obj == 0 {
			panic(verr("spec(B): announced(nil) in %s", exprString(x)))
		}
		lv := e.loadAt(st, a)
		sv, ok := lv.(*bStruct)
		if !ok {
			// a named slice / map type behind a pointer (structs.Vector ...): its size is abstract
			ts := e.contentTerms(st, lv, x)
			return App(fmt.Sprintf("bsize%d", len(ts)), SInt, ts...)
		}
		typ, arg = sv.typ, cloneVal(sv)
	default:
		panic(verr("spec(B): announced(%s): unsupported value %s", exprString(x), describeVal(v)))
	}
	var fn *ssa.Function
	byPtr := false
	if sel := e.fp.prog.MethodSets.MethodSet(typ).Lookup(nil, "BinarySize"); sel != nil {
		fn = e.fp.prog.MethodValue(sel)
	} else if sel := e.fp.prog.MethodSets.MethodSet(types.NewPointer(typ)).Lookup(nil, "BinarySize"); sel != nil {
		fn = e.fp.prog.MethodValue(sel)
		byPtr = true
	}
	if fn == nil || len(fn.Blocks) == 0 {
		panic(verr("spec(B): announced(%s): type %s has no BinarySize method", exprString(x), bTypeName(typ)))
	}
	if asCall {
		// at a call site the announced size is a call of BinarySize: abstract when the method is under contract
		if con, _ := e.contractFor(fn); con != nil {
			ts := e.contentTerms(st, v, x)
			return App(fmt.Sprintf("bsize%d", len(ts)), SInt, ts...)
		}
	}
	sub := st.clone()
	sub.frames, sub.calls = nil, nil
	if byPtr {
		if p, ok := v.(bPtr); ok {
			arg = p
		} else {
			sub.nextID++
			sub.objs[sub.nextID] = &bObject{id: sub.nextID, typ: typ, root: cloneVal(arg)}
			arg = bPtr{obj: sub.nextID}
		}
	}
	base := len(sub.path)
	e.pushFrame(sub, fn, []bVal{arg}, nil, nil)
	type out struct{ pc, r *Term }
	var outs []out
	saved := e.obls
	e.runAll(sub, func(fs *bState, res bVal) {
		r, ok := asScalar(res)
		if !ok {
			panic(verr("spec(B): BinarySize of %s does not return a scalar", bTypeName(typ)))
		}
		// branch conditions select the path; the facts met on it (postconditions of the callees,
		// about variables that are fresh on this path) hold under them
		pc := TTrue
		var facts []*Term
		for _, a := range fs.path[base:] {
			if fs.branch[a.Key()] {
				pc = And(pc, a)
			} else {
				facts = append(facts, a)
			}
		}
		for _, f := range facts {
			st.assume(Implies(pc, f))
		}
		outs = append(outs, out{pc, fs.norm(r)})
	})
	e.obls = saved
	if len(outs) == 0 {
		panic(verr("spec(B): BinarySize of %s has no returning path", bTypeName(typ)))
	}
	t := Var(e.freshName("announced.other"), SInt)
	if len(outs) == 1 && outs[0].pc.IsTrue() {
		return outs[0].r
	}
	for i := len(outs) - 1; i >= 0; i-- {
		t = Ite(outs[i].pc, outs[i].r, t)
	}
	return t
}

package bgv

import (
	"testing"

	"github.com/tuneinsight/lattigo/v6/core/rlwe"
)

// Adding two fresh ciphertexts whose scales are s and -s (mod T) only requires to negate one of
// them (the scale matching picks the multipliers (r0, r1) = (-1, 1), the pair with minimal
// |r0|+|r1|): this costs about one bit of noise budget. The evaluator documents that the automatic
// scale matching "will increase the noise by a small factor" and that the multipliers are chosen so
// that the added noise is minimal.
//
// With Q of 111 bits and T of 58 bits a fresh ciphertext has more than 40 bits of budget left, so
// the sum (and difference, multiply-then-add, MatchScalesAndLevel) must decode exactly.
func TestC05ScaleMatchingNegativeMultiplier(t *testing.T) {

	params, err := NewParametersFromLiteral(ParametersLiteral{
		LogN:             5,
		Q:                []uint64{0x10000000006e0001, 0x3fffffffffe41}, // 61 + 50 bits
		P:                []uint64{0x1fffffffffe00001},
		PlaintextModulus: 0x3ffffffffffffc1, // 58 bits, 1 mod 2N
	})
	if err != nil {
		t.Fatal(err)
	}

	T := params.PlaintextModulus()
	kgen := rlwe.NewKeyGenerator(params)
	sk := kgen.GenSecretKeyNew()
	enc := rlwe.NewEncryptor(params, sk)
	dec := rlwe.NewDecryptor(params, sk)
	ecd := NewEncoder(params)
	eval := NewEvaluator(params, nil)

	a := make([]uint64, params.MaxSlots())
	b := make([]uint64, params.MaxSlots())
	for i := range a {
		a[i] = uint64(3*i + 1)
		b[i] = uint64(7*i + 5)
	}

	encrypt := func(v []uint64, scale uint64) *rlwe.Ciphertext {
		pt := NewPlaintext(params, params.MaxLevel())
		pt.Scale = params.NewScale(scale)
		if err := ecd.Encode(v, pt); err != nil {
			t.Fatal(err)
		}
		ct, err := enc.EncryptNew(pt)
		if err != nil {
			t.Fatal(err)
		}
		return ct
	}

	decode := func(ct *rlwe.Ciphertext) []uint64 {
		have := make([]uint64, params.MaxSlots())
		if err := ecd.Decode(dec.DecryptNew(ct), have); err != nil {
			t.Fatal(err)
		}
		return have
	}

	equal := func(x, y []uint64) bool {
		for i := range x {
			if x[i] != y[i] {
				return false
			}
		}
		return true
	}

	// scales 1 and T-1 = -1 mod T
	ct0 := encrypt(a, 1)
	ct1 := encrypt(b, T-1)

	// sanity: both operands decode exactly with their recorded scale
	if !equal(decode(ct0), a) || !equal(decode(ct1), b) {
		t.Fatal("operands do not decode")
	}

	sum := make([]uint64, len(a))
	diff := make([]uint64, len(a))
	for i := range a {
		sum[i] = (a[i] + b[i]) % T
		diff[i] = (a[i] + T - b[i]) % T
	}

	res, err := eval.AddNew(ct0, ct1)
	if err != nil {
		t.Fatal(err)
	}
	if !equal(decode(res), sum) {
		t.Errorf("Add(ct(scale 1), ct(scale T-1)): decoded result (recorded scale %d) is not a+b", res.Scale.Uint64())
	}

	res, err = eval.SubNew(ct0, ct1)
	if err != nil {
		t.Fatal(err)
	}
	if !equal(decode(res), diff) {
		t.Errorf("Sub(ct(scale 1), ct(scale T-1)): decoded result (recorded scale %d) is not a-b", res.Scale.Uint64())
	}

	// MatchScalesAndLevel must leave both ciphertexts decodable
	c0, c1 := ct0.CopyNew(), ct1.CopyNew()
	eval.MatchScalesAndLevel(c0, c1)
	if c0.Scale.Cmp(c1.Scale) != 0 {
		t.Errorf("MatchScalesAndLevel: scales differ")
	}
	if !equal(decode(c0), a) || !equal(decode(c1), b) {
		t.Errorf("MatchScalesAndLevel(ct(scale 1), ct(scale T-1)): operands do not decode any more (scales %d %d)", c0.Scale.Uint64(), c1.Scale.Uint64())
	}

	// MulThenAdd of ct0 * 1 (plaintext of scale 1) on an accumulator of scale T-1
	one := make([]uint64, len(a))
	for i := range one {
		one[i] = 1
	}
	ptOne := NewPlaintext(params, params.MaxLevel())
	if err := ecd.Encode(one, ptOne); err != nil {
		t.Fatal(err)
	}
	acc := ct1.CopyNew()
	if err := eval.MulThenAdd(ct0, ptOne, acc); err != nil {
		t.Fatal(err)
	}
	if !equal(decode(acc), sum) {
		t.Errorf("MulThenAdd(ct(scale 1), pt(scale 1), acc(scale T-1)): decoded result (recorded scale %d) is not b+a*1", acc.Scale.Uint64())
	}
}

package bootstrapping

import (
	"testing"

	"github.com/tuneinsight/lattigo/v6/ring"
)

// A bootstrapping.ParametersLiteral whose Xs or Xe field is set (the documented way to select a
// non-default secret / error distribution) can be marshalled but not unmarshalled.
func TestC08ParametersLiteralWithDistributions(t *testing.T) {

	logN := 10

	for _, tc := range []struct {
		name string
		lit  ParametersLiteral
	}{
		{"Xs=Ternary{H:192}", ParametersLiteral{LogN: &logN, Xs: ring.Ternary{H: 192}}},
		{"Xe=DiscreteGaussian", ParametersLiteral{LogN: &logN, Xe: ring.DiscreteGaussian{Sigma: 3.2, Bound: 19.2}}},
		{"Xs=DefaultXs,Xe=DefaultXe", ParametersLiteral{Xs: DefaultXs, Xe: DefaultXe}},
	} {
		t.Run(tc.name, func(t *testing.T) {

			data, err := tc.lit.MarshalBinary()
			if err != nil {
				t.Fatal(err)
			}

			var got ParametersLiteral
			if err = got.UnmarshalBinary(data); err != nil {
				t.Fatalf("UnmarshalBinary of the bytes produced by MarshalBinary fails: %v\n  encoding: %s", err, data)
			}

			if got.Xs != tc.lit.Xs || got.Xe != tc.lit.Xe {
				t.Fatalf("distributions not preserved: have Xs=%v Xe=%v, want Xs=%v Xe=%v", got.Xs, got.Xe, tc.lit.Xs, tc.lit.Xe)
			}

			data2, err := got.MarshalBinary()
			if err != nil {
				t.Fatal(err)
			}

			if string(data) != string(data2) {
				t.Fatalf("re-encoding differs:\n %s\n %s", data, data2)
			}
		})
	}
}

package main

// Term IR for verification conditions.
//
// Int-sorted terms are kept in a polynomial normal form: a sum of monomials, each a
// constant coefficient times a sorted product of atoms.  Products of two or more atoms
// are rendered with the uninterpreted function `mul` (see DESIGN.md 2.2): because the
// normal form already applies associativity, commutativity and distributivity, every
// polynomial identity that follows *linearly* from the hypotheses is decided by linear
// arithmetic over the monomial atoms.  Facts about `mul` that are not of that shape
// (bounds, divisibility) come from lemma instances.

import (
	"sync/atomic"
	"fmt"
	"math/big"
	"sort"
	"strings"
)

type Sort int

const (
	SInt Sort = iota
	SBool
	SArr
)

type Mono struct {
	Coef  *big.Int
	Atoms []*Term // sorted by key
}

type Term struct {
	Op    string // const var poly div mod ite select store app | true false not and or implies eq lt le forall
	Args  []*Term
	Name  string
	Val   *big.Int
	Sort  Sort
	Monos []Mono  // for poly
	BV    []*Term // forall bound variables
	Pat   []*Term // forall patterns
	key   atomic.Pointer[string] // rendered form, computed once (obligations are discharged concurrently and share terms)
}

var (
	bigZero = big.NewInt(0)
	bigOne  = big.NewInt(1)
	W64     = new(big.Int).Lsh(bigOne, 64)
	W63     = new(big.Int).Lsh(bigOne, 63)
)

func Const(v *big.Int) *Term   { return &Term{Op: "const", Val: new(big.Int).Set(v), Sort: SInt} }
func ConstI(v int64) *Term     { return Const(big.NewInt(v)) }
func Var(n string, s Sort) *Term { return &Term{Op: "var", Name: n, Sort: s} }

var TTrue = &Term{Op: "true", Sort: SBool}
var TFalse = &Term{Op: "false", Sort: SBool}

func Bool(b bool) *Term {
	if b {
		return TTrue
	}
	return TFalse
}

func (t *Term) IsConst() bool { return t.Op == "const" }
func (t *Term) IsTrue() bool  { return t.Op == "true" }
func (t *Term) IsFalse() bool { return t.Op == "false" }

// Key is the canonical SMT-LIB rendering (cached).
func (t *Term) Key() string {
	if k := t.key.Load(); k != nil {
		return *k
	}
	k := t.render()
	t.key.Store(&k)
	return k
}

func smtInt(v *big.Int) string {
	if v.Sign() < 0 {
		return "(- " + new(big.Int).Neg(v).String() + ")"
	}
	return v.String()
}

func smtName(n string) string {
	ok := true
	for _, c := range n {
		if !(c >= 'a' && c <= 'z' || c >= 'A' && c <= 'Z' || c >= '0' && c <= '9' || c == '_' || c == '!' || c == '.' || c == '$' || c == '@' || c == '#') {
			ok = false
		}
	}
	if ok && n != "" && !(n[0] >= '0' && n[0] <= '9') {
		return n
	}
	// a quoted symbol may not contain | or \ (names built from symbolic indices embed quoted names)
	n = strings.NewReplacer("|", "'", "\\", "/").Replace(n)
	return "|" + n + "|"
}

func renderMono(m Mono) string {
	var prod string
	switch len(m.Atoms) {
	case 0:
		return smtInt(m.Coef)
	case 1:
		prod = m.Atoms[0].Key()
	default:
		prod = "(mul " + m.Atoms[0].Key() + " " + m.Atoms[1].Key() + ")"
		for _, a := range m.Atoms[2:] {
			prod = "(mul " + prod + " " + a.Key() + ")"
		}
	}
	if m.Coef.Cmp(bigOne) == 0 {
		return prod
	}
	return "(* " + smtInt(m.Coef) + " " + prod + ")"
}

func (t *Term) render() string {
	switch t.Op {
	case "const":
		return smtInt(t.Val)
	case "var":
		return smtName(t.Name)
	case "true", "false":
		return t.Op
	case "poly":
		if len(t.Monos) == 1 {
			return renderMono(t.Monos[0])
		}
		parts := make([]string, len(t.Monos))
		for i, m := range t.Monos {
			parts[i] = renderMono(m)
		}
		return "(+ " + strings.Join(parts, " ") + ")"
	case "eq":
		return "(= " + t.Args[0].Key() + " " + t.Args[1].Key() + ")"
	case "lt":
		return "(< " + t.Args[0].Key() + " " + t.Args[1].Key() + ")"
	case "le":
		return "(<= " + t.Args[0].Key() + " " + t.Args[1].Key() + ")"
	case "implies":
		return "(=> " + t.Args[0].Key() + " " + t.Args[1].Key() + ")"
	case "app":
		if len(t.Args) == 0 {
			return smtName(t.Name)
		}
		parts := make([]string, len(t.Args))
		for i, a := range t.Args {
			parts[i] = a.Key()
		}
		return "(" + smtName(t.Name) + " " + strings.Join(parts, " ") + ")"
	case "forall":
		var b strings.Builder
		b.WriteString("(forall (")
		for _, v := range t.BV {
			b.WriteString("(" + smtName(v.Name) + " Int)")
		}
		b.WriteString(") ")
		if len(t.Pat) > 0 {
			b.WriteString("(! " + t.Args[0].Key() + " :pattern (")
			for i, p := range t.Pat {
				if i > 0 {
					b.WriteString(" ")
				}
				b.WriteString(p.Key())
			}
			b.WriteString(")))")
		} else {
			b.WriteString(t.Args[0].Key() + ")")
		}
		return b.String()
	default: // div mod ite select store not and or
		parts := make([]string, len(t.Args))
		for i, a := range t.Args {
			parts[i] = a.Key()
		}
		return "(" + t.Op + " " + strings.Join(parts, " ") + ")"
	}
}

// ---------- polynomial normal form ----------

func isAtom(t *Term) bool { return t.Sort == SInt && t.Op != "const" && t.Op != "poly" }

func toMonos(t *Term) []Mono {
	switch t.Op {
	case "const":
		if t.Val.Sign() == 0 {
			return nil
		}
		return []Mono{{Coef: t.Val}}
	case "poly":
		return t.Monos
	default:
		return []Mono{{Coef: bigOne, Atoms: []*Term{t}}}
	}
}

func monoKey(atoms []*Term) string {
	ks := make([]string, len(atoms))
	for i, a := range atoms {
		ks[i] = a.Key()
	}
	return strings.Join(ks, "\x00")
}

func fromMonos(ms []Mono) *Term {
	// merge equal monomials
	type ent struct {
		m Mono
		k string
	}
	idx := map[string]int{}
	var out []ent
	for _, m := range ms {
		k := monoKey(m.Atoms)
		if i, ok := idx[k]; ok {
			out[i].m.Coef = new(big.Int).Add(out[i].m.Coef, m.Coef)
		} else {
			idx[k] = len(out)
			out = append(out, ent{Mono{Coef: new(big.Int).Set(m.Coef), Atoms: m.Atoms}, k})
		}
	}
	var res []ent
	for _, e := range out {
		if e.m.Coef.Sign() != 0 {
			res = append(res, e)
		}
	}
	sort.SliceStable(res, func(i, j int) bool {
		if len(res[i].m.Atoms) != len(res[j].m.Atoms) {
			return len(res[i].m.Atoms) > len(res[j].m.Atoms)
		}
		return res[i].k < res[j].k
	})
	if len(res) == 0 {
		return ConstI(0)
	}
	if len(res) == 1 {
		m := res[0].m
		if len(m.Atoms) == 0 {
			return Const(m.Coef)
		}
		if len(m.Atoms) == 1 && m.Coef.Cmp(bigOne) == 0 {
			return m.Atoms[0]
		}
	}
	monos := make([]Mono, len(res))
	for i, e := range res {
		monos[i] = e.m
	}
	return &Term{Op: "poly", Monos: monos, Sort: SInt}
}

func Add(ts ...*Term) *Term {
	var ms []Mono
	for _, t := range ts {
		ms = append(ms, toMonos(t)...)
	}
	return fromMonos(ms)
}

func Neg(t *Term) *Term { return MulC(big.NewInt(-1), t) }
func Sub(a, b *Term) *Term { return Add(a, Neg(b)) }

func MulC(c *big.Int, t *Term) *Term {
	var ms []Mono
	for _, m := range toMonos(t) {
		ms = append(ms, Mono{Coef: new(big.Int).Mul(c, m.Coef), Atoms: m.Atoms})
	}
	return fromMonos(ms)
}

const maxPolyMonos = 4000

func Mul(a, b *Term) *Term {
	// distribute over ite so that case splits stay linear: (c ? A : B) * t = c ? A*t : B*t
	if !b.IsConst() {
		if c, x, y, ok := liftIte(a); ok {
			return Ite(c, Mul(x, b), Mul(y, b))
		}
	}
	if !a.IsConst() {
		if c, x, y, ok := liftIte(b); ok {
			return Ite(c, Mul(a, x), Mul(a, y))
		}
	}
	ma, mb := toMonos(a), toMonos(b)
	if len(ma)*len(mb) > maxPolyMonos {
		panic("polynomial blow-up in Mul")
	}
	var ms []Mono
	for _, x := range ma {
		for _, y := range mb {
			atoms := make([]*Term, 0, len(x.Atoms)+len(y.Atoms))
			atoms = append(atoms, x.Atoms...)
			atoms = append(atoms, y.Atoms...)
			sort.SliceStable(atoms, func(i, j int) bool { return atoms[i].Key() < atoms[j].Key() })
			ms = append(ms, Mono{Coef: new(big.Int).Mul(x.Coef, y.Coef), Atoms: atoms})
		}
	}
	return fromMonos(ms)
}

// liftIte finds an ite atom occurring as a factor of some monomial of t and returns the two
// instances of t with that atom replaced by its branches.
func liftIte(t *Term) (c, x, y *Term, ok bool) {
	if t.Op == "ite" && t.Sort == SInt {
		return t.Args[0], t.Args[1], t.Args[2], true
	}
	if t.Op != "poly" {
		return nil, nil, nil, false
	}
	for _, m := range t.Monos {
		for _, a := range m.Atoms {
			if a.Op == "ite" {
				key := a.Key()
				repl := func(r *Term) *Term {
					var sum []*Term
					for _, m2 := range t.Monos {
						p := Const(m2.Coef)
						for _, a2 := range m2.Atoms {
							if a2.Key() == key {
								p = Mul(p, r)
							} else {
								p = Mul(p, a2)
							}
						}
						sum = append(sum, p)
					}
					return Add(sum...)
				}
				return a.Args[0], repl(a.Args[1]), repl(a.Args[2]), true
			}
		}
	}
	return nil, nil, nil, false
}

func floorDivMod(a, b *big.Int) (*big.Int, *big.Int) {
	// SMT-LIB semantics: b != 0, 0 <= r < |b|, a = b*q + r
	q, r := new(big.Int), new(big.Int)
	q.DivMod(a, b, r) // Euclidean
	return q, r
}

func Div(a, b *Term) *Term {
	if a.IsConst() && b.IsConst() && b.Val.Sign() != 0 {
		q, _ := floorDivMod(a.Val, b.Val)
		return Const(q)
	}
	if b.IsConst() && b.Val.Cmp(bigOne) == 0 {
		return a
	}
	return &Term{Op: "div", Args: []*Term{a, b}, Sort: SInt}
}

func Mod(a, b *Term) *Term {
	if a.IsConst() && b.IsConst() && b.Val.Sign() != 0 {
		_, r := floorDivMod(a.Val, b.Val)
		return Const(r)
	}
	if b.IsConst() && b.Val.Cmp(bigOne) == 0 {
		return ConstI(0)
	}
	// (x mod c) mod c == x mod c
	if a.Op == "mod" && a.Args[1].Key() == b.Key() {
		return a
	}
	return &Term{Op: "mod", Args: []*Term{a, b}, Sort: SInt}
}

func Ite(c, a, b *Term) *Term {
	if c.IsTrue() {
		return a
	}
	if c.IsFalse() {
		return b
	}
	if a.Key() == b.Key() {
		return a
	}
	if a.Sort == SBool {
		if a.IsTrue() && b.IsFalse() {
			return c
		}
		if a.IsFalse() && b.IsTrue() {
			return Not(c)
		}
	}
	return &Term{Op: "ite", Args: []*Term{c, a, b}, Sort: a.Sort}
}

func App(name string, s Sort, args ...*Term) *Term {
	return &Term{Op: "app", Name: name, Args: args, Sort: s}
}

func Select(h, p *Term) *Term {
	for h.Op == "store" {
		d := Sub(h.Args[1], p)
		if d.IsConst() {
			if d.Val.Sign() == 0 {
				return h.Args[2]
			}
			h = h.Args[0]
			continue
		}
		break
	}
	return &Term{Op: "select", Args: []*Term{h, p}, Sort: SInt}
}

func Store(h, p, v *Term) *Term {
	return &Term{Op: "store", Args: []*Term{h, p, v}, Sort: SArr}
}

// ---------- booleans ----------

func Not(a *Term) *Term {
	switch a.Op {
	case "true":
		return TFalse
	case "false":
		return TTrue
	case "not":
		return a.Args[0]
	case "lt":
		return Le(a.Args[1], a.Args[0])
	case "le":
		return Lt(a.Args[1], a.Args[0])
	}
	return &Term{Op: "not", Args: []*Term{a}, Sort: SBool}
}

func And(ts ...*Term) *Term {
	var out []*Term
	seen := map[string]bool{}
	for _, t := range ts {
		if t.IsTrue() {
			continue
		}
		if t.IsFalse() {
			return TFalse
		}
		if t.Op == "and" {
			for _, u := range t.Args {
				if !seen[u.Key()] {
					seen[u.Key()] = true
					out = append(out, u)
				}
			}
			continue
		}
		if !seen[t.Key()] {
			seen[t.Key()] = true
			out = append(out, t)
		}
	}
	if len(out) == 0 {
		return TTrue
	}
	if len(out) == 1 {
		return out[0]
	}
	return &Term{Op: "and", Args: out, Sort: SBool}
}

func Or(ts ...*Term) *Term {
	var out []*Term
	seen := map[string]bool{}
	for _, t := range ts {
		if t.IsFalse() {
			continue
		}
		if t.IsTrue() {
			return TTrue
		}
		if t.Op == "or" {
			for _, u := range t.Args {
				if !seen[u.Key()] {
					seen[u.Key()] = true
					out = append(out, u)
				}
			}
			continue
		}
		if !seen[t.Key()] {
			seen[t.Key()] = true
			out = append(out, t)
		}
	}
	if len(out) == 0 {
		return TFalse
	}
	if len(out) == 1 {
		return out[0]
	}
	return &Term{Op: "or", Args: out, Sort: SBool}
}

func Implies(a, b *Term) *Term {
	if a.IsTrue() {
		return b
	}
	if a.IsFalse() || b.IsTrue() {
		return TTrue
	}
	if b.IsFalse() {
		return Not(a)
	}
	return &Term{Op: "implies", Args: []*Term{a, b}, Sort: SBool}
}

func Iff(a, b *Term) *Term { return Eq(a, b) }

func Eq(a, b *Term) *Term {
	if a.Key() == b.Key() {
		return TTrue
	}
	if a.Sort == SInt {
		d := Sub(a, b)
		if d.IsConst() {
			return Bool(d.Val.Sign() == 0)
		}
	}
	if a.Sort == SBool {
		if a.IsTrue() {
			return b
		}
		if b.IsTrue() {
			return a
		}
		if a.IsFalse() {
			return Not(b)
		}
		if b.IsFalse() {
			return Not(a)
		}
	}
	return &Term{Op: "eq", Args: []*Term{a, b}, Sort: SBool}
}

func Ne(a, b *Term) *Term { return Not(Eq(a, b)) }

func Lt(a, b *Term) *Term {
	d := Sub(a, b)
	if d.IsConst() {
		return Bool(d.Val.Sign() < 0)
	}
	return &Term{Op: "lt", Args: []*Term{a, b}, Sort: SBool}
}

func Le(a, b *Term) *Term {
	d := Sub(a, b)
	if d.IsConst() {
		return Bool(d.Val.Sign() <= 0)
	}
	return &Term{Op: "le", Args: []*Term{a, b}, Sort: SBool}
}

func Ge(a, b *Term) *Term { return Le(b, a) }
func Gt(a, b *Term) *Term { return Lt(b, a) }

func Forall(bv []*Term, pat []*Term, body *Term) *Term {
	if body.IsTrue() {
		return TTrue
	}
	return &Term{Op: "forall", BV: bv, Pat: pat, Args: []*Term{body}, Sort: SBool}
}

// InRange(lo <= t < hi)
func InRange(t *Term, lo, hi *big.Int) *Term {
	return And(Le(Const(lo), t), Lt(t, Const(hi)))
}

// ---------- traversal ----------

func (t *Term) walk(f func(*Term)) {
	f(t)
	for _, a := range t.Args {
		a.walk(f)
	}
	for _, m := range t.Monos {
		for _, a := range m.Atoms {
			a.walk(f)
		}
	}
	for _, p := range t.Pat {
		p.walk(f)
	}
}

func (t *Term) Size() int {
	n := 0
	t.walk(func(*Term) { n++ })
	return n
}

// Subst replaces variables by name.
func (t *Term) Subst(m map[string]*Term) *Term {
	switch t.Op {
	case "const", "true", "false":
		return t
	case "var":
		if r, ok := m[t.Name]; ok {
			return r
		}
		return t
	case "poly":
		var sum []*Term
		for _, mo := range t.Monos {
			p := Const(mo.Coef)
			for _, a := range mo.Atoms {
				p = Mul(p, a.Subst(m))
			}
			sum = append(sum, p)
		}
		return Add(sum...)
	}
	args := make([]*Term, len(t.Args))
	for i, a := range t.Args {
		args[i] = a.Subst(m)
	}
	switch t.Op {
	case "div":
		return Div(args[0], args[1])
	case "mod":
		return Mod(args[0], args[1])
	case "ite":
		return Ite(args[0], args[1], args[2])
	case "select":
		return Select(args[0], args[1])
	case "store":
		return Store(args[0], args[1], args[2])
	case "app":
		return App(t.Name, t.Sort, args...)
	case "not":
		return Not(args[0])
	case "and":
		return And(args...)
	case "or":
		return Or(args...)
	case "implies":
		return Implies(args[0], args[1])
	case "eq":
		return Eq(args[0], args[1])
	case "lt":
		return Lt(args[0], args[1])
	case "le":
		return Le(args[0], args[1])
	case "forall":
		m2 := map[string]*Term{}
		for k, v := range m {
			m2[k] = v
		}
		for _, v := range t.BV {
			delete(m2, v.Name)
		}
		pats := make([]*Term, len(t.Pat))
		for i, p := range t.Pat {
			pats[i] = p.Subst(m2)
		}
		return Forall(t.BV, pats, t.Args[0].Subst(m2))
	}
	panic(fmt.Sprintf("Subst: unknown op %s", t.Op))
}

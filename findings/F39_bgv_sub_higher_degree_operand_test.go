package bgv

// Finding F39 (property C05): Evaluator.Sub(op0, op1, out) with op1 of HIGHER degree than op0 (a
// degree-1 ciphertext minus an unrelinearised product) and equal scales copies the extra component
// of op1 into the result instead of its negation: the result decrypts to a - b*c + 2*(c2 part),
// not to a - b*c.  The scale-matching path (different scales) and the ckks evaluator are right.

import (
	"slices"
	"testing"

	"github.com/tuneinsight/lattigo/v6/core/rlwe"
)

func TestF39SubHigherDegreeSecondOperand(t *testing.T) {
	params, err := NewParametersFromLiteral(ParametersLiteral{LogN: 10, LogQ: []int{54, 49, 49}, LogP: []int{52}, PlaintextModulus: 65537})
	if err != nil {
		t.Fatal(err)
	}
	T := params.PlaintextModulus()
	kgen := rlwe.NewKeyGenerator(params)
	sk := kgen.GenSecretKeyNew()
	ecd := NewEncoder(params)
	enc := rlwe.NewEncryptor(params, sk)
	dec := rlwe.NewDecryptor(params, sk)
	eval := NewEvaluator(params, nil)

	mk := func(f func(i int) uint64) (*rlwe.Ciphertext, []uint64) {
		v := make([]uint64, params.MaxSlots())
		for i := range v {
			v[i] = f(i) % T
		}
		pt := NewPlaintext(params, params.MaxLevel())
		if err := ecd.Encode(v, pt); err != nil {
			t.Fatal(err)
		}
		ct, err := enc.EncryptNew(pt)
		if err != nil {
			t.Fatal(err)
		}
		return ct, v
	}
	decode := func(ct *rlwe.Ciphertext) []uint64 {
		v := make([]uint64, params.MaxSlots())
		if err := ecd.Decode(dec.DecryptNew(ct), v); err != nil {
			t.Fatal(err)
		}
		return v
	}
	ctb, b := mk(func(i int) uint64 { return uint64(3*i + 2) })
	ctc, c := mk(func(i int) uint64 { return uint64(7*i + 5) })
	prod, err := eval.MulNew(ctb, ctc) // degree 2, not relinearised
	if err != nil {
		t.Fatal(err)
	}
	if prod.Degree() != 2 {
		t.Fatalf("degree %d", prod.Degree())
	}
	// a at the scale of the product, so that the equal-scale path is taken
	va := make([]uint64, params.MaxSlots())
	for i := range va {
		va[i] = uint64(11*i+1) % T
	}
	pta := NewPlaintext(params, prod.Level())
	pta.Scale = prod.Scale
	if err := ecd.Encode(va, pta); err != nil {
		t.Fatal(err)
	}
	cta, err := enc.EncryptNew(pta)
	if err != nil {
		t.Fatal(err)
	}
	if cta.Scale.Cmp(prod.Scale) != 0 {
		t.Fatal("scales differ")
	}
	want := make([]uint64, len(va))
	for i := range want {
		want[i] = (va[i] + T - (b[i]*c[i])%T) % T
	}
	got, err := eval.SubNew(cta, prod)
	if err != nil {
		t.Fatal(err)
	}
	if have := decode(got); !slices.Equal(have, want) {
		t.Errorf("a - b*c (degree 1 minus degree 2): slots 0..3 = %v, want %v", have[:4], want[:4])
	}
	// control: the other order is right
	got2, err := eval.SubNew(prod, cta)
	if err != nil {
		t.Fatal(err)
	}
	want2 := make([]uint64, len(va))
	for i := range want2 {
		want2[i] = ((b[i]*c[i])%T + T - va[i]) % T
	}
	if have := decode(got2); !slices.Equal(have, want2) {
		t.Errorf("control b*c - a: slots 0..3 = %v, want %v", have[:4], want2[:4])
	}
}

package rlwe

import (
	"testing"
	"time"
)

// A parameter literal with LogQ/LogP requests and a custom LogNthRoot >= 64 must be rejected with an error.
// On the baseline NewParametersFromLiteral never returns (infinite loop in the prime generator, NthRoot = 1<<64 = 0).
func TestC19LogNthRootTooLargeIsRejected(t *testing.T) {
	for _, lnr := range []int{64, 65, 100} {
		done := make(chan error, 1)
		go func() {
			defer func() {
				if r := recover(); r != nil {
					done <- nil // a panic is also a defect, reported below
					t.Errorf("LogNthRoot=%d: panic %v", lnr, r)
				}
			}()
			_, err := NewParametersFromLiteral(ParametersLiteral{LogN: 10, LogNthRoot: lnr, LogQ: []int{45, 40}, LogP: []int{50}})
			done <- err
		}()
		select {
		case err := <-done:
			if err == nil {
				t.Fatalf("LogNthRoot=%d: accepted, want an error", lnr)
			}
		case <-time.After(10 * time.Second):
			t.Fatalf("LogNthRoot=%d: NewParametersFromLiteral did not return within 10s (infinite loop), want an error", lnr)
		}
	}
}

package main

import (
	"bytes"
	"context"
	"fmt"
	"math/big"
	"os"
	"os/exec"
	"path/filepath"
	"regexp"
	"sort"
	"strings"
	"sync"
	"time"
)

// Obligation is one verification condition: Assumptions |= Goal.
type Obligation struct {
	Name   string // unique within the run: <func>/<kind>/<detail>
	Func   string // function under contract (qualified)
	File   string // source position of the statement that generated it
	Kind   string // post, requires, bounds, window, overflow, inv-init, inv-pres, lemma, frame, ...
	Assume []*Term
	Goal   *Term
	Ranges map[string][2]*big.Int // known constant ranges of atoms (for mul axioms)
	Native bool                   // render products with native * (closed lemmas)
	Inputs []string               // names of the SMT constants that are function inputs (for replay)
	Bounded string                // non-empty => this is a bounded stand-in, never counted as proved
	Lean    string                // non-empty => an inductive lemma: discharged by checking this theorem with Lean 4 + Mathlib
	GetValues []*Term             // replay: ask the solver for the values of these terms in its model (get-value)

	// results
	Status  string // unsat(proved) sat unknown timeout error
	Solver  string
	Seconds float64
	Model   map[string]string
	Output  string
	SMTFile string
	Wall    float64
	Replayed   bool   // a concrete failing input was found and replayed on the real code
	ReplayNote string
}

type solverSpec struct {
	name string
	args func(file string, sec int) []string
}

var solvers = []solverSpec{
	{"z3-new", func(f string, s int) []string { return []string{"z3-new", fmt.Sprintf("-T:%d", s), f} }},
	{"z3", func(f string, s int) []string { return []string{"z3", fmt.Sprintf("-T:%d", s), "-smt2", f} }},
	{"cvc5", func(f string, s int) []string {
		return []string{"cvc5", fmt.Sprintf("--tlimit=%d", s*1000), f}
	}},
}

var procSem = make(chan struct{}, 16)

var workDir = "/verif/work"

type declSet struct {
	boundMul bool // a product mentions a quantified variable: atom order is not stable under instantiation
	needMul bool
	vars  map[string]Sort
	funs  map[string]string // name -> declaration
	prods map[string]*Term  // key -> product atoms holder (a Mono-as-poly) for axioms
}

func collect(t *Term, d *declSet, bound map[string]bool) {
	switch t.Op {
	case "var":
		if !bound[t.Name] {
			d.vars[t.Name] = t.Sort
		}
	case "app":
		if _, ok := d.funs[t.Name]; !ok {
			var b strings.Builder
			b.WriteString("(declare-fun " + smtName(t.Name) + " (")
			for i, a := range t.Args {
				if i > 0 {
					b.WriteString(" ")
				}
				b.WriteString(sortName(a.Sort))
			}
			b.WriteString(") " + sortName(t.Sort) + ")")
			d.funs[t.Name] = b.String()
		}
	case "forall":
		nb := map[string]bool{}
		for k := range bound {
			nb[k] = true
		}
		for _, v := range t.BV {
			nb[v.Name] = true
		}
		collect(t.Args[0], d, nb)
		for _, p := range t.Pat {
			collect(p, d, nb)
		}
		return
	case "poly":
		for _, m := range t.Monos {
			if len(m.Atoms) >= 2 {
				d.needMul = true
				hasBound := false
				for _, a := range m.Atoms {
					a.walk(func(x *Term) {
						if x.Op == "var" && bound[x.Name] {
							hasBound = true
						}
					})
				}
				if hasBound {
					d.boundMul = true
				}
				if !hasBound {
					for n := 2; n <= len(m.Atoms); n++ {
						p := &Term{Op: "poly", Sort: SInt, Monos: []Mono{{Coef: bigOne, Atoms: m.Atoms[:n]}}}
						d.prods[p.Key()] = p
					}
				}
			}
			for _, a := range m.Atoms {
				collect(a, d, bound)
			}
		}
		return
	}
	for _, a := range t.Args {
		collect(a, d, bound)
	}
}

func sortName(s Sort) string {
	switch s {
	case SInt:
		return "Int"
	case SBool:
		return "Bool"
	}
	return "(Array Int Int)"
}

// renderNative rewrites (mul a b) into (* a b) textually.
func renderNative(s string) string { return strings.ReplaceAll(s, "(mul ", "(* ") }

func (o *Obligation) SMT() string {
	d := &declSet{vars: map[string]Sort{}, funs: map[string]string{}, prods: map[string]*Term{}}
	for _, a := range o.Assume {
		collect(a, d, map[string]bool{})
	}
	collect(o.Goal, d, map[string]bool{})
	for _, g := range o.GetValues {
		collect(g, d, map[string]bool{})
	}
	var b strings.Builder
	b.WriteString("(set-option :produce-models true)\n(set-logic ALL)\n")
	fmt.Fprintf(&b, "; obligation %s\n", o.Name)
	names := make([]string, 0, len(d.vars))
	for n := range d.vars {
		names = append(names, n)
	}
	sort.Strings(names)
	for _, n := range names {
		fmt.Fprintf(&b, "(declare-const %s %s)\n", smtName(n), sortName(d.vars[n]))
	}
	fn := make([]string, 0, len(d.funs))
	for n := range d.funs {
		fn = append(fn, n)
	}
	sort.Strings(fn)
	for _, n := range fn {
		b.WriteString(d.funs[n] + "\n")
	}
	// heap cells hold machine integers of the element type: a global invariant of the heap model,
	// needed for quantified cells (ground reads get their range fact when they are read)
	hasQuant := strings.Contains(o.Goal.Key(), "(forall ")
	for _, a := range o.Assume {
		if !hasQuant && strings.Contains(a.Key(), "(forall ") {
			hasQuant = true
		}
	}
	if hasQuant {
		for _, n := range names {
			if d.vars[n] != SArr {
				continue
			}
			hi := ""
			switch {
			case strings.HasPrefix(n, "H.uint64"), strings.HasPrefix(n, "H.uint!"), strings.HasPrefix(n, "H.uint"):
				hi = "18446744073709551615"
			}
			if strings.HasPrefix(n, "H.uint32") {
				hi = "4294967295"
			} else if strings.HasPrefix(n, "H.uint16") {
				hi = "65535"
			} else if strings.HasPrefix(n, "H.uint8") || strings.HasPrefix(n, "H.byte") {
				hi = "255"
			}
			if hi != "" {
				fmt.Fprintf(&b, "(assert (forall ((p!h Int)) (! (and (<= 0 (select %s p!h)) (<= (select %s p!h) %s)) :pattern ((select %s p!h)))))\n", smtName(n), smtName(n), hi, smtName(n))
			}
		}
	}
	rn := func(s string) string { return s }
	if o.Native {
		rn = renderNative
	} else if d.needMul {
		b.WriteString("(declare-fun mul (Int Int) Int)\n")
		if d.boundMul {
			b.WriteString("(assert (forall ((a!c Int) (b!c Int)) (! (= (mul a!c b!c) (mul b!c a!c)) :pattern ((mul a!c b!c)))))\n")
			for _, A := range []string{"2305843009213693952", "4611686018427387904", "9223372036854775808"} {
				fmt.Fprintf(&b, "(assert (forall ((a!c Int) (b!c Int)) (! (=> (and (<= 0 a!c) (<= a!c %s) (<= 0 b!c)) (<= (mul a!c b!c) (* %s b!c))) :pattern ((mul a!c b!c)))))\n", A, A)
			}
			// a true fact of integer multiplication, needed for products of a quantified cell with a bounded factor
			b.WriteString("(assert (forall ((a!c Int) (b!c Int)) (! (=> (and (<= 0 a!c) (<= a!c 18446744073709551615) (<= 0 b!c)) (and (<= 0 (mul a!c b!c)) (<= (mul a!c b!c) (* 18446744073709551615 b!c)))) :pattern ((mul a!c b!c)))))\n")
		}
		pk := make([]string, 0, len(d.prods))
		for k := range d.prods {
			pk = append(pk, k)
		}
		sort.Strings(pk)
		for _, k := range pk {
			p := d.prods[k]
			atoms := p.Monos[0].Atoms
			last := atoms[len(atoms)-1]
			var rest *Term
			if len(atoms) == 2 {
				rest = atoms[0]
			} else {
				rest = &Term{Op: "poly", Sort: SInt, Monos: []Mono{{Coef: bigOne, Atoms: atoms[:len(atoms)-1]}}}
			}
			// unit and zero laws (needed when an atom is only known to equal 0 or 1)
			fmt.Fprintf(&b, "(assert (=> (= %s 1) (= %s %s)))\n", rest.Key(), k, last.Key())
			fmt.Fprintf(&b, "(assert (=> (= %s 1) (= %s %s)))\n", last.Key(), k, rest.Key())
			fmt.Fprintf(&b, "(assert (=> (or (= %s 0) (= %s 0)) (= %s 0)))\n", rest.Key(), last.Key(), k)
			ra, oka := o.rangeOf(rest)
			rb, okb := o.rangeOf(last)
			if oka && okb && ra[0].Sign() >= 0 && rb[0].Sign() >= 0 {
				fmt.Fprintf(&b, "(assert (>= %s 0))\n", k)
				fmt.Fprintf(&b, "(assert (<= %s (* %s %s)))\n", k, smtInt(ra[1]), last.Key())
				fmt.Fprintf(&b, "(assert (<= %s (* %s %s)))\n", k, smtInt(rb[1]), rest.Key())
				if ra[0].Sign() > 0 {
					fmt.Fprintf(&b, "(assert (>= %s (* %s %s)))\n", k, smtInt(ra[0]), last.Key())
				}
				if rb[0].Sign() > 0 {
					fmt.Fprintf(&b, "(assert (>= %s (* %s %s)))\n", k, smtInt(rb[0]), rest.Key())
				}
			}
		}
	}
	for _, a := range o.Assume {
		fmt.Fprintf(&b, "(assert %s)\n", rn(a.Key()))
	}
	fmt.Fprintf(&b, "(assert (not %s))\n", rn(o.Goal.Key()))
	if len(o.GetValues) > 0 {
		b.WriteString("(check-sat)\n(get-value (")
		for _, g := range o.GetValues {
			b.WriteString(" " + rn(g.Key()))
		}
		b.WriteString("))\n")
		return b.String()
	}
	b.WriteString("(check-sat)\n(get-model)\n")
	return b.String()
}

// rangeOf returns a constant interval known for an atom or product of atoms.
func (o *Obligation) rangeOf(t *Term) ([2]*big.Int, bool) {
	if t.Op == "const" {
		return [2]*big.Int{t.Val, t.Val}, true
	}
	if r, ok := o.Ranges[t.Key()]; ok {
		return r, true
	}
	if t.Op == "mod" && t.Args[1].IsConst() && t.Args[1].Val.Sign() > 0 {
		return [2]*big.Int{bigZero, new(big.Int).Sub(t.Args[1].Val, bigOne)}, true
	}
	if t.Op == "ite" {
		a, ok1 := o.rangeOf(t.Args[1])
		b, ok2 := o.rangeOf(t.Args[2])
		if ok1 && ok2 {
			lo, hi := a[0], a[1]
			if b[0].Cmp(lo) < 0 {
				lo = b[0]
			}
			if b[1].Cmp(hi) > 0 {
				hi = b[1]
			}
			return [2]*big.Int{lo, hi}, true
		}
	}
	if t.Op == "div" && t.Args[1].IsConst() && t.Args[1].Val.Sign() > 0 {
		if r, ok := o.rangeOf(t.Args[0]); ok && r[0].Sign() >= 0 {
			hi, _ := floorDivMod(r[1], t.Args[1].Val)
			return [2]*big.Int{bigZero, hi}, true
		}
	}
	if t.Op == "poly" {
		lo, hi := new(big.Int), new(big.Int)
		for _, m := range t.Monos {
			mlo, mhi := new(big.Int).Set(m.Coef), new(big.Int).Set(m.Coef)
			for _, a := range m.Atoms {
				r, ok := o.rangeOf(a)
				if !ok {
					return [2]*big.Int{}, false
				}
				c := []*big.Int{new(big.Int).Mul(mlo, r[0]), new(big.Int).Mul(mlo, r[1]), new(big.Int).Mul(mhi, r[0]), new(big.Int).Mul(mhi, r[1])}
				mlo, mhi = c[0], c[0]
				for _, x := range c[1:] {
					if x.Cmp(mlo) < 0 {
						mlo = x
					}
					if x.Cmp(mhi) > 0 {
						mhi = x
					}
				}
			}
			lo.Add(lo, mlo)
			hi.Add(hi, mhi)
		}
		return [2]*big.Int{lo, hi}, true
	}
	return [2]*big.Int{}, false
}

var fileSafe = regexp.MustCompile(`[^A-Za-z0-9_.-]+`)

func runSolver(ctx context.Context, sp solverSpec, file string, sec int) (status, out string, dur float64) {
	procSem <- struct{}{}
	defer func() { <-procSem }()
	if ctx.Err() != nil {
		return "cancelled", "", 0
	}
	t0 := time.Now()
	args := sp.args(file, sec)
	cctx, cancel := context.WithTimeout(ctx, time.Duration(sec+2)*time.Second)
	defer cancel()
	cmd := exec.CommandContext(cctx, args[0], args[1:]...)
	var buf bytes.Buffer
	cmd.Stdout = &buf
	cmd.Stderr = &buf
	_ = cmd.Run()
	dur = time.Since(t0).Seconds()
	out = buf.String()
	// the status is the first line that is not a solver warning (z3: "WARNING: ... cannot be used in patterns")
	first := ""
	for _, ln := range strings.Split(out, "\n") {
		ln = strings.TrimSpace(ln)
		if ln == "" || strings.HasPrefix(ln, "WARNING:") {
			continue
		}
		first = ln
		break
	}
	switch {
	case first == "unsat":
		status = "unsat"
	case first == "sat":
		status = "sat"
	case first == "unknown":
		status = "unknown"
	case strings.Contains(first, "timeout") || cctx.Err() != nil || strings.Contains(out, "interrupted by timeout"):
		status = "timeout"
	default:
		if ctx.Err() != nil {
			status = "cancelled"
		} else {
			status = "error"
		}
	}
	return
}

var modelRe = regexp.MustCompile(`\(define-fun\s+(\S+|\|[^|]*\|)\s+\(\)\s+Int\s+((?:\(-\s*\d+\))|-?\d+)\)`)

func parseModel(out string) map[string]string {
	m := map[string]string{}
	for _, g := range modelRe.FindAllStringSubmatch(out, -1) {
		v := g[2]
		if strings.HasPrefix(v, "(") {
			v = "-" + strings.TrimSpace(strings.Trim(v, "()-"))
		}
		m[strings.Trim(g[1], "|")] = v
	}
	return m
}

// Discharge runs the solver portfolio on one obligation.
func (o *Obligation) Discharge(timeout int) {
	tw := time.Now()
	defer func() { o.Wall = time.Since(tw).Seconds() }()
	if o.Lean != "" {
		ok, out, secs := leanCheck(o.Lean)
		o.Seconds = secs
		o.Solver = "lean4+mathlib"
		o.Output = out
		if ok {
			o.Status = "unsat"
		} else {
			o.Status = "error"
		}
		return
	}
	if o.Goal.IsTrue() {
		o.Status, o.Solver = "unsat", "simplifier"
		return
	}
	for _, a := range o.Assume {
		if a.IsFalse() {
			o.Status, o.Solver = "unsat", "simplifier"
			return
		}
	}
	dir := filepath.Join(workDir, "q")
	_ = os.MkdirAll(dir, 0o755)
	file := filepath.Join(dir, fileSafe.ReplaceAllString(o.Name, "_")+".smt2")
	o.SMTFile = file
	if err := os.WriteFile(file, []byte(o.SMT()), 0o644); err != nil {
		o.Status, o.Output = "error", err.Error()
		return
	}
	// stage 1: fastest solver alone with a short timeout
	first := 1
	if timeout < first {
		first = timeout
	}
	st, out, d := runSolver(context.Background(), solvers[0], file, first)
	o.Seconds += d
	if o.Kind == "vacuity" || o.Kind == "feasibility" {
		// a contradiction in the preconditions is found at once or not at all; satisfiability of
		// quantified preconditions cannot be confirmed by the solvers, so no second stage
		if st != "unsat" {
			st = "unknown"
		}
		o.Status, o.Solver, o.Output = st, solvers[0].name, out
		return
	}
	if st == "unsat" || st == "sat" {
		o.Status, o.Solver, o.Output = st, solvers[0].name, out
		if st == "sat" {
			o.Model = parseModel(out)
		}
		return
	}
	// stage 2: race all solvers
	ctx, cancel := context.WithCancel(context.Background())
	defer cancel()
	type res struct {
		st, out, name string
		d            float64
	}
	ch := make(chan res, len(solvers))
	var wg sync.WaitGroup
	for _, sp := range solvers {
		wg.Add(1)
		go func(sp solverSpec) {
			defer wg.Done()
			st, out, d := runSolver(ctx, sp, file, timeout)
			ch <- res{st, out, sp.name, d}
		}(sp)
	}
	go func() { wg.Wait(); close(ch) }()
	best := res{st: "unknown"}
	for r := range ch {
		if r.st == "unsat" {
			o.Status, o.Solver, o.Output = "unsat", r.name, r.out
			o.Seconds += r.d
			cancel()
			return
		}
		if r.st == "sat" && best.st != "sat" {
			best = r
		} else if best.st != "sat" && r.st == "timeout" {
			best = r
		} else if best.st == "unknown" && r.st != "cancelled" {
			best = r
		}
		if r.d > 0 {
			o.Seconds += 0
		}
	}
	o.Seconds += float64(timeout)
	o.Status, o.Solver, o.Output = best.st, best.name, best.out
	if best.st == "sat" {
		o.Model = parseModel(best.out)
	}
}

// DischargeAll runs obligations in parallel.
func DischargeAll(obs []*Obligation, timeout int) {
	var wg sync.WaitGroup
	sem := make(chan struct{}, 16)
	for _, o := range obs {
		wg.Add(1)
		sem <- struct{}{}
		go func(o *Obligation) {
			defer wg.Done()
			defer func() { <-sem }()
			o.Discharge(timeout)
		}(o)
	}
	wg.Wait()
	// a timeout may be the machine's (other jobs competing for the cores), not the obligation's: the first
	// few obligations that timed out are asked again, one at a time and with four times the budget, before
	// they are reported.  An answer `sat` is never retried.
	retried := 0
	for _, o := range obs {
		if retried >= 12 {
			break
		}
		if o.Status == "timeout" && o.Kind != "vacuity" && o.Kind != "feasibility" {
			retried++
			o.Discharge(4 * timeout)
		}
	}
}

// ---------- inductive lemmas: checked by Lean ----------

var leanOnce sync.Once
var leanOK bool
var leanOut string
var leanSecs float64

// leanFile holds the Lean statements of the inductive lemma-library rules (powers).
var leanFile = "/verif/lean/PowLemmas.lean"

// leanCheck runs `lean` once per process on the lemma file (it proves every theorem in it or
// fails) and then checks that the named theorem is stated there.
func leanCheck(theorem string) (bool, string, float64) {
	leanOnce.Do(func() {
		t0 := time.Now()
		ctx, cancel := context.WithTimeout(context.Background(), 900*time.Second)
		defer cancel()
		cmd := exec.CommandContext(ctx, "lean", leanFile)
		out, err := cmd.CombinedOutput()
		leanSecs = time.Since(t0).Seconds()
		leanOut = string(out)
		leanOK = err == nil && !strings.Contains(leanOut, "error") && !strings.Contains(leanOut, "sorry")
	})
	src, err := os.ReadFile(leanFile)
	if err != nil {
		return false, err.Error(), 0
	}
	if !leanOK {
		return false, "lean " + leanFile + " failed:\n" + leanOut, leanSecs
	}
	if !regexp.MustCompile(`(?m)^theorem\s+` + regexp.QuoteMeta(theorem) + `\b`).Match(src) {
		return false, "theorem " + theorem + " is not stated in " + leanFile, leanSecs
	}
	return true, "lean " + leanFile + ": all theorems checked (" + theorem + ")", leanSecs
}

// QueryValues re-solves the obligation with extra assumptions and returns the model values of the
// given integer terms, in order (nil when the query is not sat within the timeout).
func (o *Obligation) QueryValues(extra []*Term, terms []*Term, timeout int) []*big.Int {
	o2 := *o
	o2.Name = o.Name + "~values"
	o2.Assume = append(append([]*Term(nil), o.Assume...), extra...)
	o2.GetValues = terms
	dir := filepath.Join(workDir, "q")
	_ = os.MkdirAll(dir, 0o755)
	file := filepath.Join(dir, fileSafe.ReplaceAllString(o2.Name, "_")+".smt2")
	if err := os.WriteFile(file, []byte(o2.SMT()), 0o644); err != nil {
		return nil
	}
	st, out, _ := runSolver(context.Background(), solvers[0], file, timeout)
	if st != "sat" {
		return nil
	}
	i := strings.Index(out, "\n")
	if i < 0 {
		return nil
	}
	vals := parseGetValue(out[i+1:])
	if len(vals) != len(terms) {
		return nil
	}
	return vals
}

// parseGetValue reads ((t1 v1) (t2 v2) ...) and returns the values in order.
func parseGetValue(s string) []*big.Int {
	// tokenise
	var toks []string
	for i := 0; i < len(s); {
		c := s[i]
		switch {
		case c == '(' || c == ')':
			toks = append(toks, string(c))
			i++
		case c == ' ' || c == '\n' || c == '\t' || c == '\r':
			i++
		case c == '|':
			j := strings.IndexByte(s[i+1:], '|')
			if j < 0 {
				return nil
			}
			toks = append(toks, s[i:i+j+2])
			i += j + 2
		default:
			j := i
			for j < len(s) && !strings.ContainsRune("() \n\t\r", rune(s[j])) {
				j++
			}
			toks = append(toks, s[i:j])
			i = j
		}
	}
	pos := 0
	var skip func() bool // skips one s-expression
	skip = func() bool {
		if pos >= len(toks) {
			return false
		}
		if toks[pos] != "(" {
			pos++
			return true
		}
		pos++
		for pos < len(toks) && toks[pos] != ")" {
			if !skip() {
				return false
			}
		}
		pos++
		return true
	}
	val := func() *big.Int {
		if pos >= len(toks) {
			return nil
		}
		if toks[pos] == "(" {
			// (- n)
			if pos+3 < len(toks) && toks[pos+1] == "-" && toks[pos+3] == ")" {
				v, ok := new(big.Int).SetString(toks[pos+2], 10)
				pos += 4
				if !ok {
					return nil
				}
				return v.Neg(v)
			}
			return nil
		}
		v, ok := new(big.Int).SetString(toks[pos], 10)
		pos++
		if !ok {
			return nil
		}
		return v
	}
	if pos >= len(toks) || toks[pos] != "(" {
		return nil
	}
	pos++
	var out []*big.Int
	for pos < len(toks) && toks[pos] == "(" {
		pos++
		if !skip() { // the term
			return nil
		}
		v := val()
		if v == nil {
			return nil
		}
		out = append(out, v)
		if pos >= len(toks) || toks[pos] != ")" {
			return nil
		}
		pos++
	}
	return out
}

import Mathlib.Data.Int.ModEq
import Mathlib.Data.Nat.Prime.Basic
import Mathlib.Tactic

/-!
Inductive facts about integer powers used as lemma-library rules by lvc (DESIGN.md 12.8).
`cong a b q` in the contracts is `a ≡ b [ZMOD q]`; `pow x n` is `x ^ n` with `n : ℕ`.
The SMT solvers cannot do these inductions; they are checked here, once per run of the
thorough tier (`lean PowLemmas.lean`), and used in the verification conditions as rule instances.
-/

theorem pow_zero_lvc (x : ℤ) : x ^ 0 = 1 := by simp

theorem pow_even_step (x : ℤ) (i : ℕ) (h : i % 2 = 0) : x ^ i = (x * x) ^ (i / 2) := by
  have : i = 2 * (i / 2) := by omega
  conv_lhs => rw [this]
  rw [pow_mul, sq]

theorem pow_odd_step (x : ℤ) (i : ℕ) (h : i % 2 = 1) : x ^ i = x * (x * x) ^ (i / 2) := by
  have : i = 2 * (i / 2) + 1 := by omega
  conv_lhs => rw [this]
  rw [pow_succ, pow_mul, sq, mul_comm]

theorem pow_cong (a b q : ℤ) (n : ℕ) (h : a ≡ b [ZMOD q]) : a ^ n ≡ b ^ n [ZMOD q] :=
  Int.ModEq.pow n h

theorem pow_add_lvc (x : ℤ) (m n : ℕ) : x ^ (m + n) = x ^ m * x ^ n := pow_add x m n

theorem pow_mul_lvc (x : ℤ) (m n : ℕ) : x ^ (m * n) = (x ^ m) ^ n := pow_mul x m n

/-! ### Lemmas over the contracts of `ModExp` / `GaloisElement` (property C11)

`GaloisElement(k)` is under contract `r ≡ 5^(k mod NthRoot) (mod NthRoot)`, `NthRoot = 2^m`.
The group law and the periodicity in `k` follow from the facts below. -/

/-- products of elements are the element of the sum of the exponents -/
theorem galois_compose (g q ra rb : ℤ) (a b : ℕ)
    (ha : ra ≡ g ^ a [ZMOD q]) (hb : rb ≡ g ^ b [ZMOD q]) :
    ra * rb ≡ g ^ (a + b) [ZMOD q] := by
  rw [pow_add]
  exact Int.ModEq.mul ha hb

/-- the generator 5 has order dividing 2^n modulo 2^(n+2) -/
theorem five_pow_two_pow (n : ℕ) : (5 : ℤ) ^ (2 ^ n) ≡ 1 [ZMOD 2 ^ (n + 2)] := by
  induction n with
  | zero => decide
  | succ n ih =>
    have h := (Int.modEq_iff_dvd.mp ih.symm)
    obtain ⟨t, ht⟩ := h
    have e : (5 : ℤ) ^ (2 ^ n) = 1 + 2 ^ (n + 2) * t := by linarith
    have : (5 : ℤ) ^ (2 ^ (n + 1)) = (5 ^ (2 ^ n)) ^ 2 := by
      rw [← pow_mul, pow_succ]
    rw [this, e]
    apply Int.modEq_iff_dvd.mpr
    refine ⟨-(t + 2 ^ (n + 1) * t ^ 2), ?_⟩
    ring

/-- exponents of the generator only matter modulo 2^n (the number of slots) -/
theorem galois_periodic (n k j : ℕ) :
    (5 : ℤ) ^ (k + j * 2 ^ n) ≡ 5 ^ k [ZMOD 2 ^ (n + 2)] := by
  have e : (5 : ℤ) ^ (k + j * 2 ^ n) = 5 ^ k * ((5 ^ 2 ^ n) ^ j) := by
    rw [pow_add, mul_comm j, pow_mul]
  rw [e]
  have h := (five_pow_two_pow n).pow j
  simp only [one_pow] at h
  calc (5 : ℤ) ^ k * ((5 ^ 2 ^ n) ^ j) ≡ 5 ^ k * 1 [ZMOD 2 ^ (n + 2)] := Int.ModEq.mul_left _ h
    _ = 5 ^ k := by ring

/-- g^(NthRoot-1) is the inverse of g for every power g of the generator -/
theorem galois_inverse (n k : ℕ) :
    (5 : ℤ) ^ k * (5 ^ k) ^ (2 ^ (n + 2) - 1) ≡ 1 [ZMOD 2 ^ (n + 2)] := by
  have hpos : 1 ≤ 2 ^ (n + 2) := Nat.one_le_two_pow
  have : (5 : ℤ) ^ k * (5 ^ k) ^ (2 ^ (n + 2) - 1) = (5 ^ (2 ^ (n + 2))) ^ k := by
    rw [← pow_succ', Nat.sub_add_cancel hpos, ← pow_mul, ← pow_mul, mul_comm]
  rw [this]
  have h4 : (5 : ℤ) ^ (2 ^ (n + 2)) ≡ 1 [ZMOD 2 ^ (n + 2)] := by
    have := (five_pow_two_pow n).pow 4
    simp only [one_pow] at this
    have e : (5 : ℤ) ^ (2 ^ (n + 2)) = ((5 : ℤ) ^ (2 ^ n)) ^ 4 := by
      rw [← pow_mul]; congr 1; ring
    rw [e]; exact this
  have := h4.pow k
  simpa using this

/-! ### The Montgomery constant: `GenMRedConstant(q) = q^(2^63 - 1) mod 2^64` is the inverse of an odd `q` -/

theorem pow_one_lvc (x : ℤ) : x ^ 1 = x := pow_one x

/-- an odd number to the power 2^(n+1) is 1 modulo 2^(n+3) -/
theorem odd_pow_two_pow (q : ℤ) (hq : q % 2 = 1) (n : ℕ) :
    q ^ (2 ^ (n + 1)) ≡ 1 [ZMOD 2 ^ (n + 3)] := by
  induction n with
  | zero =>
    -- q^2 ≡ 1 (mod 8)
    obtain ⟨k, hk⟩ : ∃ k, q = 2 * k + 1 := ⟨q / 2, by omega⟩
    apply Int.modEq_iff_dvd.mpr
    subst hk
    have h2 : (2 : ℤ) ∣ k * (k + 1) := by
      rcases Int.even_or_odd k with ⟨m, hm⟩ | ⟨m, hm⟩
      · exact ⟨m * (k + 1), by rw [hm]; ring⟩
      · exact ⟨k * (m + 1), by rw [hm]; ring⟩
    obtain ⟨c, hc⟩ := h2
    refine ⟨-c, ?_⟩
    have : (2 * k + 1) ^ 2 = 4 * (k * (k + 1)) + 1 := by ring
    simp only [pow_one, zero_add]
    norm_num
    rw [this, hc]; ring
  | succ n ih =>
    obtain ⟨t, ht⟩ := Int.modEq_iff_dvd.mp ih.symm
    have e : q ^ (2 ^ (n + 1)) = 1 + 2 ^ (n + 3) * t := by linarith
    have s : q ^ (2 ^ (n + 1 + 1)) = (q ^ (2 ^ (n + 1))) ^ 2 := by
      rw [← pow_mul, pow_succ]
    rw [s, e]
    apply Int.modEq_iff_dvd.mpr
    refine ⟨-(t + 2 ^ (n + 2) * t ^ 2), ?_⟩
    ring

/-- the instance used by the contract of GenMRedConstant -/
theorem odd_pow_2_63 (q : ℤ) (hq : q % 2 = 1) :
    q ^ (2 ^ 63) ≡ 1 [ZMOD 2 ^ 64] := by
  have h := odd_pow_two_pow q hq 61
  have h2 := h.pow 2
  simp only [one_pow] at h2
  have e : q ^ (2 ^ 63) = (q ^ (2 ^ (61 + 1))) ^ 2 := by
    rw [← pow_mul]; norm_num
  rw [e]
  exact h2

/-! ### Lemma over the contract of `Ring.Inverse` (property C15): the Fermat inverse -/

/-- for a prime q and b not divisible by q, b * b^(q-2) is 1 modulo q -/
theorem fermat_inverse (q : ℕ) (hq : q.Prime) (b : ℤ) (hb : IsCoprime b (q : ℤ)) :
    b * b ^ (q - 2) ≡ 1 [ZMOD (q : ℤ)] := by
  have h2 : 2 ≤ q := hq.two_le
  have e : b * b ^ (q - 2) = b ^ (q - 1) := by
    have : q - 1 = (q - 2) + 1 := by omega
    rw [this, pow_succ]; ring
  rw [e]
  exact Int.ModEq.pow_card_sub_one_eq_one hq hb

/-! ### The discrete logarithm of a Galois element (property C11)

`SolveDiscreteLogGaloisElement` recovers k from g = 5^k mod 2^(m+3) bit by bit: with x = 2^i a
divisor of 2^m and c = 2^m / x, the running value is (k mod c) * x and the comparison
5^kuint = g^x decides bit log2(c) of k.  `dlog_step_cases` is one iteration, `dlog_unique` says
the result is the only logarithm in [0, 2^(m+1)); `and_mask_dvd`, `or_add_pow2`, `cong_dvd` are the
bit-level facts `ModExpPow2` and the `|=` of the loop rely on. -/

/-- 5^(2^m) = 1 + 2^(m+2) * odd -/
theorem five_pow_two_pow_exact (m : ℕ) :
    ∃ u : ℤ, u % 2 = 1 ∧ (5 : ℤ) ^ (2 ^ m) = 1 + 2 ^ (m + 2) * u := by
  induction m with
  | zero => exact ⟨1, by norm_num, by norm_num⟩
  | succ m ih =>
    obtain ⟨u, hu, e⟩ := ih
    refine ⟨u + 2 * (2 ^ m * u ^ 2), by omega, ?_⟩
    have s : (5 : ℤ) ^ (2 ^ (m + 1)) = (5 ^ (2 ^ m)) ^ 2 := by
      rw [← pow_mul, pow_succ]
    rw [s, e]
    ring

/-- 5^(j*2^m) ≡ 1 + j*2^(m+2)  (mod 2^(m+3)) -/
theorem five_pow_mul_two_pow (m j : ℕ) :
    (5 : ℤ) ^ (j * 2 ^ m) ≡ 1 + (j : ℤ) * 2 ^ (m + 2) [ZMOD 2 ^ (m + 3)] := by
  obtain ⟨u, hu, e⟩ := five_pow_two_pow_exact m
  induction j with
  | zero => simp
  | succ j ih =>
    have s : (5 : ℤ) ^ ((j + 1) * 2 ^ m) = 5 ^ (j * 2 ^ m) * 5 ^ (2 ^ m) := by
      rw [← pow_add]; congr 1; ring
    rw [s, e]
    have h1 := Int.ModEq.mul_right (1 + 2 ^ (m + 2) * u) ih
    refine h1.trans ?_
    apply Int.modEq_iff_dvd.mpr
    obtain ⟨v, hv⟩ : ∃ v, u = 2 * v + 1 := ⟨u / 2, by omega⟩
    refine ⟨-(v + (j : ℤ) * 2 ^ (m + 1) * u), ?_⟩
    subst hv
    push_cast
    ring

theorem five_pow_mul_two_pow_eq_one (m j : ℕ) :
    (5 : ℤ) ^ (j * 2 ^ m) ≡ 1 [ZMOD 2 ^ (m + 3)] ↔ j % 2 = 0 := by
  have h := five_pow_mul_two_pow m j
  constructor
  · intro h1
    have h2 := (h.symm.trans h1)
    have h3 := Int.modEq_iff_dvd.mp h2
    -- 2^(m+3) ∣ 1 - (1 + j*2^(m+2))
    obtain ⟨t, ht⟩ := h3
    have : (j : ℤ) * 2 ^ (m + 2) = 2 ^ (m + 2) * (2 * (-t)) := by
      have : (2 : ℤ) ^ (m + 3) = 2 ^ (m + 2) * 2 := by ring
      rw [this] at ht
      linarith
    have hpos : (2 : ℤ) ^ (m + 2) ≠ 0 := by positivity
    have : (j : ℤ) = 2 * (-t) := by
      have h' : 2 ^ (m + 2) * (j : ℤ) = 2 ^ (m + 2) * (2 * (-t)) := by linarith
      exact mul_left_cancel₀ hpos h'
    omega
  · intro hj
    refine h.trans ?_
    apply Int.modEq_iff_dvd.mpr
    obtain ⟨v, hv⟩ : ∃ v, j = 2 * v := ⟨j / 2, by omega⟩
    refine ⟨-(v : ℤ), ?_⟩
    subst hv
    push_cast
    ring

/-- the discrete logarithm of a power of 5 modulo 2^(m+3) is unique modulo 2^(m+1) -/
theorem five_pow_cancel (m a : ℕ) (T : ℤ) :
    (5 : ℤ) ^ a ≡ 5 ^ a * T [ZMOD 2 ^ (m + 3)] ↔ T ≡ 1 [ZMOD 2 ^ (m + 3)] := by
  constructor
  · intro h
    have hd := Int.modEq_iff_dvd.mp h
    have e : (5 : ℤ) ^ a * T - 5 ^ a = 5 ^ a * (T - 1) := by ring
    rw [e] at hd
    have cop : IsCoprime ((2 : ℤ) ^ (m + 3)) ((5 : ℤ) ^ a) := by
      apply IsCoprime.pow
      exact ⟨-2, 1, by norm_num⟩
    have := cop.dvd_of_dvd_mul_left hd
    exact (Int.modEq_iff_dvd.mpr this).symm
  · intro h
    have := Int.ModEq.mul_left ((5 : ℤ) ^ a) h
    simpa using this.symm

/-- one step of the bit-by-bit (Pohlig-Hellman) logarithm of `SolveDiscreteLogGaloisElement` -/
theorem dlog_step (m k x : ℕ) (g r1 r2 : ℤ) (hx0 : 0 < x) (hdiv : 2 ^ m % x = 0)
    (hk : k < 2 ^ (m + 1)) (hg : g ≡ 5 ^ k [ZMOD 2 ^ (m + 3)])
    (h1 : r1 ≡ 5 ^ ((k % (2 ^ m / x)) * x) [ZMOD 2 ^ (m + 3)]) (h1a : 0 ≤ r1) (h1b : r1 < 2 ^ (m + 3))
    (h2 : r2 ≡ g ^ x [ZMOD 2 ^ (m + 3)]) (h2a : 0 ≤ r2) (h2b : r2 < 2 ^ (m + 3)) :
    (k % (2 ^ m / x)) * x < 2 ^ m ∧
    (r1 = r2 ↔ (k / (2 ^ m / x)) % 2 = 0) ∧
    (x = 1 → (k % (2 ^ m / x)) * x + ((k / (2 ^ m / x)) % 2) * 2 ^ m = k) ∧
    (1 < x → x % 2 = 0 ∧ 2 ^ m % (x / 2) = 0 ∧
      ((k % (2 ^ m / x)) * x + ((k / (2 ^ m / x)) % 2) * 2 ^ m) / 2
        = (k % (2 ^ m / (x / 2))) * (x / 2)) := by
  have hdvd : x ∣ 2 ^ m := Nat.dvd_of_mod_eq_zero hdiv
  obtain ⟨i, hi, rfl⟩ := (Nat.dvd_prime_pow Nat.prime_two).1 hdvd
  have hc : 2 ^ m / 2 ^ i = 2 ^ (m - i) := Nat.pow_div hi (by norm_num)
  rw [hc] at h1 ⊢
  set c := 2 ^ (m - i) with hcdef
  have hcpos : 0 < c := by positivity
  have hcx : c * 2 ^ i = 2 ^ m := by
    rw [hcdef, ← pow_add]; congr 1; omega
  have hku : (k % c) * 2 ^ i < 2 ^ m := by
    rw [← hcx]
    exact Nat.mul_lt_mul_of_pos_right (Nat.mod_lt _ hcpos) (by positivity)
  refine ⟨hku, ?_, ?_, ?_⟩
  · -- the comparison decides the next bit
    have hkx : k * 2 ^ i = (k % c) * 2 ^ i + (k / c) * 2 ^ m := by
      have := Nat.mod_add_div k c
      calc k * 2 ^ i = (k % c + c * (k / c)) * 2 ^ i := by rw [this]
        _ = (k % c) * 2 ^ i + (k / c) * (c * 2 ^ i) := by ring
        _ = _ := by rw [hcx]
    have hgx : g ^ (2 ^ i) ≡ 5 ^ ((k % c) * 2 ^ i) * 5 ^ ((k / c) * 2 ^ m) [ZMOD 2 ^ (m + 3)] := by
      have e : (5 : ℤ) ^ (k * 2 ^ i) = 5 ^ ((k % c) * 2 ^ i) * 5 ^ ((k / c) * 2 ^ m) := by
        rw [hkx, pow_add]
      have := hg.pow (2 ^ i)
      rw [← pow_mul, e] at this
      exact this
    have key := five_pow_cancel m ((k % c) * 2 ^ i) ((5 : ℤ) ^ ((k / c) * 2 ^ m))
    have bit := five_pow_mul_two_pow_eq_one m (k / c)
    constructor
    · intro e
      have : (5 : ℤ) ^ ((k % c) * 2 ^ i) ≡ 5 ^ ((k % c) * 2 ^ i) * 5 ^ ((k / c) * 2 ^ m) [ZMOD 2 ^ (m + 3)] :=
        h1.symm.trans ((e ▸ h2).trans hgx)
      exact bit.mp (key.mp this)
    · intro hb
      have := key.mpr (bit.mpr hb)
      have e : r1 ≡ r2 [ZMOD 2 ^ (m + 3)] := h1.trans (this.trans (hgx.symm.trans h2.symm))
      have := Int.ModEq.eq e
      rw [Int.emod_eq_of_lt h1a h1b, Int.emod_eq_of_lt h2a h2b] at this
      exact this
  · intro hx1
    have hi0 : i = 0 := by
      by_contra h
      have : 2 ≤ 2 ^ i := by
        calc 2 = 2 ^ 1 := by norm_num
          _ ≤ 2 ^ i := Nat.pow_le_pow_right (by norm_num) (by omega)
      omega
    subst hi0
    have hcm : c = 2 ^ m := by rw [hcdef]; simp
    rw [hcm]
    have hlt : k / 2 ^ m < 2 := by
      apply Nat.div_lt_of_lt_mul
      rw [pow_succ] at hk; linarith
    rw [Nat.mod_eq_of_lt hlt]
    have := Nat.mod_add_div k (2 ^ m)
    simp only [pow_zero, mul_one]
    linarith [this, Nat.mul_comm (k / 2 ^ m) (2 ^ m)]
  · intro hx1
    have hi1 : 1 ≤ i := by
      by_contra h
      have : i = 0 := by omega
      subst this
      simp at hx1
    obtain ⟨l, rfl⟩ : ∃ l, i = l + 1 := ⟨i - 1, by omega⟩
    have hhalf : 2 ^ (l + 1) / 2 = 2 ^ l := by
      rw [pow_succ]; simp
    have hl : l ≤ m := by omega
    refine ⟨by rw [pow_succ]; simp, ?_, ?_⟩
    · rw [hhalf]
      exact Nat.mod_eq_zero_of_dvd (pow_dvd_pow 2 hl)
    · rw [hhalf, Nat.pow_div hl (by norm_num)]
      have h2c : 2 ^ (m - l) = c * 2 := by
        rw [hcdef, ← pow_succ]; congr 1; omega
      rw [h2c, Nat.mod_mul]
      have e2m : 2 ^ m = c * 2 * 2 ^ l := by
        rw [← hcx, pow_succ]; ring
      rw [e2m]
      have : k % c * 2 ^ (l + 1) + k / c % 2 * (c * 2 * 2 ^ l) = 2 * ((k % c + c * (k / c % 2)) * 2 ^ l) := by
        rw [pow_succ]; ring
      rw [this]
      simp

/-- `x & (p-1) = x mod p` for a power of two p (a divisor of 2^64) -/
theorem and_mask_dvd (x p : ℕ) (hp : 0 < p) (h : 2 ^ 64 % p = 0) : x &&& (p - 1) = x % p := by
  obtain ⟨i, _, rfl⟩ := (Nat.dvd_prime_pow Nat.prime_two).1 (Nat.dvd_of_mod_eq_zero h)
  exact Nat.and_two_pow_sub_one_eq_mod x i

/-- `a | p = a + p` for a power of two p above a -/
theorem or_add_pow2 (a p : ℕ) (h : 2 ^ 64 % p = 0) (ha : a < p) : a ||| p = a + p := by
  obtain ⟨i, _, rfl⟩ := (Nat.dvd_prime_pow Nat.prime_two).1 (Nat.dvd_of_mod_eq_zero h)
  have := Nat.two_pow_add_eq_or_of_lt ha 1
  simp only [mul_one] at this
  rw [Nat.add_comm a, this]
  exact Nat.or_comm _ _

/-- a congruence modulo W holds modulo every divisor of W -/
theorem cong_dvd (a b W p : ℤ) (h : a ≡ b [ZMOD W]) (hp : W % p = 0) : a ≡ b [ZMOD p] :=
  Int.ModEq.of_dvd (Int.dvd_of_emod_eq_zero hp) h

/-- the order of 5 modulo 2^(m+3) is 2^(m+1) -/
theorem five_pow_eq_one (m d : ℕ) (h : (5 : ℤ) ^ d ≡ 1 [ZMOD 2 ^ (m + 3)]) : 2 ^ (m + 1) ∣ d := by
  induction m with
  | zero =>
    have := (five_pow_mul_two_pow_eq_one 0 d).mp (by simpa using h)
    simpa using Nat.dvd_of_mod_eq_zero this
  | succ m ih =>
    have hlow : (5 : ℤ) ^ d ≡ 1 [ZMOD 2 ^ (m + 3)] :=
      Int.ModEq.of_dvd (pow_dvd_pow 2 (by omega)) h
    obtain ⟨j, rfl⟩ := ih hlow
    have := (five_pow_mul_two_pow_eq_one (m + 1) j).mp (by rw [mul_comm]; exact h)
    obtain ⟨v, rfl⟩ : ∃ v, j = 2 * v := ⟨j / 2, by omega⟩
    exact ⟨v, by rw [pow_succ 2 (m + 1)]; ring⟩

/-- 5^a ≡ 5^b (mod 2^(m+3)) with both exponents below 2^(m+1) forces a = b: the logarithm that
`SolveDiscreteLogGaloisElement` returns is the only one in [0, NthRoot/4) -/
theorem dlog_unique (m a b : ℕ) (ha : a < 2 ^ (m + 1)) (hb : b < 2 ^ (m + 1))
    (h : (5 : ℤ) ^ a ≡ 5 ^ b [ZMOD 2 ^ (m + 3)]) : a = b := by
  wlog hab : a ≤ b with H
  · exact (H m b a hb ha h.symm (by omega)).symm
  have e : (5 : ℤ) ^ b = 5 ^ a * 5 ^ (b - a) := by
    rw [← pow_add]; congr 1; omega
  rw [e] at h
  have h1 := (five_pow_cancel m a _).mp h
  obtain ⟨t, ht⟩ := five_pow_eq_one m (b - a) h1
  rcases t with _ | t
  · omega
  · have : 2 ^ (m + 1) ≤ b - a := by
      rw [ht]; exact Nat.le_mul_of_pos_right _ (by omega)
    omega

/-- `dlog_step` with the new bit split into its two cases (the form used in the verification conditions) -/
theorem dlog_step_cases (m k x : ℕ) (g r1 r2 : ℤ) (hx0 : 0 < x) (hdiv : 2 ^ m % x = 0)
    (hk : k < 2 ^ (m + 1)) (hg : g ≡ 5 ^ k [ZMOD 2 ^ (m + 3)])
    (h1 : r1 ≡ 5 ^ ((k % (2 ^ m / x)) * x) [ZMOD 2 ^ (m + 3)]) (h1a : 0 ≤ r1) (h1b : r1 < 2 ^ (m + 3))
    (h2 : r2 ≡ g ^ x [ZMOD 2 ^ (m + 3)]) (h2a : 0 ≤ r2) (h2b : r2 < 2 ^ (m + 3)) :
    (k % (2 ^ m / x)) * x < 2 ^ m ∧
    (r1 = r2 ↔ (k / (2 ^ m / x)) % 2 = 0) ∧
    (x = 1 → ((k / (2 ^ m / x)) % 2 = 0 → (k % (2 ^ m / x)) * x = k) ∧
             ((k / (2 ^ m / x)) % 2 = 1 → (k % (2 ^ m / x)) * x + 2 ^ m = k)) ∧
    (1 < x → x % 2 = 0 ∧ 2 ^ m % (x / 2) = 0 ∧
      ((k / (2 ^ m / x)) % 2 = 0 → ((k % (2 ^ m / x)) * x) / 2 = (k % (2 ^ m / (x / 2))) * (x / 2)) ∧
      ((k / (2 ^ m / x)) % 2 = 1 → ((k % (2 ^ m / x)) * x + 2 ^ m) / 2 = (k % (2 ^ m / (x / 2))) * (x / 2))) := by
  obtain ⟨a1, a2, a3, a4⟩ := dlog_step m k x g r1 r2 hx0 hdiv hk hg h1 h1a h1b h2 h2a h2b
  refine ⟨a1, a2, fun hx => ⟨fun hb => ?_, fun hb => ?_⟩, fun hx => ?_⟩
  · have := a3 hx; rw [hb] at this; simpa using this
  · have := a3 hx; rw [hb] at this; simpa using this
  · obtain ⟨b1, b2, b3⟩ := a4 hx
    refine ⟨b1, b2, fun hb => ?_, fun hb => ?_⟩
    · rw [hb] at b3; simpa using b3
    · rw [hb] at b3; simpa using b3

/-! ### Remainders with a symbolic modulus (`MultByMonomial`, property C01) -/

/-- Go's remainder `k % M` (truncated, sign of k), as the verification conditions encode it, against the
mathematical residue: `((k %go M) + M) mod M = k mod M`, and the remainder lies in (-M, M) -/
theorem tmod_shift (k M r : ℤ) (hM : 0 < M)
    (hr : r = if 0 ≤ k then (if 0 ≤ k then k else -k) % M else -((if 0 ≤ k then k else -k) % M)) :
    -M < r ∧ r < M ∧ (r + M) % M = k % M ∧ 0 ≤ k % M ∧ k % M < M := by
  have hne : M ≠ 0 := by omega
  refine ⟨?_, ?_, ?_, Int.emod_nonneg k hne, Int.emod_lt_of_pos k hM⟩
  · rw [hr]
    split_ifs with h
    · have := Int.emod_nonneg k hne; omega
    · have := Int.emod_lt_of_pos (-k) hM; omega
  · rw [hr]
    split_ifs with h
    · exact Int.emod_lt_of_pos k hM
    · have := Int.emod_nonneg (-k) hne; omega
  · have key : r ≡ k [ZMOD M] := by
      rw [hr]
      split_ifs with h
      · exact Int.mod_modEq k M
      · have := (Int.mod_modEq (-k) M).neg
        simpa using this
    have : r + M ≡ k [ZMOD M] := by
      have h2 : r + M ≡ r [ZMOD M] := by simp [Int.ModEq]
      exact h2.trans key
    exact this

/-- the residue of a value in [0, 2M) -/
theorem mod_range (a M : ℤ) (_hM : 0 < M) :
    (0 ≤ a ∧ a < M → a % M = a) ∧ (M ≤ a ∧ a < 2 * M → a % M = a - M) := by
  constructor
  · rintro ⟨h0, h1⟩
    exact Int.emod_eq_of_lt h0 h1
  · rintro ⟨h0, h1⟩
    have : a % M = (a - M) % M := by
      rw [Int.sub_emod_right]
    rw [this]
    exact Int.emod_eq_of_lt (by omega) (by omega)

/-! ### Residues along an arithmetic progression (the prime generator, property C19) -/

/-- adding a multiple of M does not change the residue -/
theorem mod_add_multiple (a b M : ℤ) (h : b % M = 0) : (a + b) % M = a % M := by
  have : M ∣ b := Int.dvd_of_emod_eq_zero h
  obtain ⟨t, rfl⟩ := this
  exact Int.add_mul_emod_self_left a M t

/-- adding k*M does not change the residue -/
theorem mod_shift (a k M : ℤ) : (a + k * M) % M = a % M :=
  Int.add_mul_emod_self_right a k M

/-- Digits of `w` bits cover `r` bits when there are ceil(r / w) of them (finding F50). -/
theorem div_ceil (r w : ℤ) (hw : 0 < w) : r ≤ ((r + w - 1) / w) * w := by
  have h := Int.lt_ediv_add_one_mul_self (r + w - 1) hw
  have e : ((r + w - 1) / w + 1) * w = ((r + w - 1) / w) * w + w := by ring
  rw [e] at h
  omega

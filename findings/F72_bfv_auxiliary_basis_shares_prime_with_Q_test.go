package bgv

import (
	"testing"

	"github.com/tuneinsight/lattigo/v6/core/rlwe"
)

// The scale-invariant (BFV-style) multiplication must be exact for every parameter set that
// NewParametersFromLiteral accepts. Here Q is made of the two largest 61-bit NTT-friendly primes
// for N=2^6 (what ring.NewNTTFriendlyPrimesGenerator(61, 2N).NextDownstreamPrimes(2) returns);
// 61-bit Qi are accepted by the parameter validation.
func TestC05ScaleInvariantMulWithLargeQ(t *testing.T) {

	params, err := NewParametersFromLiteral(ParametersLiteral{
		LogN:             6,
		Q:                []uint64{0x1fffffffffffef01, 0x1fffffffffffed01},
		P:                []uint64{0x1000000000ce0001},
		PlaintextModulus: 65537,
	})
	if err != nil {
		// rejecting such a moduli chain is an acceptable behaviour
		t.Skipf("parameters rejected: %v", err)
	}

	T := params.PlaintextModulus()
	kgen := rlwe.NewKeyGenerator(params)
	sk := kgen.GenSecretKeyNew()
	enc := rlwe.NewEncryptor(params, sk)
	dec := rlwe.NewDecryptor(params, sk)
	ecd := NewEncoder(params)
	evk := rlwe.NewMemEvaluationKeySet(kgen.GenRelinearizationKeyNew(sk))

	a := make([]uint64, params.MaxSlots())
	b := make([]uint64, params.MaxSlots())
	want := make([]uint64, params.MaxSlots())
	for i := range a {
		a[i] = uint64(3*i+1) % T
		b[i] = uint64(7*i+5) % T
		want[i] = a[i] * b[i] % T
	}

	for level := params.MaxLevel(); level >= 0; level-- {

		encrypt := func(v []uint64) *rlwe.Ciphertext {
			pt := NewPlaintext(params, level)
			if err := ecd.Encode(v, pt); err != nil {
				t.Fatal(err)
			}
			ct, err := enc.EncryptNew(pt)
			if err != nil {
				t.Fatal(err)
			}
			return ct
		}

		ct0, ct1 := encrypt(a), encrypt(b)

		check := func(name string, res *rlwe.Ciphertext, err error) {
			if err != nil {
				t.Fatal(err)
			}
			have := make([]uint64, params.MaxSlots())
			if err := ecd.Decode(dec.DecryptNew(res), have); err != nil {
				t.Fatal(err)
			}
			bad := 0
			for i := range have {
				if have[i] != want[i] {
					bad++
				}
			}
			if bad != 0 {
				t.Errorf("level %d: %s of two fresh ciphertexts: %d/%d slots are wrong (Q=%x, auxiliary QMul=%x)", level, name, bad, len(have), params.Q(), params.RingQMul().ModuliChain())
			}
		}

		// sanity: the BGV-style product with the same keys and ciphertexts is exact
		res, err := NewEvaluator(params, evk).MulRelinNew(ct0, ct1)
		check("BGV MulRelinNew", res, err)

		// BFV evaluator
		res, err = NewEvaluator(params, evk, true).MulRelinNew(ct0, ct1)
		check("BFV MulRelinNew", res, err)

		res, err = NewEvaluator(params, evk, true).MulNew(ct0, ct1)
		check("BFV MulNew", res, err)

		// explicit scale-invariant call on the BGV evaluator
		res, err = NewEvaluator(params, evk).MulRelinScaleInvariantNew(ct0, ct1)
		check("MulRelinScaleInvariantNew", res, err)
	}
}

package probe2

import (
	"bufio"
	"bytes"
	"testing"

	"github.com/tuneinsight/lattigo/v6/utils/structs"
)

// A buffered reader whose buffer size is not a multiple of 8: the slice reader decodes
// floor(size/8) words but discards `size` bytes, so the stream loses its alignment.
func TestOddBufferSize(t *testing.T) {
	v := make(structs.Vector[uint64], 64)
	for i := range v {
		v[i] = uint64(i + 1)
	}
	var b bytes.Buffer
	if _, err := v.WriteTo(&b); err != nil {
		t.Fatal(err)
	}
	for _, size := range []int{4096, 104, 100} {
		var w structs.Vector[uint64]
		n, err := w.ReadFrom(bufio.NewReaderSize(bytes.NewReader(b.Bytes()), size))
		ok := err == nil && int(n) == b.Len() && len(w) == len(v)
		for i := range w {
			if ok && w[i] != v[i] {
				ok = false
			}
		}
		if !ok {
			t.Errorf("buffer size %d: n=%d (wrote %d) err=%v equal=%v", size, n, b.Len(), err, ok)
		}
	}
}

package rlwe

// Finding F50 (properties C04 / C02, "any power-of-two digit decomposition, moduli of unequal bit-sizes"):
// the number of power-of-two digits of a modulus is computed from round(log2(q)), not from its bit
// length.  An NTT-friendly prime just ABOVE a power of two (every second prime the generator yields
// for a requested size) has one more bit than that: when the digit size divides the rounded size the top
// bit of every coefficient is in no digit, and a key switch with such a key returns garbage.

import (
	"testing"

	"github.com/tuneinsight/lattigo/v6/ring"
)

func TestF50DigitCountOfAPrimeAboveAPowerOfTwo(t *testing.T) {
	params, err := NewParametersFromLiteral(ParametersLiteral{LogN: 10, LogQ: []int{35, 20}, NTTFlag: true})
	if err != nil {
		t.Fatal(err)
	}
	t.Logf("Q = %x (bit lengths %d, %d)", params.Q(), len64(params.Q()[0]), len64(params.Q()[1]))
	kgen := NewKeyGenerator(params)
	skIn, skOut := kgen.GenSecretKeyNew(), kgen.GenSecretKeyNew()
	for _, w := range []int{12, 10} { // 12: control (covers 24 bits), 10: two digits for a 21-bit prime
		base := w
		evk := kgen.GenEvaluationKeyNew(skIn, skOut, EvaluationKeyParameters{BaseTwoDecomposition: &base})
		pt := NewPlaintext(params, params.MaxLevel())
		ct, err := NewEncryptor(params, skIn).EncryptNew(pt) // an encryption of zero
		if err != nil {
			t.Fatal(err)
		}
		out := NewCiphertext(params, 1, params.MaxLevel())
		if err := NewEvaluator(params, nil).ApplyEvaluationKey(ct, evk, out); err != nil {
			t.Fatal(err)
		}
		dec := NewDecryptor(params, skOut).DecryptNew(out)
		r := params.RingQ().AtLevel(out.Level())
		r.INTT(dec.Value, dec.Value)
		if n := r.Log2OfStandardDeviation(dec.Value); n > 25 {
			t.Errorf("digit size %d, digit counts %v: the key-switched encryption of zero has log2(noise) = %.1f", w, evk.BaseTwoDecompositionVectorSize(), n)
		}
	}
}

func len64(q uint64) (n int) {
	for ; q != 0; q >>= 1 {
		n++
	}
	return
}

var _ = ring.NewPoly

package rlwe_test

import (
	"encoding/binary"
	"testing"

	"github.com/tuneinsight/lattigo/v6/core/rlwe"
	"github.com/tuneinsight/lattigo/v6/utils/buffer"
)

func c08NoPanic(t *testing.T, what string, f func() error) {
	t.Helper()
	var err error
	var p interface{}
	func() {
		defer func() { p = recover() }()
		err = f()
	}()
	if p != nil {
		t.Errorf("%s: panics instead of returning an error: %v", what, p)
	} else if err == nil {
		t.Errorf("%s: corrupted input accepted with a nil error", what)
	}
}

// A length field corrupted to ZERO (a single byte changed) must result in an error, not in a panic.
func TestC08ZeroLengthFieldPanics(t *testing.T) {

	params, err := rlwe.NewParametersFromLiteral(rlwe.ParametersLiteral{LogN: 5, LogQ: []int{30, 30}, LogP: []int{31}, NTTFlag: true})
	if err != nil {
		t.Fatal(err)
	}

	kgen := rlwe.NewKeyGenerator(params)
	sk := kgen.GenSecretKeyNew()

	// EvaluationKey: [BaseTwoDecomposition u64][#rows u64][#cols u64]...
	evk := kgen.GenEvaluationKeyNew(sk, sk)
	enc, err := evk.MarshalBinary()
	if err != nil {
		t.Fatal(err)
	}
	if binary.LittleEndian.Uint64(enc[8:]) != 2 {
		t.Fatalf("unexpected layout")
	}

	t.Run("EvaluationKey/rows=0", func(t *testing.T) {
		c := append([]byte(nil), enc...)
		c[8] = 0 // number of rows of the gadget matrix: 2 -> 0
		c08NoPanic(t, "EvaluationKey.ReadFrom(#rows=0)", func() error {
			_, err := new(rlwe.EvaluationKey).ReadFrom(buffer.NewBuffer(c))
			return err
		})
		c08NoPanic(t, "EvaluationKey.UnmarshalBinary(#rows=0)", func() error {
			return new(rlwe.EvaluationKey).UnmarshalBinary(c)
		})
	})

	t.Run("GaloisKey/rows=0", func(t *testing.T) {
		gk := kgen.GenGaloisKeyNew(5, sk)
		c, err := gk.MarshalBinary()
		if err != nil {
			t.Fatal(err)
		}
		c[16+8] = 0 // [GaloisElement][NthRoot][BaseTwoDecomposition][#rows]
		c08NoPanic(t, "GaloisKey.ReadFrom(#rows=0)", func() error {
			_, err := new(rlwe.GaloisKey).ReadFrom(buffer.NewBuffer(c))
			return err
		})
	})

	t.Run("MemEvaluationKeySet/rlk rows=0", func(t *testing.T) {
		set := rlwe.NewMemEvaluationKeySet(kgen.GenRelinearizationKeyNew(sk))
		c, err := set.MarshalBinary()
		if err != nil {
			t.Fatal(err)
		}
		c[1+8] = 0 // [hasRlk][BaseTwoDecomposition][#rows]
		c08NoPanic(t, "MemEvaluationKeySet.ReadFrom(rlk #rows=0)", func() error {
			_, err := new(rlwe.MemEvaluationKeySet).ReadFrom(buffer.NewBuffer(c))
			return err
		})
	})

	t.Run("Plaintext/polys=0", func(t *testing.T) {
		pt := rlwe.NewPlaintext(params, 1)
		c, err := pt.MarshalBinary()
		if err != nil {
			t.Fatal(err)
		}
		off := 1 + pt.MetaData.BinarySize() // [hasMetaData][MetaData][#polys u64]
		if binary.LittleEndian.Uint64(c[off:]) != 1 {
			t.Fatalf("unexpected layout")
		}
		c[off] = 0 // number of polynomials: 1 -> 0
		c08NoPanic(t, "Plaintext.ReadFrom(#polys=0)", func() error {
			_, err := new(rlwe.Plaintext).ReadFrom(buffer.NewBuffer(c))
			return err
		})
		c08NoPanic(t, "Plaintext.UnmarshalBinary(#polys=0)", func() error {
			return new(rlwe.Plaintext).UnmarshalBinary(c)
		})
	})
}

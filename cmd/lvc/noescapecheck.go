package main

// Structural contract "the argument is not retained" (property C09):
//
//	//@ noescape <function> <param>
//	//	//@   property C09
//
// Inside the function, `param`, the variable a type switch binds it to, plain copies of those, and
// every expression obtained from them by field selection, indexing or ranging that still has a
// REFERENCE type (pointer, slice, map) are handles on memory the caller owns.  The contract: no
// such handle is stored into a location that outlives the call - a field or element reached through
// the receiver, through another parameter, or through a package-level variable.  A pointer
// assignment where a copy was meant (`out.MetaData = in.MetaData` for `*out.MetaData = *in.MetaData`,
// `buf[i] = values[i]` for `buf[i].Set(values[i])`) is exactly such a store: afterwards a write to the
// output, or a later call on the same receiver, changes the caller's input.  Copies by value
// (`*a = *b`, `x.Set(y)`, `copy(dst, src)`) and stores into locals are allowed.  Decided on the typed
// AST; calls are not followed (a callee that retains its argument needs its own contract).

import (
	"fmt"
	"go/ast"
	"go/token"
	"go/types"
	"strings"
)

type NoEscapeSpec struct {
	Pkg, Target, Param, Line string
	Props                    []string
}

func parseNoEscapeBlocks(pkgPath string, lines, where []string) []*NoEscapeSpec {
	var out []*NoEscapeSpec
	var cur *NoEscapeSpec
	for i, l := range lines {
		f := strings.Fields(l)
		if len(f) == 0 {
			cur = nil
			continue
		}
		switch f[0] {
		case "noescape":
			if len(f) < 3 {
				continue
			}
			cur = &NoEscapeSpec{Pkg: pkgPath, Target: f[1], Param: f[2], Line: where[i]}
			out = append(out, cur)
		case "property":
			if cur != nil {
				cur.Props = append(cur.Props, f[1:]...)
			}
		default:
			cur = nil
		}
	}
	return out
}

func noEscapeObligations(prog *Program, id string) []simpleObligation {
	var out []simpleObligation
	for _, ns := range prog.NoEscape {
		for _, p := range ns.Props {
			if p == id {
				out = append(out, checkNoEscape(prog, ns)...)
			}
		}
	}
	return out
}

func isRefType(t types.Type) bool {
	if t == nil {
		return false
	}
	switch t.Underlying().(type) {
	case *types.Pointer, *types.Slice, *types.Map:
		return true
	}
	return false
}

func checkNoEscape(prog *Program, ns *NoEscapeSpec) []simpleObligation {
	key := ns.Pkg + "." + ns.Target
	short := shortPkg(key)
	name := "noescape/" + short + "/" + ns.Param
	fi := prog.Funcs[key]
	if fi == nil || fi.Decl.Body == nil {
		return []simpleObligation{{Name: name + "/target", Func: short, File: ns.Line, OK: false, Detail: "function not found (renamed or removed?)"}}
	}
	info := fi.Pkg.TypesInfo
	var param types.Object
	outliving := map[types.Object]bool{} // receiver and the other parameters
	if fi.Decl.Recv != nil {
		for _, fl := range fi.Decl.Recv.List {
			for _, n := range fl.Names {
				outliving[info.Defs[n]] = true
			}
		}
	}
	for _, fl := range fi.Decl.Type.Params.List {
		for _, n := range fl.Names {
			if n.Name == ns.Param {
				param = info.Defs[n]
			} else {
				outliving[info.Defs[n]] = true
			}
		}
	}
	if param == nil {
		return []simpleObligation{{Name: name + "/target", Func: short, File: ns.Line, OK: false, Detail: "no parameter " + ns.Param}}
	}
	aliases := map[types.Object]bool{param: true}
	// handle: an expression of reference type rooted at an alias
	var rootAlias func(e ast.Expr) bool
	rootAlias = func(e ast.Expr) bool {
		switch x := stripParens(e).(type) {
		case *ast.Ident:
			o := info.Uses[x]
			return o != nil && aliases[o]
		case *ast.SelectorExpr:
			if sel, ok := info.Selections[x]; ok && sel.Kind() == types.FieldVal {
				return rootAlias(x.X)
			}
		case *ast.IndexExpr:
			return rootAlias(x.X)
		case *ast.SliceExpr:
			return rootAlias(x.X)
		case *ast.StarExpr:
			return rootAlias(x.X)
		case *ast.TypeAssertExpr:
			return rootAlias(x.X)
		case *ast.UnaryExpr:
			if x.Op == token.AND {
				return rootAlias(x.X)
			}
		}
		return false
	}
	isHandle := func(e ast.Expr) bool {
		return isRefType(info.TypeOf(e)) && rootAlias(e)
	}
	for changed := true; changed; {
		changed = false
		add := func(o types.Object) {
			if o != nil && !aliases[o] {
				aliases[o] = true
				changed = true
			}
		}
		ast.Inspect(fi.Decl.Body, func(n ast.Node) bool {
			switch x := n.(type) {
			case *ast.TypeSwitchStmt:
				if a, ok := x.Assign.(*ast.AssignStmt); ok && len(a.Rhs) == 1 {
					if ta, ok := stripParens(a.Rhs[0]).(*ast.TypeAssertExpr); ok && rootAlias(ta.X) {
						for _, cl := range x.Body.List {
							if o := info.Implicits[cl]; o != nil && isRefType(o.Type()) {
								add(o)
							}
						}
					}
				}
			case *ast.AssignStmt:
				for i, r := range x.Rhs {
					if i < len(x.Lhs) && isHandle(r) {
						if id, ok := x.Lhs[i].(*ast.Ident); ok {
							o := info.Defs[id]
							if o == nil {
								o = info.Uses[id]
							}
							if v, ok := o.(*types.Var); ok && !v.IsField() && v.Parent() != nil && v.Parent() != v.Pkg().Scope() && !outliving[o] {
								add(o)
							}
						}
					}
				}
			case *ast.RangeStmt:
				// for _, v := range handle: v is a handle when it has a reference type
				if rootAlias(x.X) && x.Value != nil {
					if id, ok := x.Value.(*ast.Ident); ok {
						if o := info.Defs[id]; o != nil && isRefType(o.Type()) {
							add(o)
						}
					}
				}
			}
			return true
		})
	}
	// locals that are themselves references into memory that outlives the call
	// (`buf := recv.buf.([]*T)`): a store through them is a store into that memory
	var outlives func(e ast.Expr) bool
	outlives = func(e ast.Expr) bool {
		switch x := stripParens(e).(type) {
		case *ast.Ident:
			o := info.Uses[x]
			if o == nil {
				o = info.Defs[x]
			}
			if o == nil {
				return false
			}
			if outliving[o] {
				return true
			}
			if v, ok := o.(*types.Var); ok && v.Parent() == v.Pkg().Scope() {
				return true
			}
			return false
		case *ast.SelectorExpr:
			return outlives(x.X)
		case *ast.IndexExpr:
			return outlives(x.X)
		case *ast.StarExpr:
			return outlives(x.X)
		}
		return false
	}
	for changed := true; changed; {
		changed = false
		ast.Inspect(fi.Decl.Body, func(n ast.Node) bool {
			as, ok := n.(*ast.AssignStmt)
			if !ok {
				return true
			}
			for i, r := range as.Rhs {
				if i >= len(as.Lhs) || !isRefType(info.TypeOf(r)) {
					continue
				}
				rr := stripParens(r)
				if ta, ok := rr.(*ast.TypeAssertExpr); ok {
					rr = ta.X
				}
				if _, isCall := rr.(*ast.CallExpr); isCall {
					continue
				}
				if !outlives(rr) {
					continue
				}
				if id, ok := as.Lhs[i].(*ast.Ident); ok {
					o := info.Defs[id]
					if o == nil {
						o = info.Uses[id]
					}
					if v, ok := o.(*types.Var); ok && !v.IsField() && !outliving[o] && !aliases[o] {
						outliving[o] = true
						changed = true
					}
				}
			}
			return true
		})
	}
	var out []simpleObligation
	base := prog.Fset.Position(fi.Decl.Pos()).Line
	stores := 0
	ast.Inspect(fi.Decl.Body, func(n ast.Node) bool {
		as, ok := n.(*ast.AssignStmt)
		if !ok {
			return true
		}
		for i, r := range as.Rhs {
			if i >= len(as.Lhs) || !isHandle(r) {
				continue
			}
			l := stripParens(as.Lhs[i])
			if _, isIdent := l.(*ast.Ident); isIdent && !outlives(l) {
				continue // a local handle
			}
			if _, isStar := l.(*ast.StarExpr); isStar && !isRefType(info.TypeOf(l)) {
				continue
			}
			stores++
			bad := outlives(l)
			// a store into a local aggregate (local struct / slice of handles) is tracked as an alias
			// only when it is a plain identifier; stores through local aggregates are flagged too,
			// conservatively, when that aggregate is later returned or outlives - not modelled: flag
			// only the outliving ones
			at := prog.Fset.Position(as.Pos())
			so := simpleObligation{Name: fmt.Sprintf("%s:store@+%d", name, at.Line-base), Func: short, File: fmt.Sprintf("%s:%d", at.Filename, at.Line), OK: !bad}
			if bad {
				so.Detail = fmt.Sprintf("`%s = %s` stores a reference to memory of the caller's argument %s into a location that outlives the call: the argument is retained (a later write through that location modifies the caller's input)", exprString(as.Lhs[i]), exprString(r), ns.Param)
			}
			out = append(out, so)
		}
		return true
	})
	out = append(out, simpleObligation{Name: name + "/handles", Func: short, File: ns.Line, OK: true, Detail: fmt.Sprintf("%d aliases, %d stores of handles examined", len(aliases), stores)})
	return out
}

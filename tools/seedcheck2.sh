#!/bin/bash
# seedcheck2.sh <seed dir> : confirm a seeded change of the second round (made against the current
# tree, with the fix: commits) in a scratch copy of /repo: the demo passes on the clean tree, fails
# with the patch, and the tests of the touched packages still pass with it.
set -u
export GOFLAGS=-mod=mod GOPROXY=off GOSUMDB=off GOTOOLCHAIN=local
D=$1; shift
ID=$(basename $D)
WT=/var/tmp/wt-check2-$ID
rm -rf $WT; mkdir -p $WT
rsync -a --exclude .git /repo/ $WT/
place=$(python3 -c "import json;print(json.load(open('$D/meta.json'))['demo_place'])")
run=$(python3 -c "import json;print(json.load(open('$D/meta.json'))['demo_run'])")
demo=$(ls $D/demo*_test.go 2>/dev/null | head -1)
cd $WT
cp $demo $WT/$place/zz_demo_${ID//-/_}_test.go
echo "== clean tree demo (expect PASS)"; eval "$run" > /tmp/seedcheck2-$ID.clean.log 2>&1; c=$?; echo "exit=$c"
patch -p1 -s < $D/patch.diff || { echo "PATCH DOES NOT APPLY"; rm -rf $WT; exit 2; }
echo "== patched build"; go build ./... > /tmp/seedcheck2-$ID.build.log 2>&1; echo "exit=$?"
echo "== patched demo (expect FAIL)"; eval "$run" > /tmp/seedcheck2-$ID.patched.log 2>&1; p=$?; echo "exit=$p"
rm -f $WT/$place/zz_demo_*_test.go
pk=$(grep '^+++ ' $D/patch.diff | sed 's|^+++ b/||' | xargs -n1 dirname | sort -u | sed 's|^|./|; s|$|/...|' | tr '\n' ' ')
echo "== patched tests: $pk $*"; go test -count=1 -vet=off -timeout 20m $pk "$@" > /tmp/seedcheck2-$ID.tests.log 2>&1; t=$?; echo "exit=$t"; grep -v "^ok\|no test files" /tmp/seedcheck2-$ID.tests.log | head -5
cd /; rm -rf $WT
if [ $c = 0 ] && [ $p != 0 ] && [ $t = 0 ]; then echo "CONFIRMED $ID"; else echo "NOT-CONFIRMED $ID clean=$c patched=$p tests=$t"; fi

package main

// Per-property configuration of the registered checks.

var stdTrusted = []string{
	"go/packages + go/types front end (x/tools v0.29.0)",
	"mathematical lemmas stated in DESIGN.md section 5 (CRT isomorphism, Fermat for the oracle-prime moduli, Cooley-Tukey composition)",
}

func copySimple(id string) func(prog *Program, repo, tier string) ([]simpleObligation, []string) {
	return func(prog *Program, repo, tier string) ([]simpleObligation, []string) {
		return copyObligations(prog, id), nil
	}
}

var propertyConfigs = map[string]*propertyConfig{
	"C10": {
		ID:       "C10",
		Packages: []string{"./..."},
		Level:    "proof",
		Explain: "Copy-constructor contracts (`//@ copy T.M` with shared / fresh / copied / rebound / derived classes for every field) in the zz_contracts_verif.go files; " +
			"the constructor's returned composite literal is executed symbolically on the typed AST, one obligation per struct field: the field is classified (completeness), set, and set the way its class demands " +
			"(shared = exactly receiver.f; fresh = newly built, not receiver.f; copied = a call on receiver.f; rebound = the parameter; derived = built from the named receiver fields).",
		Assumptions: []string{
			"decides the completeness / sharing-discipline clauses of C10 only: every field of the copy is accounted for and owned (scratch, sampler, PRNG-backed) state is never shared between copies",
			"NOT decided: behavioural equality of copy and original beyond field provenance, deep-copy contents, and data-race freedom of memory classified shared (that needs the frame engine over all methods, see DESIGN.md)",
			"constructors must return a composite literal (directly or through one local); other shapes are reported as failed target obligations, not skipped",
		},
		Trusted: []string{"go/packages + go/types front end (x/tools v0.29.0)", "the field classification in the contract files is the specification (written from the documented intent of each constructor)"},
		Simple:  copySimple("C10"),
	},
	"C01": {
		ID:       "C01",
		Packages: []string{"./ring/..."},
		Level:    "proof",
		Explain: "Every function of the ring layer listed under 'functions' carries a contract (requires/ensures/assigns/loop invariants) in ring/zz_contracts_verif.go; " +
			"lvc symbolically executes the real body from /repo's working tree and discharges one SMT obligation per postcondition, callee precondition, bounds check, " +
			"unsafe 8-lane window, loop-invariant clause (per lane) and frame condition, for all inputs in the stated ranges and all lengths.",
		Assumptions: []string{
			"uint64 arithmetic is modelled exactly (wrap-around mod 2^64); signed int arithmetic is mathematical with an overflow obligation at every operation",
			"variable*variable products are the uninterpreted function mul in polynomial normal form; the nonlinear facts used are instances of library lemmas that are themselves proved on every run",
			"slices have length <= 2^40 and addresses <= 2^56 (address-space bound)",
			"meaning clauses of vector kernels follow from the per-lane data-flow postcondition plus the scalar 'meaning' lemma (meta-step of the engine)",
			"NOT decided here: that the log N butterfly layers compose to the negacyclic DFT (stated lemma, DESIGN.md 4/C01 4c)",
		},
		Trusted: stdTrusted,
	},
}

package main

import (
	"fmt"
	"go/types"
	"sort"
	"strings"

	"golang.org/x/tools/go/ssa"
)

// Frame contracts (kept in the build-tagged contract files of /repo):
//
//	//@ owned <Type> <field> <field> ...        receiver fields that methods of Type may write (scratch)
//	//@ frame <Type>.* inputs=auto               every exported method of Type: parameters that are not
//	                                             designated outputs (by name) must not be written
//	//@ frame <Type>.<Method> inputs=a,b         explicit list of input parameters
//	//@ frame <Type>.<Method> inplace=a          documented in-place parameter (allowed)
//	//@ frame <Type>.<Method> skip <reason>      not under frame contract
//	//@ frame <Func> inputs=...                  package-level function
//	//@ fresh <Type>.<Method>                    the result must not point into receiver/argument memory
type FrameSpec struct {
	Pkg     string
	Target  string // Type.Method, Type.*, Func
	Inputs  []string
	Auto    bool
	Inplace []string
	Skip    string
	Props   []string
	Line    string
}

var outputNames = map[string]bool{"opOut": true, "ctOut": true, "ptOut": true, "cOut": true, "out": true, "pOut": true,
	"polOut": true, "ctQP": true, "opOutQP": true, "shareOut": true, "share3": true, "ctxOut": true, "p1Out": true}

func parseFrameLine(pkg, text, line string) (*FrameSpec, []string, string, error) {
	f := strings.Fields(text)
	switch f[0] {
	case "owned":
		if len(f) < 2 {
			return nil, nil, "", fmt.Errorf("%s: bad owned line", line)
		}
		return nil, f[2:], f[1], nil
	case "frame":
		if len(f) < 2 {
			return nil, nil, "", fmt.Errorf("%s: bad frame line", line)
		}
		fs := &FrameSpec{Pkg: pkg, Target: f[1], Line: line}
		for i := 2; i < len(f); i++ {
			a := f[i]
			switch {
			case a == "skip":
				fs.Skip = strings.Join(f[i+1:], " ")
				if fs.Skip == "" {
					fs.Skip = "no reason given"
				}
				return fs, nil, "", nil
			case strings.HasPrefix(a, "inputs="):
				v := strings.TrimPrefix(a, "inputs=")
				if v == "auto" {
					fs.Auto = true
				} else if v != "" {
					fs.Inputs = strings.Split(v, ",")
				}
			case strings.HasPrefix(a, "inplace="):
				fs.Inplace = strings.Split(strings.TrimPrefix(a, "inplace="), ",")
			case strings.HasPrefix(a, "property="):
				fs.Props = strings.Split(strings.TrimPrefix(a, "property="), ",")
			default:
				return nil, nil, "", fmt.Errorf("%s: bad frame argument %q", line, a)
			}
		}
		return fs, nil, "", nil
	}
	return nil, nil, "", fmt.Errorf("%s: not a frame line", line)
}

type frameObligation struct {
	Name    string
	Func    string
	File    string
	OK      bool
	Detail  string
	Witness string
}

// frameObligations evaluates every frame contract of the program for property id.
func frameObligations(prog *Program, fp *FrameProg, id string) ([]frameObligation, []string) {
	var out []frameObligation
	var notes []string
	// roots: every function named by a frame contract of this property
	var roots []*ssa.Function
	for _, fs := range prog.Frames {
		if strings.HasSuffix(fs.Target, ".*") {
			tn := strings.TrimSuffix(fs.Target, ".*")
			for k, fi := range prog.Funcs {
				if strings.HasPrefix(k, fs.Pkg+"."+tn+".") && fi.Obj != nil && fi.Obj.Exported() {
					roots = append(roots, fp.Find(k)...)
				}
			}
		} else {
			roots = append(roots, fp.Find(fs.Pkg+"."+fs.Target)...)
		}
	}
	sort.Slice(roots, func(i, j int) bool { return roots[i].String() < roots[j].String() })
	fp.Solve(roots)
	// explicit method specs override Type.*
	explicit := map[string]*FrameSpec{}
	for _, fs := range prog.Frames {
		if !strings.HasSuffix(fs.Target, ".*") {
			explicit[fs.Pkg+"."+fs.Target] = fs
		}
	}
	serves := func(fs *FrameSpec) bool {
		if len(fs.Props) == 0 {
			return id == "C09"
		}
		for _, p := range fs.Props {
			if p == id {
				return true
			}
		}
		return false
	}
	seen := map[string]bool{}
	check := func(fs *FrameSpec, key string) {
		if seen[key] {
			return
		}
		seen[key] = true
		short := shortPkg(key)
		fns := fp.Find(key)
		if len(fns) == 0 {
			out = append(out, frameObligation{Name: short + "/frame-target", Func: short, File: fs.Line, OK: false, Detail: "function under frame contract not found (renamed or removed?)"})
			return
		}
		if fs.Skip != "" {
			notes = append(notes, "not under frame contract: "+short+" ("+fs.Skip+")")
			return
		}
		for _, fn := range fns {
			sum := fp.sum[fn]
			names := fp.paramNames(fn)
			hasRecv := fn.Signature.Recv() != nil
			inputs := map[int]string{}
			isIn := func(n string) bool {
				for _, x := range fs.Inplace {
					if x == n {
						return false
					}
				}
				if fs.Auto {
					return !outputNames[n]
				}
				for _, x := range fs.Inputs {
					if x == n {
						return true
					}
				}
				return false
			}
			for i, n := range names {
				if hasRecv && i == 0 {
					continue
				}
				if pointerLike(fn.Params[i].Type()) && isIn(n) {
					inputs[i] = n
				}
			}
			// receiver fields
			owned := map[string]bool{}
			recvType := ""
			if hasRecv {
				rt := fn.Signature.Recv().Type()
				if p, ok := rt.(*types.Pointer); ok {
					rt = p.Elem()
				}
				if n, ok := rt.(*types.Named); ok {
					recvType = n.Obj().Name()
					for _, f := range prog.Owned[n.Obj().Pkg().Path()+"."+recvType] {
						owned[f] = true
					}
				}
			}
			var bad []string
			var wit []string
			for _, o := range sum.writes.sorted() {
				if !isParamOrigin(o) {
					continue
				}
				i, f := splitParamOrigin(o)
				w := sum.witness[o]
				where := fp.fset.Position(w.Pos).String()
				if hasRecv && i == 0 {
					if j := strings.Index(f, "."); j >= 0 {
						f = f[:j]
					}
					if f == "" || !owned[f] {
						if fs.Auto || len(fs.Inputs) > 0 {
							field := f
							if field == "" {
								field = "(whole receiver)"
							}
							bad = append(bad, fmt.Sprintf("receiver field %s.%s is not declared owned", recvType, field))
							wit = append(wit, fmt.Sprintf("%s via %s", where, w.Via))
						}
					}
					continue
				}
				if n, ok := inputs[i]; ok {
					bad = append(bad, fmt.Sprintf("input parameter %s is written", n))
					wit = append(wit, fmt.Sprintf("%s via %s", where, w.Via))
				}
			}
			nm := short + "/frame"
			if fn.Origin() != nil {
				nm += "[" + fn.String() + "]"
			}
			ob := frameObligation{Name: nm, Func: short, File: fp.fset.Position(fn.Pos()).String(), OK: len(bad) == 0}
			if len(bad) > 0 {
				ob.Detail = strings.Join(bad, "; ")
				ob.Witness = strings.Join(wit, "; ")
			}
			out = append(out, ob)
		}
	}
	for _, fs := range prog.Frames {
		if !serves(fs) {
			continue
		}
		if strings.HasSuffix(fs.Target, ".*") {
			tn := strings.TrimSuffix(fs.Target, ".*")
			// all exported methods of the type declared in the module
			var keys []string
			for k, fi := range prog.Funcs {
				if strings.HasPrefix(k, fs.Pkg+"."+tn+".") && fi.Obj != nil && fi.Obj.Exported() {
					keys = append(keys, k)
				}
			}
			sort.Strings(keys)
			if len(keys) == 0 {
				out = append(out, frameObligation{Name: shortPkg(fs.Pkg) + "." + fs.Target + "/frame-target", Func: fs.Target, File: fs.Line, OK: false, Detail: "type has no exported methods (renamed or removed?)"})
			}
			for _, k := range keys {
				if ex, ok := explicit[k]; ok {
					check(ex, k)
				} else {
					check(fs, k)
				}
			}
		} else {
			check(fs, fs.Pkg+"."+fs.Target)
		}
	}
	return out, notes
}

var _ ssa.Value

package rlwe_test

import (
	"encoding/json"
	"testing"

	"github.com/tuneinsight/lattigo/v6/core/rlwe"
)

// rlwe.ParametersLiteral is the JSON-serializable description of an RLWE parameter set (its
// MarshalJSON is the default one and emits "LogNthRoot", its custom UnmarshalJSON forgets it).
func TestC08ParametersLiteralLogNthRoot(t *testing.T) {

	lit := rlwe.ParametersLiteral{LogN: 5, LogNthRoot: 9, LogQ: []int{40, 30}, LogP: []int{41}, NTTFlag: true}

	data, err := json.Marshal(lit)
	if err != nil {
		t.Fatal(err)
	}

	var got rlwe.ParametersLiteral
	if err = json.Unmarshal(data, &got); err != nil {
		t.Fatal(err)
	}

	if got.LogNthRoot != lit.LogNthRoot {
		t.Errorf("LogNthRoot not preserved: written %d (%s), read %d", lit.LogNthRoot, data, got.LogNthRoot)
	}

	// consequence: both ends of a link that exchange the literal instantiate different parameters
	p0, err := rlwe.NewParametersFromLiteral(lit)
	if err != nil {
		t.Fatal(err)
	}
	p1, err := rlwe.NewParametersFromLiteral(got)
	if err != nil {
		t.Fatal(err)
	}
	if !p0.Equal(&p1) {
		t.Errorf("parameters built from the literal before/after the JSON round trip differ: Q=%v P=%v vs Q=%v P=%v", p0.Q(), p0.P(), p1.Q(), p1.P())
	}
	for _, q := range p1.Q() {
		if q%(1<<lit.LogNthRoot) != 1 {
			t.Errorf("modulus %d of the decoded parameters is not 1 mod 2^%d", q, lit.LogNthRoot)
		}
	}
}

package ring

// Finding F22 (property C17): in the arbitrary-precision branch of GaussianSampler.read (taken
// when sigma > 2^53 and bound > 2^64) the truncation test `normInt.Cmp(boundInt) < 1` is made
// AFTER the sign has been applied, so it is always true for a negative sample: negative
// coefficients are never truncated and exceed the bound in absolute value.
//
// Run with: go test -overlay (see /verif/tools/findingtest.sh) or copy into /repo/ring.

import (
	"math/big"
	"testing"

	"github.com/tuneinsight/lattigo/v6/utils/sampling"
)

func TestF22GaussianBignumNegativeBound(t *testing.T) {
	// three 60-bit primes: Q ~ 2^180, large enough to centre values around 2^66
	r, err := NewRing(1<<10, []uint64{0xffffffffffc0001, 0xfffffffff840001, 0xfffffffff6a0001})
	if err != nil {
		t.Fatal(err)
	}
	prng, _ := sampling.NewKeyedPRNG([]byte("f22"))
	sigma := float64(1 << 62) * 4 // 2^64
	bound := sigma * 2            // 2^65: a 2-sigma truncation, |norm| > 2 has probability 4.5%
	g := NewGaussianSampler(prng, r, DiscreteGaussian{Sigma: sigma, Bound: bound}, false)
	pol := r.NewPoly()
	g.Read(pol)
	coeffs := make([]*big.Int, r.N())
	for i := range coeffs {
		coeffs[i] = new(big.Int)
	}
	r.PolyToBigintCentered(pol, 1, coeffs)
	b := new(big.Int)
	new(big.Float).SetFloat64(bound).Int(b)
	b.Add(b, big.NewInt(1)) // rounding slack
	var over, overNeg int
	for _, c := range coeffs {
		if c.CmpAbs(b) > 0 {
			over++
			if c.Sign() < 0 {
				overNeg++
			}
		}
	}
	if over != 0 {
		t.Fatalf("%d of %d coefficients exceed the bound in absolute value (%d of them negative)", over, len(coeffs), overNeg)
	}
}

package rlwe

import (
	"fmt"
	"testing"

	"github.com/tuneinsight/lattigo/v6/ring"
)

// GaloisElementsForPack(params, logGap) advertises the Galois elements "required to perform the Pack
// operation". Pack(cts, inputLogGap, zeroGarbageSlots) must therefore succeed (and return the packed
// coefficients) once Galois keys have been generated for exactly GaloisElementsForPack(params, inputLogGap).
func TestDemoC11GaloisElementsForPack(t *testing.T) {

	const LogN = 5
	const delta = uint64(1) << 30

	params, err := NewParametersFromLiteral(ParametersLiteral{
		LogN:     LogN,
		LogQ:     []int{50, 40},
		LogP:     []int{55},
		NTTFlag:  true,
		RingType: ring.Standard,
	})
	if err != nil {
		t.Fatal(err)
	}

	kgen := NewKeyGenerator(params)
	sk := kgen.GenSecretKeyNew()
	enc := NewEncryptor(params, sk)
	dec := NewDecryptor(params, sk)
	N := params.N()
	level := params.MaxLevel()
	ringQ := params.RingQ().AtLevel(level)

	for inputLogGap := 1; inputLogGap <= LogN; inputLogGap++ {
		t.Run(fmt.Sprintf("inputLogGap=%d", inputLogGap), func(t *testing.T) {

			// Keys for exactly the advertised list.
			galEls := GaloisElementsForPack(params, inputLogGap)
			rpk := &RingPackingEvaluationKey{
				Parameters: map[int]ParameterProvider{LogN: &params},
				RepackKeys: map[int]EvaluationKeySet{LogN: NewMemEvaluationKeySet(nil, kgen.GenGaloisKeysNew(galEls, sk)...)},
			}
			eval := NewRingPackingEvaluator(rpk)

			// 2^inputLogGap ciphertexts; the j-th one holds its values on the coefficients that are
			// multiples of 2^inputLogGap and garbage (7) elsewhere.
			gap := 1 << inputLogGap
			cts := map[int]*Ciphertext{}
			want := make([]int64, N)
			for j := 0; j < gap; j++ {
				pt := NewPlaintext(params, level)
				for i := 0; i < N; i++ {
					val := int64(7)
					if i%gap == 0 {
						val = int64(100*j + i/gap + 1)
						want[i+j] = val
					}
					for l := 0; l <= level; l++ {
						pt.Value.Coeffs[l][i] = uint64(val) * delta
					}
				}
				ringQ.NTT(pt.Value, pt.Value)
				pt.IsNTT = true
				ct := NewCiphertext(params, 1, level)
				if err := enc.Encrypt(pt, ct); err != nil {
					t.Fatal(err)
				}
				cts[j] = ct
			}

			out, err := eval.Pack(cts, inputLogGap, true)
			if err != nil {
				t.Fatalf("Pack failed with keys for GaloisElementsForPack(params, %d) = %v: %v", inputLogGap, galEls, err)
			}

			res := dec.DecryptNew(out)
			if res.IsNTT {
				ringQ.INTT(res.Value, res.Value)
			}
			q0 := ringQ.SubRings[0].Modulus
			for i := 0; i < N; i++ {
				c := res.Value.Coeffs[0][i]
				var have int64
				if c > q0/2 {
					have = -int64((q0 - c + delta/2) / delta)
				} else {
					have = int64((c + delta/2) / delta)
				}
				if have != want[i] {
					t.Fatalf("coefficient %d: have %d want %d", i, have, want[i])
				}
			}
		})
	}
}

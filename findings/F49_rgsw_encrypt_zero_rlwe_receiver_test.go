package rgsw

// Finding F49 (property C20, "RGSW encryption ... or any of the rlwe ciphertext types"): rgsw.Encryptor.EncryptZero
// with a receiver that is not an RGSW ciphertext forwards the (nil) result of the failed type assertion to the
// rlwe encryptor instead of the receiver: the documented rlwe receivers are always refused.

import (
	"testing"

	"github.com/tuneinsight/lattigo/v6/core/rlwe"
)

func TestF49EncryptZeroIntoRLWECiphertext(t *testing.T) {
	params, err := rlwe.NewParametersFromLiteral(rlwe.ParametersLiteral{LogN: 10, LogQ: []int{35, 20}, LogP: []int{30}, NTTFlag: true})
	if err != nil {
		t.Fatal(err)
	}
	sk := rlwe.NewKeyGenerator(params).GenSecretKeyNew()
	ct := rlwe.NewCiphertext(params, 1, params.MaxLevel())
	if err := NewEncryptor(params, sk).EncryptZero(ct); err != nil {
		t.Errorf("EncryptZero(*rlwe.Ciphertext): %v", err)
	}
	// control: Encrypt forwards its receiver
	if err := NewEncryptor(params, sk).Encrypt(nil, ct); err != nil {
		t.Fatalf("control failed: %v", err)
	}
}

import Mathlib.Data.Int.ModEq
import Mathlib.Tactic

/-!
Inductive facts about integer powers used as lemma-library rules by lvc (DESIGN.md 12.8).
`cong a b q` in the contracts is `a ≡ b [ZMOD q]`; `pow x n` is `x ^ n` with `n : ℕ`.
The SMT solvers cannot do these inductions; they are checked here, once per run of the
thorough tier (`lean PowLemmas.lean`), and used in the verification conditions as rule instances.
-/

theorem pow_zero_lvc (x : ℤ) : x ^ 0 = 1 := by simp

theorem pow_even_step (x : ℤ) (i : ℕ) (h : i % 2 = 0) : x ^ i = (x * x) ^ (i / 2) := by
  have : i = 2 * (i / 2) := by omega
  conv_lhs => rw [this]
  rw [pow_mul, sq]

theorem pow_odd_step (x : ℤ) (i : ℕ) (h : i % 2 = 1) : x ^ i = x * (x * x) ^ (i / 2) := by
  have : i = 2 * (i / 2) + 1 := by omega
  conv_lhs => rw [this]
  rw [pow_succ, pow_mul, sq, mul_comm]

theorem pow_cong (a b q : ℤ) (n : ℕ) (h : a ≡ b [ZMOD q]) : a ^ n ≡ b ^ n [ZMOD q] :=
  Int.ModEq.pow n h

theorem pow_add_lvc (x : ℤ) (m n : ℕ) : x ^ (m + n) = x ^ m * x ^ n := pow_add x m n

theorem pow_mul_lvc (x : ℤ) (m n : ℕ) : x ^ (m * n) = (x ^ m) ^ n := pow_mul x m n

/-! ### Lemmas over the contracts of `ModExp` / `GaloisElement` (property C11)

`GaloisElement(k)` is under contract `r ≡ 5^(k mod NthRoot) (mod NthRoot)`, `NthRoot = 2^m`.
The group law and the periodicity in `k` follow from the facts below. -/

/-- products of elements are the element of the sum of the exponents -/
theorem galois_compose (g q ra rb : ℤ) (a b : ℕ)
    (ha : ra ≡ g ^ a [ZMOD q]) (hb : rb ≡ g ^ b [ZMOD q]) :
    ra * rb ≡ g ^ (a + b) [ZMOD q] := by
  rw [pow_add]
  exact Int.ModEq.mul ha hb

/-- the generator 5 has order dividing 2^n modulo 2^(n+2) -/
theorem five_pow_two_pow (n : ℕ) : (5 : ℤ) ^ (2 ^ n) ≡ 1 [ZMOD 2 ^ (n + 2)] := by
  induction n with
  | zero => decide
  | succ n ih =>
    have h := (Int.modEq_iff_dvd.mp ih.symm)
    obtain ⟨t, ht⟩ := h
    have e : (5 : ℤ) ^ (2 ^ n) = 1 + 2 ^ (n + 2) * t := by linarith
    have : (5 : ℤ) ^ (2 ^ (n + 1)) = (5 ^ (2 ^ n)) ^ 2 := by
      rw [← pow_mul, pow_succ]
    rw [this, e]
    apply Int.modEq_iff_dvd.mpr
    refine ⟨-(t + 2 ^ (n + 1) * t ^ 2), ?_⟩
    ring

/-- exponents of the generator only matter modulo 2^n (the number of slots) -/
theorem galois_periodic (n k j : ℕ) :
    (5 : ℤ) ^ (k + j * 2 ^ n) ≡ 5 ^ k [ZMOD 2 ^ (n + 2)] := by
  have e : (5 : ℤ) ^ (k + j * 2 ^ n) = 5 ^ k * ((5 ^ 2 ^ n) ^ j) := by
    rw [pow_add, mul_comm j, pow_mul]
  rw [e]
  have h := (five_pow_two_pow n).pow j
  simp only [one_pow] at h
  calc (5 : ℤ) ^ k * ((5 ^ 2 ^ n) ^ j) ≡ 5 ^ k * 1 [ZMOD 2 ^ (n + 2)] := Int.ModEq.mul_left _ h
    _ = 5 ^ k := by ring

/-- g^(NthRoot-1) is the inverse of g for every power g of the generator -/
theorem galois_inverse (n k : ℕ) :
    (5 : ℤ) ^ k * (5 ^ k) ^ (2 ^ (n + 2) - 1) ≡ 1 [ZMOD 2 ^ (n + 2)] := by
  have hpos : 1 ≤ 2 ^ (n + 2) := Nat.one_le_two_pow
  have : (5 : ℤ) ^ k * (5 ^ k) ^ (2 ^ (n + 2) - 1) = (5 ^ (2 ^ (n + 2))) ^ k := by
    rw [← pow_succ', Nat.sub_add_cancel hpos, ← pow_mul, ← pow_mul, mul_comm]
  rw [this]
  have h4 : (5 : ℤ) ^ (2 ^ (n + 2)) ≡ 1 [ZMOD 2 ^ (n + 2)] := by
    have := (five_pow_two_pow n).pow 4
    simp only [one_pow] at this
    have e : (5 : ℤ) ^ (2 ^ (n + 2)) = ((5 : ℤ) ^ (2 ^ n)) ^ 4 := by
      rw [← pow_mul]; congr 1; ring
    rw [e]; exact this
  have := h4.pow k
  simpa using this

/-! ### The Montgomery constant: `GenMRedConstant(q) = q^(2^63 - 1) mod 2^64` is the inverse of an odd `q` -/

theorem pow_one_lvc (x : ℤ) : x ^ 1 = x := pow_one x

/-- an odd number to the power 2^(n+1) is 1 modulo 2^(n+3) -/
theorem odd_pow_two_pow (q : ℤ) (hq : q % 2 = 1) (n : ℕ) :
    q ^ (2 ^ (n + 1)) ≡ 1 [ZMOD 2 ^ (n + 3)] := by
  induction n with
  | zero =>
    -- q^2 ≡ 1 (mod 8)
    obtain ⟨k, hk⟩ : ∃ k, q = 2 * k + 1 := ⟨q / 2, by omega⟩
    apply Int.modEq_iff_dvd.mpr
    subst hk
    have h2 : (2 : ℤ) ∣ k * (k + 1) := by
      rcases Int.even_or_odd k with ⟨m, hm⟩ | ⟨m, hm⟩
      · exact ⟨m * (k + 1), by rw [hm]; ring⟩
      · exact ⟨k * (m + 1), by rw [hm]; ring⟩
    obtain ⟨c, hc⟩ := h2
    refine ⟨-c, ?_⟩
    have : (2 * k + 1) ^ 2 = 4 * (k * (k + 1)) + 1 := by ring
    simp only [pow_one, zero_add]
    norm_num
    rw [this, hc]; ring
  | succ n ih =>
    obtain ⟨t, ht⟩ := Int.modEq_iff_dvd.mp ih.symm
    have e : q ^ (2 ^ (n + 1)) = 1 + 2 ^ (n + 3) * t := by linarith
    have s : q ^ (2 ^ (n + 1 + 1)) = (q ^ (2 ^ (n + 1))) ^ 2 := by
      rw [← pow_mul, pow_succ]
    rw [s, e]
    apply Int.modEq_iff_dvd.mpr
    refine ⟨-(t + 2 ^ (n + 2) * t ^ 2), ?_⟩
    ring

/-- the instance used by the contract of GenMRedConstant -/
theorem odd_pow_2_63 (q : ℤ) (hq : q % 2 = 1) :
    q ^ (2 ^ 63) ≡ 1 [ZMOD 2 ^ 64] := by
  have h := odd_pow_two_pow q hq 61
  have h2 := h.pow 2
  simp only [one_pow] at h2
  have e : q ^ (2 ^ 63) = (q ^ (2 ^ (61 + 1))) ^ 2 := by
    rw [← pow_mul]; norm_num
  rw [e]
  exact h2

/-! ### Lemma over the contract of `Ring.Inverse` (property C15): the Fermat inverse -/

/-- for a prime q and b not divisible by q, b * b^(q-2) is 1 modulo q -/
theorem fermat_inverse (q : ℕ) (hq : q.Prime) (b : ℤ) (hb : IsCoprime b (q : ℤ)) :
    b * b ^ (q - 2) ≡ 1 [ZMOD (q : ℤ)] := by
  have h2 : 2 ≤ q := hq.two_le
  have e : b * b ^ (q - 2) = b ^ (q - 1) := by
    have : q - 1 = (q - 2) + 1 := by omega
    rw [this, pow_succ]; ring
  rw [e]
  exact Int.ModEq.pow_card_sub_one_eq_one hq hb

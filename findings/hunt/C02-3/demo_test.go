package ring

import (
	"math/big"
	"testing"
)

// DivFloorByLastModulusNTT must return floor(x / q_L) for every coefficient.
// Moduli: 30, 45 and 60 bits (all far below the 61-bit limit, so no overflow is involved).

func demoC02FloorCheck(t *testing.T, r *Ring, name string) {

	level := r.MaxLevel()
	N := r.N()
	qL := new(big.Int).SetUint64(r.SubRings[level].Modulus)
	rOut := r.AtLevel(level - 1)
	QOut := rOut.ModulusAtLevel[level-1]

	// x = k*q_L + d for small k, d : multiples of the last modulus and their neighbours
	xs := make([]*big.Int, N)
	for j := range xs {
		k := int64(j/4 + 1)
		d := int64(j%4) - 1 // -1, 0, 1, 2
		xs[j] = new(big.Int).Add(new(big.Int).Mul(big.NewInt(k), qL), big.NewInt(d))
	}

	p0 := r.NewPoly()
	r.SetCoefficientsBigint(xs, p0)

	// reference 1: math/big ; reference 2: the non-NTT function of the library
	want := make([]*big.Int, N)
	for j := range xs {
		q, m := new(big.Int), new(big.Int)
		q.DivMod(xs[j], qL, m)
		want[j] = q.Mod(q, QOut)
	}
	ref := rOut.NewPoly()
	r.DivFloorByLastModulus(p0, ref)
	refB := make([]*big.Int, N)
	rOut.PolyToBigint(ref, 1, refB)
	for j := range xs {
		if refB[j].Cmp(want[j]) != 0 {
			t.Fatalf("%s: DivFloorByLastModulus (non NTT) coeff %d: got %v want %v", name, j, refB[j], want[j])
		}
	}

	p0NTT := r.NewPoly()
	r.NTT(p0, p0NTT)

	out := rOut.NewPoly()
	r.DivFloorByLastModulusNTT(p0NTT, r.NewPoly(), out)
	rOut.INTT(out, out)

	got := make([]*big.Int, N)
	rOut.PolyToBigint(out, 1, got)

	bad := 0
	for j := range xs {
		if got[j].Cmp(want[j]) != 0 {
			if bad < 4 {
				t.Errorf("%s: coeff %d x=%v: floor(x/q_L)=%v, DivFloorByLastModulusNTT returned %v", name, j, xs[j], want[j], got[j])
			}
			bad++
		}
	}
	if bad > 0 {
		t.Errorf("%s: %d/%d coefficients are not the floored quotient", name, bad, N)
	}
}

func demoC02Primes(t *testing.T, nthRoot uint64) []uint64 {
	var moduli []uint64
	for _, b := range []uint64{30, 45, 60} {
		g := NewNTTFriendlyPrimesGenerator(b, nthRoot)
		q, err := g.NextAlternatingPrime()
		if err != nil {
			t.Fatal(err)
		}
		moduli = append(moduli, q)
	}
	return moduli
}

func TestDemoC02DivFloorByLastModulusNTTConjugateInvariant(t *testing.T) {
	N := 64
	r, err := NewRingConjugateInvariant(N, demoC02Primes(t, uint64(4*N)))
	if err != nil {
		t.Fatal(err)
	}
	demoC02FloorCheck(t, r, "ConjugateInvariant N=64")
}

func TestDemoC02DivFloorByLastModulusNTTStandardN8(t *testing.T) {
	N := 8 // smallest degree accepted by NewRing
	r, err := NewRing(N, demoC02Primes(t, uint64(2*N)))
	if err != nil {
		t.Fatal(err)
	}
	demoC02FloorCheck(t, r, "Standard N=8")
}

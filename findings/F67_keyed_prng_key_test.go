package multiparty

import (
	"bytes"
	"testing"

	"github.com/tuneinsight/lattigo/v6/core/rlwe"
	"github.com/tuneinsight/lattigo/v6/utils/sampling"
)

// Party A creates the common reference string from a seed and hands KeyedPRNG.Key() to
// party B, which (as documented on Key) re-instantiates the CRS with NewKeyedPRNG(key).
// Both parties then make the same SampleCRP calls and must obtain the same reference
// polynomials.
func TestC14_CRSKeyRoundTrip(t *testing.T) {

	seed := []byte("lattigo common reference string seed 0123456789")

	crsA, err := sampling.NewKeyedPRNG(seed)
	if err != nil {
		t.Fatal(err)
	}

	key := crsA.Key() // documented: "can be used with NewKeyedPRNG to instantiate a new PRNG that will produce the same stream of bytes"

	if !bytes.Equal(key, seed) {
		t.Errorf("KeyedPRNG.Key() = %q, want the seeding key %q", key, seed)
	}

	crsB, err := sampling.NewKeyedPRNG(key)
	if err != nil {
		t.Fatal(err)
	}

	params, err := rlwe.NewParametersFromLiteral(rlwe.ParametersLiteral{LogN: 8, LogQ: []int{60, 45, 30}, LogP: []int{61}, NTTFlag: true})
	if err != nil {
		t.Fatal(err)
	}

	ckgA, ckgB := NewPublicKeyGenProtocol(params), NewPublicKeyGenProtocol(params)
	crpA, crpB := ckgA.SampleCRP(crsA), ckgB.SampleCRP(crsB)
	if !crpA.Value.Equal(&crpB.Value) {
		t.Errorf("PublicKeyGen CRPs of party A and party B differ although B seeded its CRS with A's crs.Key()")
	}

	gkgA, gkgB := NewGaloisKeyGenProtocol(params), NewGaloisKeyGenProtocol(params)
	gA, gB := gkgA.SampleCRP(crsA), gkgB.SampleCRP(crsB)
	if !gA.Value.Equal(gB.Value) {
		t.Errorf("GaloisKeyGen CRPs of party A and party B differ although B seeded its CRS with A's crs.Key()")
	}

	// The control: a PRNG created by NewPRNG does round-trip through Key().
	p, _ := sampling.NewPRNG()
	q, _ := sampling.NewKeyedPRNG(p.Key())
	x, y := make([]byte, 64), make([]byte, 64)
	p.Read(x)
	q.Read(y)
	if !bytes.Equal(x, y) {
		t.Errorf("NewPRNG().Key() does not round-trip either")
	}
}

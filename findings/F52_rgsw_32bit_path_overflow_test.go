package rgsw

// Finding F52 (property C20, "in the single-modulus 32-bit fast path as well as the general path ... every
// digit decomposition"): the fast path of ExternalProduct (one modulus below 2^29, no auxiliary modulus)
// accumulates 2 * #digits products of a value below q with a lazily reduced NTT output (below 6q) in 64 bits
// without reduction.  Its guard only looks at the size of q: with digits of 1 or 2 bits (29 or 15 digits)
// the sum wraps and the product decrypts to a uniform polynomial.

import (
	"math/big"
	"slices"
	"testing"

	"github.com/tuneinsight/lattigo/v6/core/rlwe"
	"github.com/tuneinsight/lattigo/v6/utils/bignum"
)

func TestF5232BitPathSmallDigits(t *testing.T) {
	for _, w := range []int{7, 2, 1} {
		params, err := rlwe.NewParametersFromLiteral(rlwe.ParametersLiteral{LogN: 9, Q: []uint64{0x1fffc801}, NTTFlag: true})
		if err != nil {
			t.Fatal(err)
		}
		kgen := rlwe.NewKeyGenerator(params)
		sk := kgen.GenSecretKeyNew()
		ptRGSW := rlwe.NewPlaintext(params, 0)
		ptRLWE := rlwe.NewPlaintext(params, 0)
		k0, k1 := 2, 3
		ptRGSW.Value.Coeffs[0][k0] = 1
		ptRLWE.Value.Coeffs[0][k1] = 1
		params.RingQ().NTT(ptRGSW.Value, ptRGSW.Value)
		params.RingQ().NTT(ptRLWE.Value, ptRLWE.Value)
		scale := new(big.Int).SetUint64(1 << 22)
		params.RingQ().MulScalarBigint(ptRLWE.Value, scale, ptRLWE.Value)
		ctRGSW := NewCiphertext(params, 0, -1, w)
		if err := NewEncryptor(params, sk).Encrypt(ptRGSW, ctRGSW); err != nil {
			t.Fatal(err)
		}
		ctRLWE := rlwe.NewCiphertext(params, 1, 0)
		if err := rlwe.NewEncryptor(params, sk).Encrypt(ptRLWE, ctRLWE); err != nil {
			t.Fatal(err)
		}
		NewEvaluator(params, nil).ExternalProduct(ctRLWE, ctRGSW, ctRLWE)
		pt := rlwe.NewDecryptor(params, sk).DecryptNew(ctRLWE)
		params.RingQ().INTT(pt.Value, pt.Value)
		coeffs := make([]*big.Int, params.N())
		for i := range coeffs {
			coeffs[i] = new(big.Int)
		}
		params.RingQ().PolyToBigintCentered(pt.Value, 1, coeffs)
		have := make([]uint64, params.N())
		for i := range coeffs {
			bignum.DivRound(coeffs[i], scale, coeffs[i])
			have[i] = coeffs[i].Uint64()
		}
		want := make([]uint64, params.N())
		want[k0+k1] = 1
		if !slices.Equal(have, want) {
			t.Errorf("digits of %d bits (%d digits): X^%d * X^%d does not decrypt to X^%d (first coefficients %v)", w, len(ctRGSW.Value[0].Value[0]), k0, k1, k0+k1, have[:8])
		}
	}
}

// place in: ring
package ring

import (
	"fmt"
	"testing"

	"github.com/stretchr/testify/require"

	"github.com/tuneinsight/lattigo/v6/utils/sampling"
)

// TestDemoTernarySamplerAtLevel demonstrates that TernarySampler.AtLevel returns a sampler whose
// `sample` method value is still bound to the ORIGINAL sampler, hence that samples with the level
// of the original sampler instead of the requested one.
func TestDemoTernarySamplerAtLevel(t *testing.T) {

	const N = 64

	// 3 NTT-friendly moduli (taken from the test parameters of schemes/bgv).
	moduli := []uint64{0x3fffffa8001, 0x1000090001, 0x10000c8001}

	r, err := NewRing(N, moduli)
	require.NoError(t, err)
	require.Equal(t, 2, r.Level())

	const sentinel = uint64(0xdeadbeef)

	for _, X := range []Ternary{{P: 0.5}, {P: 1 / 3.0}, {H: 16}} {

		name := fmt.Sprintf("P=%.2f/H=%d", X.P, X.H)

		prng, err := sampling.NewPRNG()
		require.NoError(t, err)

		ts, err := NewTernarySampler(prng, r, X, false)
		require.NoError(t, err)

		isTernaryRow := func(row []uint64, q uint64) bool {
			for _, c := range row {
				if c != 0 && c != 1 && c != q-1 {
					return false
				}
			}
			return true
		}

		// 1) The level-0 view must be usable with a polynomial allocated at level 0.
		for _, op := range []string{"Read", "ReadAndAdd"} {
			t.Run(name+"/"+op+"/PolyAtLevel0", func(t *testing.T) {
				s := ts.AtLevel(0)
				pol := r.AtLevel(0).NewPoly()
				require.Equal(t, 0, pol.Level())
				require.NotPanics(t, func() {
					if op == "Read" {
						s.Read(pol)
					} else {
						s.ReadAndAdd(pol)
					}
				})
				require.True(t, isTernaryRow(pol.Coeffs[0], moduli[0]))
			})
		}

		// 2) The level-0 view must only touch the level-0 row of a polynomial that has more rows.
		t.Run(name+"/Read/PolyAtMaxLevel", func(t *testing.T) {
			s := ts.AtLevel(0)
			pol := r.NewPoly()
			for i := range pol.Coeffs {
				for j := range pol.Coeffs[i] {
					pol.Coeffs[i][j] = sentinel
				}
			}

			s.Read(pol)

			require.True(t, isTernaryRow(pol.Coeffs[0], moduli[0]), "row 0 must be sampled")
			for i := 1; i < len(pol.Coeffs); i++ {
				for j := range pol.Coeffs[i] {
					require.Equal(t, sentinel, pol.Coeffs[i][j], "row %d (above the requested level 0) was overwritten", i)
				}
			}
		})

		// 3) Control: the original sampler is unaffected and keeps sampling at its own (max) level.
		t.Run(name+"/Read/OriginalUnaffected", func(t *testing.T) {
			_ = ts.AtLevel(0)
			pol := r.NewPoly()
			ts.Read(pol)
			for i := range pol.Coeffs {
				require.True(t, isTernaryRow(pol.Coeffs[i], moduli[i]))
			}
			// same ternary value on every row
			for j := 0; j < N; j++ {
				c0 := pol.Coeffs[0][j]
				for i := 1; i < len(pol.Coeffs); i++ {
					ci := pol.Coeffs[i][j]
					require.True(t, (c0 == 0 && ci == 0) || (c0 == 1 && ci == 1) || (c0 == moduli[0]-1 && ci == moduli[i]-1))
				}
			}
		})
	}
}

package main

// Structural contract "every store into the polynomial goes through the callback" (property C17:
// the read and the read-and-add variants of a sampler share one body and differ only in the
// callback `f(old, sampled, modulus)`):
//
//	//@ storesvia <function> <poly param> <callback param>
//	//@   property C17
//
// Inside the function, the polynomial parameter `pol`, `pol.Coeffs`, a row `pol.Coeffs[j]` and
// variables assigned from those are views of the caller's coefficients.  The contract: every
// assignment whose target is a cell of such a view has the form  cell = f(cell, ..., ...)  with the
// SAME cell as first argument: the previous content always reaches the callback, so read-and-add
// adds.  A store that bypasses the callback (`coeffs[k][i] = 0`) overwrites what ReadAndAdd must
// keep.  Decided on the typed AST.

import (
	"fmt"
	"go/ast"
	"go/types"
	"strings"
)

type StoresViaSpec struct {
	Pkg, Target, Poly, Fn, Line string
	Props                       []string
}

func parseStoresViaBlocks(pkgPath string, lines, where []string) []*StoresViaSpec {
	var out []*StoresViaSpec
	var cur *StoresViaSpec
	for i, l := range lines {
		f := strings.Fields(l)
		if len(f) == 0 {
			cur = nil
			continue
		}
		switch f[0] {
		case "storesvia":
			if len(f) < 4 {
				continue
			}
			cur = &StoresViaSpec{Pkg: pkgPath, Target: f[1], Poly: f[2], Fn: f[3], Line: where[i]}
			out = append(out, cur)
		case "property":
			if cur != nil {
				cur.Props = append(cur.Props, f[1:]...)
			}
		default:
			cur = nil
		}
	}
	return out
}

func storesViaObligations(prog *Program, id string) []simpleObligation {
	var out []simpleObligation
	for _, s := range prog.StoresVia {
		for _, p := range s.Props {
			if p == id {
				out = append(out, checkStoresVia(prog, s)...)
			}
		}
	}
	return out
}

func checkStoresVia(prog *Program, sp *StoresViaSpec) []simpleObligation {
	key := sp.Pkg + "." + sp.Target
	short := shortPkg(key)
	name := "storesvia/" + short
	fi := prog.Funcs[key]
	if fi == nil || fi.Decl.Body == nil {
		return []simpleObligation{{Name: name + "/target", Func: short, File: sp.Line, OK: false, Detail: "function not found (renamed or removed?)"}}
	}
	info := fi.Pkg.TypesInfo
	var poly, fn types.Object
	for _, fl := range fi.Decl.Type.Params.List {
		for _, n := range fl.Names {
			if n.Name == sp.Poly {
				poly = info.Defs[n]
			}
			if n.Name == sp.Fn {
				fn = info.Defs[n]
			}
		}
	}
	if poly == nil || fn == nil {
		return []simpleObligation{{Name: name + "/target", Func: short, File: sp.Line, OK: false, Detail: "parameters " + sp.Poly + " / " + sp.Fn + " not found"}}
	}
	views := map[types.Object]bool{poly: true}
	// rooted: the expression denotes (part of) the polynomial's coefficient storage
	var rooted func(e ast.Expr) bool
	rooted = func(e ast.Expr) bool {
		switch x := stripParens(e).(type) {
		case *ast.Ident:
			o := info.Uses[x]
			return o != nil && views[o]
		case *ast.SelectorExpr:
			return x.Sel.Name == "Coeffs" && rooted(x.X)
		case *ast.IndexExpr:
			return rooted(x.X)
		case *ast.SliceExpr:
			return rooted(x.X)
		}
		return false
	}
	for changed := true; changed; {
		changed = false
		ast.Inspect(fi.Decl.Body, func(n ast.Node) bool {
			as, ok := n.(*ast.AssignStmt)
			if !ok {
				return true
			}
			for i, r := range as.Rhs {
				if i >= len(as.Lhs) || !rooted(r) {
					continue
				}
				if id, ok := as.Lhs[i].(*ast.Ident); ok {
					o := info.Defs[id]
					if o == nil {
						o = info.Uses[id]
					}
					// only slices (views), not loaded coefficients
					if o != nil && !views[o] {
						if _, isSlice := o.Type().Underlying().(*types.Slice); isSlice {
							views[o] = true
							changed = true
						}
					}
				}
			}
			return true
		})
	}
	var out []simpleObligation
	base := prog.Fset.Position(fi.Decl.Pos()).Line
	stores := 0
	ast.Inspect(fi.Decl.Body, func(n ast.Node) bool {
		as, ok := n.(*ast.AssignStmt)
		if !ok {
			return true
		}
		for i, l := range as.Lhs {
			ix, ok := stripParens(l).(*ast.IndexExpr)
			if !ok || !rooted(ix) {
				continue
			}
			// a cell of uint64, not a row
			if tv, ok := info.Types[ix]; !ok || !isIntegerType(tv.Type) {
				continue
			}
			stores++
			at := prog.Fset.Position(as.Pos())
			so := simpleObligation{Name: fmt.Sprintf("%s:store@+%d", name, at.Line-base), Func: short, File: fmt.Sprintf("%s:%d", at.Filename, at.Line)}
			okStore := false
			if len(as.Rhs) == len(as.Lhs) {
				if call, ok := stripParens(as.Rhs[i]).(*ast.CallExpr); ok {
					if id, ok := call.Fun.(*ast.Ident); ok && info.Uses[id] == fn && len(call.Args) >= 1 && exprString(call.Args[0]) == exprString(l) {
						okStore = true
					}
				}
			}
			so.OK = okStore
			if !okStore {
				so.Detail = fmt.Sprintf("`%s = %s` writes a coefficient of %s without going through %s(<the same cell>, ...): the read-and-add variant loses the previous content", exprString(l), exprString(as.Rhs[min(i, len(as.Rhs)-1)]), sp.Poly, sp.Fn)
			}
			out = append(out, so)
		}
		return true
	})
	if stores == 0 {
		out = append(out, simpleObligation{Name: name + "/target", Func: short, File: sp.Line, OK: false, Detail: "no store into " + sp.Poly + " found: the storesvia contract does not fit this function"})
	}
	return out
}

func isIntegerType(t types.Type) bool {
	b, ok := t.Underlying().(*types.Basic)
	return ok && b.Info()&types.IsInteger != 0
}

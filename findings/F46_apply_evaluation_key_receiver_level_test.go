package rlwe

// Finding F46 (property C04, "ciphertexts at any level not above the key's"): ApplyEvaluationKey with
// input and receiver of the same ring degree works at min(ctIn.Level(), opOut.Level()) but never
// resizes the receiver: a receiver allocated at a HIGHER level than the input (a reused ciphertext)
// keeps reporting its old level, with stale residues on the upper moduli, and decrypts to garbage
// without an error.  Relinearize and Automorphism resize their receiver to the common level.

import (
	"testing"

	"github.com/tuneinsight/lattigo/v6/ring"
)

func TestF46ApplyEvaluationKeyReceiverAboveInput(t *testing.T) {
	params, err := NewParametersFromLiteral(ParametersLiteral{LogN: 10,
		Q: []uint64{0x200000440001, 0x7fff80001, 0x800280001, 0x7ffd80001, 0x7ffc80001}, P: []uint64{0x3ffffffb80001, 0x4000000800001}, NTTFlag: true})
	if err != nil {
		t.Fatal(err)
	}
	kgen := NewKeyGenerator(params)
	skIn, skOut := kgen.GenSecretKeyNew(), kgen.GenSecretKeyNew()
	evk := kgen.GenEvaluationKeyNew(skIn, skOut)
	eval := NewEvaluator(params, nil)
	const level = 2
	pt := NewPlaintext(params, level)
	for i := 0; i < level+1; i++ {
		for j := range pt.Value.Coeffs[i] {
			pt.Value.Coeffs[i][j] = uint64((j*7919 + 13) % (1 << 20))
		}
	}
	want := *pt.Value.CopyNew()
	params.RingQ().AtLevel(level).NTT(pt.Value, pt.Value)
	ct, err := NewEncryptor(params, skIn).EncryptNew(pt)
	if err != nil {
		t.Fatal(err)
	}
	noise := func(out *Ciphertext) float64 {
		r := params.RingQ().AtLevel(out.Level())
		dec := NewDecryptor(params, skOut).DecryptNew(out)
		r.INTT(dec.Value, dec.Value)
		w := ring.NewPoly(params.N(), out.Level())
		for i := range w.Coeffs {
			copy(w.Coeffs[i], want.Coeffs[0]) // small coefficients: the same residues on every modulus
		}
		r.Sub(dec.Value, w, dec.Value)
		return r.Log2OfStandardDeviation(dec.Value)
	}
	same := NewCiphertext(params, 1, level) // control: receiver at the input's level
	if err := eval.ApplyEvaluationKey(ct, evk, same); err != nil {
		t.Fatal(err)
	}
	if n := noise(same); n > 12 {
		t.Fatalf("control failed: log2(noise) = %.1f", n)
	}
	above := NewCiphertext(params, 1, params.MaxLevel()) // a receiver allocated at the maximum level
	if err := eval.ApplyEvaluationKey(ct, evk, above); err == nil {
		if n := noise(above); n > 12 {
			t.Errorf("input at level %d, receiver allocated at level %d: no error, out.Level() = %d, log2(noise) = %.1f", level, params.MaxLevel(), above.Level(), n)
		}
	}
}

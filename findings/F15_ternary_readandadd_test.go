package probe2

import (
	"testing"

	"github.com/tuneinsight/lattigo/v6/ring"
	"github.com/tuneinsight/lattigo/v6/utils/sampling"
)

// F15: ReadAndAdd of a fixed-Hamming-weight ternary sampler erased the polynomial it adds to.
func TestTernarySparseReadAndAdd(t *testing.T) {
	r, _ := ring.NewRing(16, []uint64{97})
	prng, _ := sampling.NewKeyedPRNG([]byte{1, 2, 3})
	s, err := ring.NewSampler(prng, r, ring.Ternary{H: 2}, false)
	if err != nil {
		t.Fatal(err)
	}
	p := r.NewPoly()
	for i := range p.Coeffs[0] {
		p.Coeffs[0][i] = 5
	}
	s.ReadAndAdd(p)
	changed := 0
	for i, c := range p.Coeffs[0] {
		if c != 5 {
			changed++
			if c != 4 && c != 6 {
				t.Errorf("coefficient %d: 5 + ternary value gave %d", i, c)
			}
		}
	}
	if changed != 2 {
		t.Errorf("ReadAndAdd with Hamming weight 2 changed %d coefficients: %v", changed, p.Coeffs[0])
	}
}

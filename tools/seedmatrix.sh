#!/bin/bash
# seedmatrix.sh: apply every seeded change to a scratch copy of /repo (never to /repo itself),
# run every registered check's quick command against it (lvc check <ID> --repo <copy>) and record
# which checks report a violation.  Writes /verif/seeded/MATRIX.json.  Evidence files written by
# these runs describe the mutated copy: re-run the checks on /repo afterwards.
export GOFLAGS=-mod=mod GOPROXY=off GOSUMDB=off GOTOOLCHAIN=local
TAG=${MATRIX_TAG:-matrix}
OUT=${MATRIX_OUT:-/verif/seeded/MATRIX.json}
FILTER=${MATRIX_FILTER:-.}
M=/var/tmp/lvc-$TAG/repo
B=/var/tmp/lvc-$TAG/base
mkdir -p $M $B
# snapshot of /repo and of the checker, so that work going on in /repo or /verif meanwhile does not
# leak into the matrix
rsync -a --delete --exclude .git /repo/ $B/
cp /verif/bin/lvc /var/tmp/lvc-$TAG/lvc
IDS=$(python3 -c "import json;print(' '.join(c['property_id'] for c in json.load(open('/verif/MANIFEST.json'))['checks']))")
echo "{" > $OUT.tmp
first=1
for d in $(ls /verif/seeded | grep -v MATRIX | grep -E -e "$FILTER"); do
  [ -f /verif/seeded/$d/patch.diff ] || continue
  rsync -a --delete $B/ $M/
  (cd $M && patch -p1 -s < /verif/seeded/$d/patch.diff) || { echo "patch failed for $d" >&2; continue; }
  caught=""
  for id in $IDS; do
    out=$(cd /verif && timeout 600 /var/tmp/lvc-$TAG/lvc check $id --repo $M 2>&1)
    rc=$?
    if [ $rc -ne 0 ]; then
      ob=$(echo "$out" | grep -m1 "^VIOLATION" | sed 's/.*obligation=\([^ ]*\).*/\1/')
      # a non-zero exit WITHOUT a VIOLATION line is a failure of the checker, not a catch: keep its output
      [ -n "$ob" ] || { ob="CHECKER-FAILURE exit=$rc"; echo "$out" | tail -30 > /var/tmp/lvc-$TAG-failure-$d-$id.txt; }
      caught="$caught\"$id: $ob\","
    fi
  done
  [ $first = 1 ] || echo "," >> $OUT.tmp
  first=0
  printf ' "%s": [%s]' "$d" "${caught%,}" >> $OUT.tmp
  echo "$d -> ${caught:-missed}"
done
echo "" >> $OUT.tmp; echo "}" >> $OUT.tmp
mv $OUT.tmp $OUT
rm -rf /var/tmp/lvc-$TAG /verif/work/scratch_var_tmp_lvc-${TAG}_repo

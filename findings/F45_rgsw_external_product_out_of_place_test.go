package rgsw

// Finding F45 (property C20): ExternalProduct with two or more auxiliary moduli P writes the gadget
// products into the evaluator's buffers, but with a receiver that is NOT the input it then takes the Q
// part of the division by P from the receiver's old contents: the result out of place is garbage.  In
// place (the only configuration of the library's test) the buffers are the ones read and it is right.

import (
	"math/big"
	"slices"
	"testing"

	"github.com/tuneinsight/lattigo/v6/core/rlwe"
	"github.com/tuneinsight/lattigo/v6/utils/bignum"
)

func TestF45ExternalProductOutOfPlace(t *testing.T) {
	for _, logP := range [][]int{{61}, {61, 61}} {
		params, err := rlwe.NewParametersFromLiteral(rlwe.ParametersLiteral{LogN: 10, LogQ: []int{35, 20}, LogP: logP, NTTFlag: true})
		if err != nil {
			t.Fatal(err)
		}
		kgen := rlwe.NewKeyGenerator(params)
		sk := kgen.GenSecretKeyNew()
		ptRGSW := rlwe.NewPlaintext(params, params.MaxLevel())
		ptRLWE := rlwe.NewPlaintext(params, params.MaxLevel())
		k0, k1 := 2, 3
		for i := range params.RingQ().SubRings {
			ptRGSW.Value.Coeffs[i][k0] = 1
			ptRLWE.Value.Coeffs[i][k1] = 1
		}
		params.RingQ().NTT(ptRGSW.Value, ptRGSW.Value)
		params.RingQ().NTT(ptRLWE.Value, ptRLWE.Value)
		scale := new(big.Int).SetUint64(params.Q()[0])
		params.RingQ().MulScalarBigint(ptRLWE.Value, scale, ptRLWE.Value)
		ctRGSW := NewCiphertext(params, params.MaxLevelQ(), params.MaxLevelP(), 0)
		ctRLWE := rlwe.NewCiphertext(params, 1, params.MaxLevelQ())
		if err := NewEncryptor(params, sk).Encrypt(ptRGSW, ctRGSW); err != nil {
			t.Fatal(err)
		}
		if err := rlwe.NewEncryptor(params, sk).Encrypt(ptRLWE, ctRLWE); err != nil {
			t.Fatal(err)
		}
		decode := func(ct *rlwe.Ciphertext) []uint64 {
			pt := rlwe.NewDecryptor(params, sk).DecryptNew(ct)
			params.RingQ().INTT(pt.Value, pt.Value)
			coeffs := make([]*big.Int, params.N())
			for i := range coeffs {
				coeffs[i] = new(big.Int)
			}
			params.RingQ().PolyToBigintCentered(pt.Value, 1, coeffs)
			have := make([]uint64, params.N())
			for i := range coeffs {
				bignum.DivRound(coeffs[i], scale, coeffs[i])
				have[i] = coeffs[i].Uint64()
			}
			return have
		}
		want := make([]uint64, params.N())
		want[k0+k1] = 1
		eval := NewEvaluator(params, nil)
		out := rlwe.NewCiphertext(params, 1, params.MaxLevelQ())
		*out.MetaData = *ctRLWE.MetaData
		eval.ExternalProduct(ctRLWE, ctRGSW, out) // out of place
		if have := decode(out); !slices.Equal(have, want) {
			t.Errorf("%d auxiliary moduli, out of place: X^%d * X^%d does not decrypt to X^%d (first coefficients %v)", len(logP), k0, k1, k0+k1, have[:8])
		}
		inPlace := ctRLWE.CopyNew()
		eval.ExternalProduct(inPlace, ctRGSW, inPlace) // control
		if have := decode(inPlace); !slices.Equal(have, want) {
			t.Fatalf("%d auxiliary moduli, in place (control) failed", len(logP))
		}
	}
}

#!/bin/bash
# refactormatrix.sh <dir with <name>/patch.diff>: apply each HARMLESS refactoring to a scratch copy of
# /repo and run every registered check: any VIOLATION is a false alarm of the machinery.
export GOFLAGS=-mod=mod GOPROXY=off GOSUMDB=off GOTOOLCHAIN=local
SRC=${1:-/verif/refactors}
T=/var/tmp/lvc-${REF_TAG:-ref}
M=$T/repo; B=$T/base
mkdir -p $M $B
rsync -a --delete --exclude .git /repo/ $B/
cp /verif/bin/lvc $T/lvc
IDS=$(python3 -c "import json;print(' '.join(c['property_id'] for c in json.load(open('/verif/MANIFEST.json'))['checks']))")
for d in $(ls $SRC | grep -E -e "${REF_FILTER:-.}"); do
  [ -f $SRC/$d/patch.diff ] || continue
  rsync -a --delete $B/ $M/
  (cd $M && patch -p1 -s < $SRC/$d/patch.diff) || { echo "$d: patch failed"; continue; }
  (cd $M && go build ./... ) || { echo "$d: does not build"; continue; }
  alarms=""
  for id in $IDS; do
    out=$(cd /verif && timeout 900 $T/lvc check $id --repo $M 2>&1)
    rc=$?
    if [ $rc -ne 0 ]; then
      ob=$(echo "$out" | grep "^VIOLATION" | sed 's/.*obligation=\([^ ]*\).*/\1/' | head -3 | tr '\n' ' ')
      [ -n "$ob" ] || { ob="CHECKER-FAILURE exit=$rc"; echo "$out" | tail -30 > $T-failure-$d-$id.txt; }
      alarms="$alarms [$id: $ob]"
    fi
  done
  echo "$d -> ${alarms:-quiet}"
done
rm -rf $T /verif/work/scratch_var_tmp_lvc-${REF_TAG:-ref}_repo

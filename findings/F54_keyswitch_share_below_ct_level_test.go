package multiparty

// Finding F54 (property C16): KeySwitchProtocol.GenShare and PublicKeySwitchProtocol.GenShare work at
// min(level of the share, level of the ciphertext) - a share allocated BELOW the level of the ciphertext
// is how the protocol is asked for an output at a lower level - but KeySwitch always works at the level of
// the input ciphertext: with a ciphertext at level 2 and shares at level 1 both KeySwitch functions panic
// (index out of range) instead of producing the level-1 re-encryption.

import (
	"testing"

	"github.com/tuneinsight/lattigo/v6/core/rlwe"
	"github.com/tuneinsight/lattigo/v6/ring"
)

func f54Setup(t *testing.T) (params rlwe.Parameters, sks []*rlwe.SecretKey, skIn, skOut *rlwe.SecretKey, ct *rlwe.Ciphertext, want []uint64) {
	params, err := rlwe.NewParametersFromLiteral(rlwe.ParametersLiteral{LogN: 10, LogQ: []int{50, 40, 40}, LogP: []int{50}, NTTFlag: false})
	if err != nil {
		t.Fatal(err)
	}
	kgen := rlwe.NewKeyGenerator(params)
	sks = []*rlwe.SecretKey{kgen.GenSecretKeyNew(), kgen.GenSecretKeyNew()}
	skIn = rlwe.NewSecretKey(params)
	rq := params.RingQ()
	rq.Add(sks[0].Value.Q, sks[1].Value.Q, skIn.Value.Q)
	skOut = kgen.GenSecretKeyNew()

	pt := rlwe.NewPlaintext(params, params.MaxLevel())
	want = make([]uint64, params.N())
	for i := range want {
		want[i] = uint64(i%7) << 30
		for j := range pt.Value.Coeffs {
			pt.Value.Coeffs[j][i] = want[i]
		}
	}
	ct = rlwe.NewCiphertext(params, 1, params.MaxLevel())
	if err := rlwe.NewEncryptor(params, skIn).Encrypt(pt, ct); err != nil {
		t.Fatal(err)
	}
	return
}

func f54Check(t *testing.T, params rlwe.Parameters, sk *rlwe.SecretKey, ct *rlwe.Ciphertext, want []uint64) {
	if ct.Level() != 1 {
		t.Fatalf("the re-encryption is at level %d, the shares were at level 1", ct.Level())
	}
	pt := rlwe.NewDecryptor(params, sk).DecryptNew(ct)
	q0 := params.RingQ().SubRings[0].Modulus
	for i := range want {
		d := (pt.Value.Coeffs[0][i] + q0 - want[i]) % q0
		if d > q0/2 {
			d = q0 - d
		}
		if d > 1<<26 {
			t.Fatalf("coefficient %d: off by %d after the key switch", i, d)
		}
	}
}

func TestF54KeySwitchShareBelowCiphertextLevel(t *testing.T) {
	params, sks, _, skOut, ct, want := f54Setup(t)
	cks, err := NewKeySwitchProtocol(params, ring.DiscreteGaussian{Sigma: 8, Bound: 48})
	if err != nil {
		t.Fatal(err)
	}
	// the parties re-encrypt towards skOut held by party 0 alone (party 1 switches to zero)
	zero := rlwe.NewSecretKey(params)
	s0, s1 := cks.AllocateShare(1), cks.AllocateShare(1)
	cks.GenShare(sks[0], skOut, ct, &s0)
	cks.GenShare(sks[1], zero, ct, &s1)
	if err := cks.AggregateShares(s0, s1, &s0); err != nil {
		t.Fatal(err)
	}
	for _, inPlace := range []bool{false, true} {
		out := rlwe.NewCiphertext(params, 1, params.MaxLevel())
		in := ct.CopyNew()
		if inPlace {
			out = in
		}
		func() {
			defer func() {
				if r := recover(); r != nil {
					t.Fatalf("KeySwitch (in place: %v) with shares below the ciphertext level panics: %v", inPlace, r)
				}
			}()
			cks.KeySwitch(in, s0, out)
		}()
		f54Check(t, params, skOut, out, want)
	}
}

func TestF54PublicKeySwitchShareBelowCiphertextLevel(t *testing.T) {
	params, sks, _, skOut, ct, want := f54Setup(t)
	pcks, err := NewPublicKeySwitchProtocol(params, ring.DiscreteGaussian{Sigma: 8, Bound: 48})
	if err != nil {
		t.Fatal(err)
	}
	pk := rlwe.NewKeyGenerator(params).GenPublicKeyNew(skOut)
	s0, s1 := pcks.AllocateShare(1), pcks.AllocateShare(1)
	pcks.GenShare(sks[0], pk, ct, &s0)
	pcks.GenShare(sks[1], pk, ct, &s1)
	if err := pcks.AggregateShares(s0, s1, &s0); err != nil {
		t.Fatal(err)
	}
	for _, inPlace := range []bool{false, true} {
		out := rlwe.NewCiphertext(params, 1, params.MaxLevel())
		in := ct.CopyNew()
		if inPlace {
			out = in
		}
		func() {
			defer func() {
				if r := recover(); r != nil {
					t.Fatalf("PublicKeySwitch (in place: %v) with shares below the ciphertext level panics: %v", inPlace, r)
				}
			}()
			pcks.KeySwitch(in, s0, out)
		}()
		f54Check(t, params, skOut, out, want)
	}
}

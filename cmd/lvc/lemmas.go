package main

// The lemma library.  Every lemma is a closed statement about the integers; its instance
// formula (Stmt) may be used as a hint in contracts, and its proof obligation (Proof) is
// discharged on every run with native multiplication, so the library is proved, not assumed.
//
// cong(a,b,q) means: exists k in Z, a = b + k*q.  In verification conditions it is an
// uninterpreted predicate that is only ever manipulated through the rule instances below;
// every rule is proved here from the definition with an explicit witness.

import (
	"fmt"
	"math/big"
	"sort"
)

type Lemma struct {
	Name    string
	NParams int
	Params  []string
	Stmt    func(a []*Term) *Term
	Proof   func() *Obligation // nil: definitional
	Doc     string
}

var lemmaLib = map[string]*Lemma{}
var usedLemmas = map[string]bool{}

func congT(a, b, q *Term) *Term { return App("cong", SBool, a, b, q) }

type triple struct{ a, b *Term }

type congRule struct {
	name   string
	params []string // last one must be q
	side   func(a []*Term) *Term
	hyps   func(a []*Term) []triple
	concl  func(a []*Term) triple
	wit    func(a []*Term, k []*Term) *Term
	doc    string
}

func addCongRule(r congRule) {
	n := len(r.params)
	lm := &Lemma{Name: r.name, NParams: n, Params: r.params, Doc: r.doc}
	lm.Stmt = func(a []*Term) *Term {
		q := a[n-1]
		pre := TTrue
		if r.side != nil {
			pre = r.side(a)
		}
		if r.hyps != nil {
			for _, h := range r.hyps(a) {
				pre = And(pre, congT(h.a, h.b, q))
			}
		}
		c := r.concl(a)
		return Implies(pre, congT(c.a, c.b, q))
	}
	lm.Proof = func() *Obligation {
		a := make([]*Term, n)
		for i, p := range r.params {
			a[i] = Var(p, SInt)
		}
		q := a[n-1]
		var assume []*Term
		if r.side != nil {
			assume = append(assume, r.side(a))
		}
		var ks []*Term
		if r.hyps != nil {
			for i, h := range r.hyps(a) {
				k := Var(fmt.Sprintf("k%d", i), SInt)
				ks = append(ks, k)
				assume = append(assume, Eq(h.a, Add(h.b, Mul(k, q))))
			}
		}
		c := r.concl(a)
		goal := Eq(c.a, Add(c.b, Mul(r.wit(a, ks), q)))
		return &Obligation{Name: "lemma/" + r.name, Func: "lemma-library", Kind: "lemma", Assume: assume, Goal: goal, Native: true}
	}
	lemmaLib[r.name] = lm
}

func addArith(name string, params []string, stmt func(a []*Term) *Term, doc string) {
	addArithBy(name, params, stmt, nil, doc)
}

// addArithBy: a lemma proved from instances of other library lemmas.  With hints the proof
// obligation is rendered with the uninterpreted mul (the hints carry the nonlinear steps and
// the rest is linear arithmetic over the monomials); without hints it is rendered natively.
func addArithBy(name string, params []string, stmt func(a []*Term) *Term, hints func(a []*Term) []*Term, doc string) {
	lm := &Lemma{Name: name, NParams: len(params), Params: params, Stmt: stmt, Doc: doc}
	lm.Proof = func() *Obligation {
		a := make([]*Term, len(params))
		for i, p := range params {
			a[i] = Var(p, SInt)
		}
		o := &Obligation{Name: "lemma/" + name, Func: "lemma-library", Kind: "lemma", Goal: stmt(a), Native: hints == nil}
		if hints != nil {
			o.Assume = hints(a)
		}
		return o
	}
	lemmaLib[name] = lm
}

// addLean: an inductive lemma; its proof obligation is the Lean theorem of that name in
// /verif/lean/PowLemmas.lean (checked by `lean` with Mathlib on every run that uses it).
func addLean(name, theorem string, params []string, stmt func(a []*Term) *Term, doc string) {
	lm := &Lemma{Name: name, NParams: len(params), Params: params, Stmt: stmt, Doc: doc}
	lm.Proof = func() *Obligation {
		a := make([]*Term, len(params))
		for i, p := range params {
			a[i] = Var(p, SInt)
		}
		return &Obligation{Name: "lemma/" + name, Func: "lemma-library", Kind: "lemma", Goal: stmt(a), Lean: theorem}
	}
	lemmaLib[name] = lm
}

func powT(x, n *Term) *Term { return App("pow", SInt, x, n) }

func init() {
	zero := ConstI(0)
	two := ConstI(2)
	// two representatives in [0, q) of the same class are equal
	{
		lm := &Lemma{Name: "cong_small", NParams: 3, Params: []string{"a", "b", "q"}, Doc: "a ≡ b (mod q), 0 <= a, b < q  =>  a = b"}
		lm.Stmt = func(a []*Term) *Term {
			return Implies(And(congT(a[0], a[1], a[2]), Le(zero, a[0]), Lt(a[0], a[2]), Le(zero, a[1]), Lt(a[1], a[2])), Eq(a[0], a[1]))
		}
		lm.Proof = func() *Obligation {
			a, b, q, k := Var("a", SInt), Var("b", SInt), Var("q", SInt), Var("k", SInt)
			return &Obligation{Name: "lemma/cong_small", Func: "lemma-library", Kind: "lemma", Native: true,
				Assume: []*Term{Eq(a, Add(b, Mul(k, q))), Le(zero, a), Lt(a, q), Le(zero, b), Lt(b, q)}, Goal: Eq(a, b)}
		}
		lemmaLib["cong_small"] = lm
	}
	addLean("pow_one", "pow_one_lvc", []string{"x"},
		func(a []*Term) *Term { return Eq(powT(a[0], ConstI(1)), a[0]) }, "x^1 = x")
	addLean("pow_odd_unit", "odd_pow_2_63", []string{"x"},
		func(a []*Term) *Term {
			return Implies(Eq(Mod(a[0], two), ConstI(1)), congT(powT(a[0], Const(pow2(63))), ConstI(1), Const(W64)))
		}, "x odd => x^(2^63) ≡ 1 (mod 2^64)")
	addLean("pow_zero", "pow_zero_lvc", []string{"x"},
		func(a []*Term) *Term { return Eq(powT(a[0], zero), ConstI(1)) }, "x^0 = 1")
	addLean("pow_even", "pow_even_step", []string{"x", "i"},
		func(a []*Term) *Term {
			return Implies(And(Le(zero, a[1]), Eq(Mod(a[1], two), zero)), Eq(powT(a[0], a[1]), powT(Mul(a[0], a[0]), Div(a[1], two))))
		}, "i even => x^i = (x*x)^(i/2)")
	addLean("pow_odd", "pow_odd_step", []string{"x", "i"},
		func(a []*Term) *Term {
			return Implies(And(Le(zero, a[1]), Eq(Mod(a[1], two), ConstI(1))), Eq(powT(a[0], a[1]), Mul(a[0], powT(Mul(a[0], a[0]), Div(a[1], two)))))
		}, "i odd => x^i = x*(x*x)^(i/2)")
	addLean("pow_cong", "pow_cong", []string{"a", "b", "n", "q"},
		func(a []*Term) *Term {
			return Implies(And(Le(zero, a[2]), congT(a[0], a[1], a[3])), congT(powT(a[0], a[2]), powT(a[1], a[2]), a[3]))
		}, "a ≡ b (mod q) => a^n ≡ b^n (mod q)")
	addLean("pow_add", "pow_add_lvc", []string{"x", "m", "n"},
		func(a []*Term) *Term {
			return Implies(And(Le(zero, a[1]), Le(zero, a[2])), Eq(powT(a[0], Add(a[1], a[2])), Mul(powT(a[0], a[1]), powT(a[0], a[2]))))
		}, "x^(m+n) = x^m * x^n")
}

func useLemma(name string, args ...*Term) *Term {
	usedLemmas[name] = true
	return lemmaLib[name].Stmt(args)
}

func init() {
	Wc := Const(W64)
	zero := ConstI(0)
	addCongRule(congRule{name: "cong_intro", params: []string{"a", "b", "k", "q"},
		side:  func(a []*Term) *Term { return Eq(a[0], Add(a[1], Mul(a[2], a[3]))) },
		concl: func(a []*Term) triple { return triple{a[0], a[1]} },
		wit:   func(a, k []*Term) *Term { return a[2] }, doc: "a = b + k*q  =>  a ≡ b (mod q)"})
	addCongRule(congRule{name: "cong_refl", params: []string{"a", "q"},
		concl: func(a []*Term) triple { return triple{a[0], a[0]} },
		wit:   func(a, k []*Term) *Term { return zero }})
	addCongRule(congRule{name: "cong_sym", params: []string{"a", "b", "q"},
		hyps:  func(a []*Term) []triple { return []triple{{a[0], a[1]}} },
		concl: func(a []*Term) triple { return triple{a[1], a[0]} },
		wit:   func(a, k []*Term) *Term { return Neg(k[0]) }})
	addCongRule(congRule{name: "cong_trans", params: []string{"a", "b", "c", "q"},
		hyps:  func(a []*Term) []triple { return []triple{{a[0], a[1]}, {a[1], a[2]}} },
		concl: func(a []*Term) triple { return triple{a[0], a[2]} },
		wit:   func(a, k []*Term) *Term { return Add(k[0], k[1]) }})
	addCongRule(congRule{name: "cong_add", params: []string{"a", "b", "c", "d", "q"},
		hyps:  func(a []*Term) []triple { return []triple{{a[0], a[1]}, {a[2], a[3]}} },
		concl: func(a []*Term) triple { return triple{Add(a[0], a[2]), Add(a[1], a[3])} },
		wit:   func(a, k []*Term) *Term { return Add(k[0], k[1]) }})
	addCongRule(congRule{name: "cong_sub", params: []string{"a", "b", "c", "d", "q"},
		hyps:  func(a []*Term) []triple { return []triple{{a[0], a[1]}, {a[2], a[3]}} },
		concl: func(a []*Term) triple { return triple{Sub(a[0], a[2]), Sub(a[1], a[3])} },
		wit:   func(a, k []*Term) *Term { return Sub(k[0], k[1]) }})
	addCongRule(congRule{name: "cong_neg", params: []string{"a", "b", "q"},
		hyps:  func(a []*Term) []triple { return []triple{{a[0], a[1]}} },
		concl: func(a []*Term) triple { return triple{Neg(a[0]), Neg(a[1])} },
		wit:   func(a, k []*Term) *Term { return Neg(k[0]) }})
	addCongRule(congRule{name: "cong_scale", params: []string{"a", "b", "s", "q"},
		hyps:  func(a []*Term) []triple { return []triple{{a[0], a[1]}} },
		concl: func(a []*Term) triple { return triple{Mul(a[0], a[2]), Mul(a[1], a[2])} },
		wit:   func(a, k []*Term) *Term { return Mul(k[0], a[2]) }})
	addCongRule(congRule{name: "cong_shift", params: []string{"a", "b", "k", "q"},
		hyps:  func(a []*Term) []triple { return []triple{{a[0], a[1]}} },
		concl: func(a []*Term) triple { return triple{Add(a[0], Mul(a[2], a[3])), a[1]} },
		wit:   func(a, k []*Term) *Term { return Add(k[0], a[2]) }})
	addCongRule(congRule{name: "cong_shift_r", params: []string{"a", "b", "k", "q"},
		hyps:  func(a []*Term) []triple { return []triple{{a[0], a[1]}} },
		concl: func(a []*Term) triple { return triple{a[0], Add(a[1], Mul(a[2], a[3]))} },
		wit:   func(a, k []*Term) *Term { return Sub(k[0], a[2]) }})
	addCongRule(congRule{name: "cong_mul", params: []string{"a", "b", "c", "d", "q"},
		hyps:  func(a []*Term) []triple { return []triple{{a[0], a[1]}, {a[2], a[3]}} },
		concl: func(a []*Term) triple { return triple{Mul(a[0], a[2]), Mul(a[1], a[3])} },
		wit: func(a, k []*Term) *Term {
			return Add(Mul(k[0], a[3]), Mul(k[1], a[1]), Mul(Mul(k[0], k[1]), a[4]))
		}})
	addCongRule(congRule{name: "cong_cancelW", params: []string{"a", "b", "c", "e", "q"},
		side:  func(a []*Term) *Term { return Eq(Mul(a[4], a[2]), Add(ConstI(1), MulC(W64, a[3]))) },
		hyps:  func(a []*Term) []triple { return []triple{{MulC(W64, a[0]), MulC(W64, a[1])}} },
		concl: func(a []*Term) triple { return triple{a[0], a[1]} },
		wit: func(a, k []*Term) *Term {
			return Sub(Mul(Sub(a[0], a[1]), a[2]), Mul(k[0], a[3]))
		}, doc: "q*c = 1 + 2^64*e,  a*2^64 ≡ b*2^64 (mod q)  =>  a ≡ b (mod q)   (2^64 is invertible modulo an odd q)"})
	addCongRule(congRule{name: "cong_eq", params: []string{"a", "b", "a2", "b2", "q"},
		side:  func(a []*Term) *Term { return And(Eq(a[0], a[2]), Eq(a[1], a[3])) },
		hyps:  func(a []*Term) []triple { return []triple{{a[0], a[1]}} },
		concl: func(a []*Term) triple { return triple{a[2], a[3]} },
		wit:   func(a, k []*Term) *Term { return k[0] }})
	// cancel a factor W = 2^64 is not available in general; Montgomery proofs keep the factor.

	addArith("mulhyp", []string{"l", "r", "f"}, func(a []*Term) *Term {
		return Implies(Eq(a[0], a[1]), Eq(Mul(a[0], a[2]), Mul(a[1], a[2])))
	}, "l = r  =>  l*f = r*f  (both sides are expanded by the polynomial normal form)")
	addArithBy("mont_cancel", []string{"m", "c", "q"}, func(a []*Term) *Term {
		m, c, q := a[0], a[1], a[2]
		pre := And(Le(zero, m), Lt(m, Wc), Le(zero, c), Le(zero, q), Eq(Mod(Mul(q, c), Wc), ConstI(1)))
		return Implies(pre, Eq(Mod(Mul(Mod(Mul(m, c), Wc), q), Wc), m))
	}, func(a []*Term) []*Term {
		m, c, q := a[0], a[1], a[2]
		mc, qc := Mul(m, c), Mul(q, c)
		return []*Term{
			useLemma("mulhyp", mc, Add(MulC(W64, Div(mc, Wc)), Mod(mc, Wc)), q),
			useLemma("mulhyp", qc, Add(MulC(W64, Div(qc, Wc)), ConstI(1)), m),
		}
	}, "q*c ≡ 1 (mod 2^64), 0<=m<2^64  =>  (((m*c) mod 2^64)*q) mod 2^64 = m")
	addArith("mono_le", []string{"a", "a2", "b"}, func(a []*Term) *Term {
		return Implies(And(Le(a[0], a[1]), Le(zero, a[2])), Le(Mul(a[0], a[2]), Mul(a[1], a[2])))
	}, "a <= a2, 0 <= b  =>  a*b <= a2*b")
	addArith("mono_lt", []string{"a", "a2", "b"}, func(a []*Term) *Term {
		return Implies(And(Lt(a[0], a[1]), Lt(zero, a[2])), Lt(Mul(a[0], a[2]), Mul(a[1], a[2])))
	}, "a < a2, 0 < b  =>  a*b < a2*b")
	addArith("mul_pos", []string{"a", "b"}, func(a []*Term) *Term {
		return Implies(And(Le(zero, a[0]), Le(zero, a[1])), Le(zero, Mul(a[0], a[1])))
	}, "0<=a, 0<=b => 0 <= a*b")
	addArith("barrett", []string{"P", "u", "q"}, func(a []*Term) *Term {
		P, u, q := a[0], a[1], a[2]
		WW := Const(new(big.Int).Mul(W64, W64))
		pre := And(Lt(zero, q), Le(zero, P), Lt(P, WW), Le(Mul(u, q), WW), Lt(WW, Mul(Add(u, ConstI(1)), q)))
		s := Div(Mul(P, u), WW)
		d := Sub(P, Mul(s, q))
		return Implies(pre, And(Le(zero, d), Lt(d, MulC(big.NewInt(2), q))))
	}, "u = floor(2^128/q), 0<=P<2^128, s = floor(P*u/2^128)  =>  0 <= P - s*q < 2q")
	addArith("barrett_w", []string{"P", "u", "q", "s", "rem"}, func(a []*Term) *Term {
		P, u, q, sq, rem := a[0], a[1], a[2], a[3], a[4]
		WW := Const(new(big.Int).Mul(W64, W64))
		pre := And(Lt(zero, q), Le(zero, P), Lt(P, WW), Le(Mul(u, q), WW), Lt(WW, Mul(Add(u, ConstI(1)), q)),
			Eq(Mul(P, u), Add(Mul(sq, WW), rem)), Le(zero, rem), Lt(rem, WW))
		d := Sub(P, Mul(sq, q))
		return Implies(pre, And(Le(zero, d), Lt(d, MulC(big.NewInt(2), q))))
	}, "u = floor(2^128/q), 0<=P<2^128, P*u = s*2^128 + rem, 0<=rem<2^128  =>  0 <= P - s*q < 2q")
	addArith("barrett1", []string{"a", "u", "q"}, func(a []*Term) *Term {
		x, u, q := a[0], a[1], a[2]
		WW := Const(new(big.Int).Mul(W64, W64))
		pre := And(Lt(zero, q), Le(zero, x), Lt(x, Wc), Le(Mul(u, q), WW), Lt(WW, Mul(Add(u, ConstI(1)), q)))
		s := Div(Mul(x, u), Wc)
		d := Sub(MulC(W64, x), Mul(s, q))
		return Implies(pre, And(Le(zero, d), Lt(d, MulC(big.NewInt(2), q))))
	}, "u = floor(2^128/q), 0<=a<2^64, s = floor(a*u/2^64)  =>  0 <= a*2^64 - s*q < 2q")
	addArith("small_multiple", []string{"k", "q", "lo", "hi"}, func(a []*Term) *Term {
		// lo <= k*q <= hi with -q < lo, hi < q and q > 0 forces k = 0
		k, q, lo, hi := a[0], a[1], a[2], a[3]
		return Implies(And(Lt(zero, q), Le(lo, Mul(k, q)), Le(Mul(k, q), hi), Lt(Neg(q), lo), Lt(hi, q)), Eq(k, zero))
	}, "a multiple of q strictly between -q and q is 0")
}

func lemmaNames() []string {
	var ns []string
	for n := range lemmaLib {
		ns = append(ns, n)
	}
	sort.Strings(ns)
	return ns
}

package main

import (
	"go/constant"
	"strconv"
	"go/parser"
	"fmt"
	"go/ast"
	"go/token"
	"go/types"
	"math/big"
	"sort"
	"strings"
)

// ---------- spec environments ----------

func (c *FuncCtx) specEnv(st *State, facts *[]*Term) *SpecEnv {
	return &SpecEnv{c: c, pkg: c.pkg.PkgPath, st: st, oldSt: c.entry,
		cur: st.lookupName, old: c.entry.lookupName, bound: map[string]Value{}, lets: c.con.Lets, facts: facts}
}

// contractView: a contract together with the environment its clauses are evaluated in.  A
// contract with `wraps callee(args)` contributes, besides its own clauses, the callee's
// clauses evaluated with the callee's parameters bound to the argument expressions.
type contractView struct {
	con *Contract
	env func(facts *[]*Term) *SpecEnv
}

func (c *FuncCtx) views(con *Contract, pkgPath string, mk func(facts *[]*Term) *SpecEnv, depth int) []contractView {
	out := []contractView{{con, mk}}
	if con.Wrap == nil {
		return out
	}
	if depth > 4 {
		panic(verr("%s: wraps chain too deep", con.File))
	}
	key := pkgPath + "." + con.Wrap.Callee
	callee, ok := c.prog.Contracts[key]
	fi, ok2 := c.prog.Funcs[key]
	if !ok || !ok2 {
		panic(verr("%s: wraps unknown function %s", con.File, con.Wrap.Callee))
	}
	sig := fi.Obj.Type().(*types.Signature)
	var names []string
	if rn := recvName(fi.Decl); rn != "" {
		names = append(names, rn)
	}
	for i := 0; i < sig.Params().Len(); i++ {
		names = append(names, sig.Params().At(i).Name())
	}
	if len(names) != len(con.Wrap.Args) {
		panic(verr("%s: wraps %s: %d arguments for %d parameters", con.File, con.Wrap.Callee, len(con.Wrap.Args), len(names)))
	}
	sub := func(facts *[]*Term) *SpecEnv {
		outer := mk(facts)
		ne := *outer
		ne.bound = map[string]Value{}
		for i, n := range names {
			ne.bound[n] = outer.Eval(con.Wrap.Args[i])
		}
		// results keep their names
		for _, rn := range []string{"result", "result0", "result1", "result2"} {
			if v, ok := outer.bound[rn]; ok {
				ne.bound[rn] = v
			}
		}
		for i := 0; i < sig.Results().Len(); i++ {
			if n := sig.Results().At(i).Name(); n != "" {
				if v, ok := outer.bound[fmt.Sprintf("result%d", i)]; ok {
					ne.bound[n] = v
				}
			}
		}
		ne.cur, ne.old = nil, nil
		ne.lets = callee.Lets
		ne.pkg = fi.Pkg.PkgPath
		return &ne
	}
	return append(out, c.views(callee, fi.Pkg.PkgPath, sub, depth+1)...)
}

func (c *FuncCtx) hasAssignsDeep(con *Contract, pkgPath string, depth int) bool {
	if con.HasAssigns {
		return true
	}
	if con.Wrap != nil && depth < 5 {
		if callee, ok := c.prog.Contracts[pkgPath+"."+con.Wrap.Callee]; ok {
			return c.hasAssignsDeep(callee, pkgPath, depth+1)
		}
	}
	return false
}

// evalHints turns `by`/`lemma` hints into facts (and proof obligations for ad-hoc lemmas).
func (c *FuncCtx) evalHints(st *State, hints []ast.Expr, se *SpecEnv, at string) []*Term {
	var out []*Term
	for _, h := range hints {
		call, ok := h.(*ast.CallExpr)
		if !ok {
			panic(verr("%s: hint must be a call: %s", at, exprString(h)))
		}
		name := exprString(call.Fun)
		var sub []*Term
		e2 := *se
		e2.facts = &sub
		if name == "lemma" {
			f := e2.Bool(call.Args[0])
			o := &Obligation{Name: c.obName("lemma", ""), Func: c.name, Kind: "lemma", Goal: f, Native: true, Ranges: c.ranges, File: at}
			c.obls = append(c.obls, o)
			out = append(out, f)
			out = append(out, sub...)
			continue
		}
		if name == "assume_fact" {
			panic(verr("%s: assume_fact is not allowed", at))
		}
		lm, ok := lemmaLib[name]
		if !ok {
			panic(verr("%s: unknown lemma %s", at, name))
		}
		if len(call.Args) != lm.NParams {
			panic(verr("%s: lemma %s expects %d arguments", at, name, lm.NParams))
		}
		args := make([]*Term, len(call.Args))
		for i, a := range call.Args {
			args[i] = e2.Int(a)
		}
		usedLemmas[name] = true
		out = append(out, lm.Stmt(args))
		out = append(out, sub...)
	}
	return out
}

// ---------- loops ----------

type assignedSet struct {
	objs  map[types.Object]bool
	heaps map[string]bool
	calls bool
}

func (c *FuncCtx) assignedIn(nodes ...ast.Node) *assignedSet {
	as := &assignedSet{objs: map[types.Object]bool{}, heaps: map[string]bool{}}
	var lhs func(e ast.Expr)
	lhs = func(e ast.Expr) {
		switch x := e.(type) {
		case *ast.ParenExpr:
			lhs(x.X)
		case *ast.Ident:
			if o := c.info.Uses[x]; o != nil {
				as.objs[o] = true
			}
			if o := c.info.Defs[x]; o != nil {
				as.objs[o] = true
			}
		case *ast.IndexExpr:
			bt := c.info.TypeOf(x.X)
			if bt != nil {
				switch u := bt.Underlying().(type) {
				case *types.Slice:
					as.heaps[heapName(u.Elem())] = true
				case *types.Pointer:
					if a, ok := u.Elem().Underlying().(*types.Array); ok {
						as.heaps[heapName(a.Elem())] = true
					}
				case *types.Array:
					lhs(x.X)
				}
			}
		}
	}
	for _, n := range nodes {
		if n == nil {
			continue
		}
		ast.Inspect(n, func(m ast.Node) bool {
			switch x := m.(type) {
			case *ast.AssignStmt:
				for _, l := range x.Lhs {
					lhs(l)
				}
			case *ast.IncDecStmt:
				lhs(x.X)
			case *ast.RangeStmt:
				if x.Key != nil {
					lhs(x.Key)
				}
				if x.Value != nil {
					lhs(x.Value)
				}
			case *ast.CallExpr:
				if tv, ok := c.info.Types[x.Fun]; ok && tv.IsType() {
					return true
				}
				var obj types.Object
				switch f := x.Fun.(type) {
				case *ast.Ident:
					obj = c.info.Uses[f]
				case *ast.SelectorExpr:
					obj = c.info.Uses[f.Sel]
				}
				if fn, ok := obj.(*types.Func); ok {
					key := funcObjKey(fn)
					if fi, ok := c.prog.Funcs[key]; ok && isPureScalar(fi) {
						return true
					}
					if fn.Pkg() != nil && fn.Pkg().Path() == "math/bits" {
						return true
					}
					if fn.Pkg() != nil && (fn.Pkg().Path() == "fmt" && (fn.Name() == "Errorf" || fn.Name() == "Sprintf") || fn.Pkg().Path() == "errors" && fn.Name() == "New") {
						return true
					}
					if con, ok := c.prog.Contracts[key]; ok && c.hasAssignsDeep(con, fn.Pkg().Path(), 0) {
						// the callee writes only slices it names: havoc the heaps of its slice parameters
						sig := fn.Type().(*types.Signature)
						for i := 0; i < sig.Params().Len(); i++ {
							if sl, ok := sig.Params().At(i).Type().Underlying().(*types.Slice); ok {
								as.heaps[heapName(sl.Elem())] = true
							}
						}
						return true
					}
					as.calls = true
				}
			}
			return true
		})
	}
	return as
}

func (c *FuncCtx) havoc(st *State, as *assignedSet, tag string) {
	var objs []types.Object
	for o := range as.objs {
		if _, ok := st.vars[o]; ok {
			objs = append(objs, o)
		}
	}
	sort.Slice(objs, func(i, j int) bool { return objs[i].Pos() < objs[j].Pos() })
	for _, o := range objs {
		st.vars[o] = c.symValue(st, c.freshName(o.Name()), o.Type())
	}
	hs := map[string]bool{}
	for h := range as.heaps {
		hs[h] = true
	}
	if as.calls {
		for h := range st.heaps {
			hs[h] = true
		}
		hs["H.uint64"] = true
		c.havocGhosts(st, nil)
		c.bumpRefTop(st)
	}
	var hn []string
	for h := range hs {
		hn = append(hn, h)
	}
	sort.Strings(hn)
	for _, h := range hn {
		c.heap(st, h)
		st.heaps[h] = Var(c.freshName(h), SArr)
	}
}

func (c *FuncCtx) loopSpec(n ast.Stmt) (*LoopSpec, int) {
	ord := c.loopOrd[n]
	ls := c.con.Loops[ord]
	if ls == nil {
		panic(verr("loop %d at %s has no invariant in the contract", ord, c.prog.pos(n)))
	}
	return ls, ord
}

// checkInvariants emits the obligations for the invariant clauses in state st.
// head, when non-nil, is the loop-head snapshot used to split  forall k in lo..hi  goals
// whose upper bound advanced by a small constant into an "old range" goal and ground lanes.
// optionalSkipped: an `invariant?` clause that mentions an identifier unknown in this state.
func (c *FuncCtx) optionalSkipped(st *State, inv *Clause) (skip bool) {
	if !inv.Optional {
		return false
	}
	defer func() {
		if r := recover(); r != nil {
			if ve, ok := r.(verifError); ok && strings.Contains(ve.msg, "unknown identifier") {
				skip = true
				return
			}
			panic(r)
		}
	}()
	var facts []*Term
	c.specEnv(st, &facts).Bool(inv.Expr)
	return false
}

func (c *FuncCtx) checkInvariants(st *State, ls *LoopSpec, ord int, kind string, head *State, at ast.Node, hintFacts []*Term) {
	for i, inv := range ls.Inv {
		if c.optionalSkipped(st, inv) {
			continue
		}
		var facts []*Term
		se := c.specEnv(st, &facts)
		detail := fmt.Sprintf("loop%d.%d", ord, i)
		var by []*Term
		if len(inv.By) > 0 {
			by = c.evalHints(st, inv.By, se, inv.Line)
		}
		extra := append(append([]*Term(nil), hintFacts...), by...)
		if head != nil {
			if call, ok := stripParens(inv.Expr).(*ast.CallExpr); ok && exprString(call.Fun) == "forall" && len(call.Args) == 4 {
				if c.splitForall(st, head, call, kind, detail, at, extra) {
					continue
				}
			}
		}
		g := se.Bool(inv.Expr)
		c.oblige(st, kind, detail, g, at, append(facts, extra...)...)
	}
}

func (c *FuncCtx) splitForall(st, head *State, call *ast.CallExpr, kind, detail string, at ast.Node, extra []*Term) bool {
	kid, ok := call.Args[0].(*ast.Ident)
	if !ok {
		return false
	}
	var f1, f2 []*Term
	seEnd := c.specEnv(st, &f1)
	seHead := c.specEnv(head, &f2)
	loE, hiE := seEnd.Int(call.Args[1]), seEnd.Int(call.Args[2])
	loH, hiH := seHead.Int(call.Args[1]), seHead.Int(call.Args[2])
	if loE.Key() != loH.Key() {
		return false
	}
	d := Sub(hiE, hiH)
	if !d.IsConst() || d.Val.Sign() <= 0 || d.Val.Cmp(big.NewInt(16)) > 0 {
		return false
	}
	// conjunctions inside the body are split as well
	bodies := splitConj(call.Args[3])
	for bi, body := range bodies {
		bd := detail
		if len(bodies) > 1 {
			bd = fmt.Sprintf("%s.c%d", detail, bi)
		}
		var facts []*Term
		se := c.specEnv(st, &facts)
		old := se.quantTerm("forall", kid.Name, loE, hiH, body)
		c.oblige(st, kind, bd+".prefix", old, at, append(facts, extra...)...)
		for i := int64(0); i < d.Val.Int64(); i++ {
			var lf []*Term
			le := c.specEnv(st, &lf)
			le.bound[kid.Name] = IntV{Add(hiH, ConstI(i))}
			g := le.Bool(body)
			// the lane index must itself be inside [lo, hi)
			g = Implies(Le(loE, Add(hiH, ConstI(i))), g)
			c.oblige(st, kind, fmt.Sprintf("%s.lane%d", bd, i), g, at, append(lf, extra...)...)
		}
	}
	return true
}

func splitConj(e ast.Expr) []ast.Expr {
	e = stripParens(e)
	if be, ok := e.(*ast.BinaryExpr); ok && be.Op == token.LAND {
		return append(splitConj(be.X), splitConj(be.Y)...)
	}
	return []ast.Expr{e}
}

func (c *FuncCtx) assumeInvariants(st *State, ls *LoopSpec) {
	for _, inv := range ls.Inv {
		if c.optionalSkipped(st, inv) {
			continue
		}
		var facts []*Term
		se := c.specEnv(st, &facts)
		g := se.Bool(inv.Expr)
		for _, f := range facts {
			st.assume(f)
		}
		st.assume(g)
	}
}

// rowLoopAsRange: a counting loop `for i := 0; i < E; i++ { BODY }` under a rowloop contract is the range loop
// `for i := range E { BODY }` (the form the row-loop rule is written for), provided BODY assigns neither i nor
// anything E reads: the bound is then the same at every test.  Which of the two forms the code uses is a matter
// of style (a refactoring from one to the other must not raise an alarm).
func (c *FuncCtx) rowLoopAsRange(n *ast.ForStmt) *ast.RangeStmt {
	init, ok := n.Init.(*ast.AssignStmt)
	if !ok || init.Tok != token.DEFINE || len(init.Lhs) != 1 || len(init.Rhs) != 1 {
		return nil
	}
	iv, ok := init.Lhs[0].(*ast.Ident)
	if !ok {
		return nil
	}
	if lit, ok := init.Rhs[0].(*ast.BasicLit); !ok || lit.Value != "0" {
		return nil
	}
	cond, ok := n.Cond.(*ast.BinaryExpr)
	if !ok || cond.Op != token.LSS {
		return nil
	}
	if x, ok := cond.X.(*ast.Ident); !ok || x.Name != iv.Name {
		return nil
	}
	post, ok := n.Post.(*ast.IncDecStmt)
	if !ok || post.Tok != token.INC {
		return nil
	}
	if x, ok := post.X.(*ast.Ident); !ok || x.Name != iv.Name {
		return nil
	}
	// the body assigns neither the counter nor a variable of the bound
	boundVars := map[string]bool{iv.Name: true}
	ast.Inspect(cond.Y, func(m ast.Node) bool {
		if id, ok := m.(*ast.Ident); ok {
			boundVars[id.Name] = true
		}
		return true
	})
	clean := true
	ast.Inspect(n.Body, func(m ast.Node) bool {
		switch x := m.(type) {
		case *ast.AssignStmt:
			for _, l := range x.Lhs {
				if id, ok := l.(*ast.Ident); ok && boundVars[id.Name] && x.Tok != token.DEFINE {
					clean = false
				}
			}
		case *ast.IncDecStmt:
			if id, ok := x.X.(*ast.Ident); ok && boundVars[id.Name] {
				clean = false
			}
		case *ast.UnaryExpr:
			if x.Op == token.AND {
				if id, ok := x.X.(*ast.Ident); ok && boundVars[id.Name] {
					clean = false
				}
			}
		}
		return clean
	})
	if !clean {
		return nil
	}
	return &ast.RangeStmt{For: n.For, Key: iv, Tok: token.DEFINE, TokPos: init.TokPos, X: cond.Y, Body: n.Body}
}

func (c *FuncCtx) execFor(fr *frame, n *ast.ForStmt, st *State, k func(*State)) {
	if rl, ok := c.con.RowLoops[c.loopOrd[n]]; ok {
		if rs := c.rowLoopAsRange(n); rs != nil {
			c.execRowLoop(fr, rs, rl, c.loopOrd[n], st, k)
			return
		}
	}
	ls, ord := c.loopSpec(n)
	depth := len(st.scope)
	exit := func(s *State) {
		if len(s.scope) > depth {
			s.scope = s.scope[:depth]
		}
		k(s)
	}
	start := func(s0 *State) {
		var hf0 []*Term
		if len(ls.Lemmas) > 0 {
			// the loop's lemma hints are also available when the invariant is established
			// (prev(e) is then the value on entry to the loop)
			var facts []*Term
			env := c.specEnv(s0, &facts)
			env.prevSt = s0
			hf0 = append(c.evalHints(s0, ls.Lemmas, env, c.con.File), facts...)
		}
		c.checkInvariants(s0, ls, ord, "inv-init", nil, n, hf0)
		head := s0.clone()
		as := c.assignedIn(n.Body, n.Post)
		c.havoc(head, as, fmt.Sprintf("loop%d", ord))
		// loop <n> assigns <slices>: the iterations write only there.  Assumed at the head (relative
		// to the state before the loop), owed by every iteration (loop-frame obligation below).
		var loopRegions []region
		if len(ls.Assigns) > 0 {
			var rfacts []*Term
			loopRegions = c.regions(c.specEnv(s0, &rfacts), ls.Assigns)
			for _, f := range rfacts {
				head.assume(f)
			}
			for _, h := range sortedHeapNames(head.heaps) {
				before, ok := s0.heaps[h]
				if !ok || before.Key() == head.heaps[h].Key() {
					continue
				}
				p := Var(c.freshName("p"), SInt)
				head.assume(Forall([]*Term{p}, []*Term{Select(head.heaps[h], p)}, Implies(outsideAll(p, loopRegions, h), Eq(Select(head.heaps[h], p), Select(before, p)))))
			}
		}
		c.assumeInvariants(head, ls)
		headSnap := head.clone()
		// iteration
		sb := head.clone()
		cond := TTrue
		if n.Cond != nil {
			cond = asBool(c.eval(sb, n.Cond))
		}
		var decr0 *Term
		if ls.Decreases != nil {
			decr0 = c.specEnv(sb, nil).Int(ls.Decreases.Expr)
		}
		sb.assume(cond)
		bodyDepth := len(sb.scope)
		endIter := func(se *State) {
			if len(se.scope) > bodyDepth {
				se.scope = se.scope[:bodyDepth]
			}
			fin := func(s3 *State) {
				var hf []*Term
				if len(ls.Lemmas) > 0 {
					var facts []*Term
					env := c.specEnv(s3, &facts)
					env.prevSt = headSnap
					hf = append(c.evalHints(s3, ls.Lemmas, env, c.con.File), facts...)
				}
				c.checkInvariants(s3, ls, ord, "inv-pres", headSnap, n, hf)
				if len(ls.Assigns) > 0 {
					for _, h := range sortedHeapNames(s3.heaps) {
						hh, ok := headSnap.heaps[h]
						if !ok || hh.Key() == s3.heaps[h].Key() {
							continue
						}
						p := Var(c.freshName("p"), SInt)
						c.oblige(s3, "loop-frame", fmt.Sprintf("loop%d.%s", ord, h), Implies(outsideAll(p, loopRegions, h), Eq(Select(s3.heaps[h], p), Select(hh, p))), n)
					}
				}
				if decr0 != nil {
					d1 := c.specEnv(s3, nil).Int(ls.Decreases.Expr)
					c.oblige(s3, "decreases", fmt.Sprintf("loop%d", ord), And(Le(ConstI(0), decr0), Lt(d1, decr0)), n)
				}
			}
			if n.Post != nil {
				c.execStmt(fr, n.Post, se, fin)
			} else {
				fin(se)
			}
		}
		if !cond.IsFalse() {
			nfr := *fr
			nfr.cont = endIter
			nfr.brk = exit
			c.execBlock(&nfr, n.Body.List, sb, endIter)
		}
		// exit
		sx := head.clone()
		condx := TTrue
		if n.Cond != nil {
			condx = asBool(c.eval(sx, n.Cond))
		}
		if !condx.IsTrue() {
			sx.assume(Not(condx))
			// loop <n> post: consequences of invariant and exit condition, stated once in the exit state
			for pi, po := range ls.Post {
				var facts []*Term
				se := c.specEnv(sx, &facts)
				var by []*Term
				if len(po.By) > 0 {
					by = c.evalHints(sx, po.By, se, po.Line)
				}
				g := se.Bool(po.Expr)
				c.oblige(sx, "loop-post", fmt.Sprintf("loop%d.%d", ord, pi), g, n, append(facts, by...)...).File = po.Line
				for _, f := range facts {
					sx.assume(f)
				}
				sx.assume(g)
			}
			exit(sx)
		}
	}
	if n.Init != nil {
		c.execStmt(fr, n.Init, st, start)
	} else {
		start(st)
	}
}

// execRange supports: for i := range <int>, for i[, v] := range <slice of integers>.
func (c *FuncCtx) execRange(fr *frame, n *ast.RangeStmt, st *State, k func(*State)) {
	if rl, ok := c.con.RowLoops[c.loopOrd[n]]; ok {
		c.execRowLoop(fr, n, rl, c.loopOrd[n], st, k)
		return
	}
	ls, ord := c.loopSpec(n)
	depth := len(st.scope)
	exit := func(s *State) {
		if len(s.scope) > depth {
			s.scope = s.scope[:depth]
		}
		k(s)
	}
	xv := c.eval(st, n.X)
	var length *Term
	var sl *SliceV
	switch x := xv.(type) {
	case IntV:
		length = x.T
	case SliceV:
		length = x.Len
		sl = &x
	case ArrV:
		length = ConstI(int64(len(x.Elems)))
	default:
		panic(verr("unsupported range over %T at %s", xv, c.prog.pos(n)))
	}
	// the hidden counter is exposed to invariants through the key variable
	var keyObj types.Object
	if id, ok := n.Key.(*ast.Ident); ok && id.Name != "_" {
		keyObj = c.info.Defs[id]
		if keyObj == nil {
			keyObj = c.info.Uses[id]
		}
	}
	if keyObj == nil {
		// `for _, v := range s`: the hidden counter gets a synthetic variable (invariants cannot
		// name it; they may speak about the whole of s)
		keyObj = types.NewVar(n.Pos(), c.pkg.Types, fmt.Sprintf("range!%d", c.loopOrd[n]), types.Typ[types.Int])
	}
	st.declare(keyObj, IntV{ConstI(0)})
	setVal := func(s *State) {
		if n.Value == nil {
			return
		}
		id, ok := n.Value.(*ast.Ident)
		if !ok || id.Name == "_" {
			return
		}
		obj := c.info.Defs[id]
		if obj == nil {
			obj = c.info.Uses[id]
		}
		i := asInt(s.vars[keyObj])
		var v Value
		switch x := xv.(type) {
		case SliceV:
			if _, isSl := x.Elem.Underlying().(*types.Slice); isSl {
				r := rowOf(x, i)
				c.sliceFacts(s, r)
				v = r
			} else if _, isInt := intKindOf(x.Elem); isInt || isBoolType(x.Elem) {
				v = c.readCell(s, x.Elem, Add(x.Addr, i))
			} else {
				v = c.elemOf(s, x, i)
			}
		case ArrV:
			v = c.evalArrIndex(s, x, i)
		}
		if _, have := s.vars[obj]; have {
			s.vars[obj] = v
		} else {
			s.declare(obj, v)
		}
	}
	_ = sl
	c.checkInvariants(st, ls, ord, "inv-init", nil, n, nil)
	head := st.clone()
	as := c.assignedIn(n.Body)
	as.objs[keyObj] = true
	c.havoc(head, as, fmt.Sprintf("loop%d", ord))
	c.assumeInvariants(head, ls)
	headSnap := head.clone()
	sb := head.clone()
	i := asInt(sb.vars[keyObj])
	sb.assume(And(Le(ConstI(0), i), Lt(i, length)))
	setVal(sb)
	bodyDepth := len(sb.scope)
	endIter := func(se *State) {
		if len(se.scope) > bodyDepth {
			se.scope = se.scope[:bodyDepth]
		}
		// the key variable may have been reassigned in the body; Go uses its hidden counter
		se.vars[keyObj] = IntV{Add(i, ConstI(1))}
		var hf []*Term
		if len(ls.Lemmas) > 0 {
			var facts []*Term
			env := c.specEnv(se, &facts)
			hf = append(c.evalHints(se, ls.Lemmas, env, c.con.File), facts...)
		}
		c.checkInvariants(se, ls, ord, "inv-pres", headSnap, n, hf)
	}
	nfr := *fr
	nfr.cont = endIter
	nfr.brk = exit
	c.execBlock(&nfr, n.Body.List, sb, endIter)
	sx := head.clone()
	ix := asInt(sx.vars[keyObj])
	sx.assume(And(Le(ConstI(0), ix), Ge(ix, length)))
	exit(sx)
}

func (c *FuncCtx) evalArrIndex(st *State, a ArrV, i *Term) Value {
	if i.IsConst() {
		return a.Elems[i.Val.Int64()]
	}
	var r *Term
	for k := len(a.Elems) - 1; k >= 0; k-- {
		ek := asInt(a.Elems[k])
		if r == nil {
			r = ek
		} else {
			r = Ite(Eq(i, ConstI(int64(k))), ek, r)
		}
	}
	return IntV{r}
}

// elemOf: element i of a slice of pointers-to-struct / structs: a symbolic object named after
// the slice and the index term (immutable view).
func (c *FuncCtx) elemOf(st *State, s SliceV, i *Term) Value {
	if rt, ok := extRefType(s.Elem); ok {
		// a slice of pointers to external objects holds their identities
		return RefV{ID: Select(c.heap(st, heapName(s.Elem)), Add(s.Addr, i)), T: rt}
	}
	et := s.Elem
	if p, ok := et.Underlying().(*types.Pointer); ok {
		et = p.Elem()
	}
	if _, ok := et.Underlying().(*types.Struct); ok {
		return &StructV{T: et, Prefix: "elem." + types.TypeString(et, func(p *types.Package) string { return p.Name() }), F: map[string]Value{}, Key: []*Term{s.Addr, i}}
	}
	if at, ok := et.Underlying().(*types.Array); ok {
		if _, isInt := intKindOf(at.Elem()); isInt {
			// a slice of fixed-size integer arrays is laid out flat: element i starts at Addr + N*i
			// (the slice header still counts arrays, so the extent known to the frame reasoning is an
			// under-approximation: such slices are only read in the functions under contract)
			return WinV{Addr: Add(s.Addr, MulC(big.NewInt(at.Len()), i)), N: int(at.Len()), Elem: at.Elem()}
		}
	}
	panic(verr("unsupported slice element type %s", s.Elem))
}

// ---------- calls ----------

func (c *FuncCtx) calleeOf(n *ast.CallExpr) (types.Object, ast.Expr) {
	switch f := n.Fun.(type) {
	case *ast.Ident:
		return c.info.Uses[f], nil
	case *ast.SelectorExpr:
		obj := c.info.Uses[f.Sel]
		if sel, ok := c.info.Selections[f]; ok && (sel.Kind() == types.MethodVal) {
			return obj, f.X
		}
		return obj, nil
	case *ast.ParenExpr:
		return nil, nil
	}
	return nil, nil
}

func (c *FuncCtx) evalCall(st *State, n *ast.CallExpr) []Value {
	// conversions and the unsafe window idiom
	if tv, ok := c.info.Types[n.Fun]; ok && tv.IsType() {
		return []Value{c.evalConversion(st, n, tv.Type)}
	}
	obj, recvExpr := c.calleeOf(n)
	switch o := obj.(type) {
	case *types.Builtin:
		return c.evalBuiltin(st, n, o.Name())
	case *types.Func:
		if o.Pkg() != nil && o.Pkg().Path() == "math/bits" {
			return c.evalBits(st, n, o.Name())
		}
		if o.Pkg() != nil && (o.Pkg().Path() == "fmt" && o.Name() == "Errorf" || o.Pkg().Path() == "errors" && o.Name() == "New") {
			// the text of the error is dropped; only non-nil-ness is modelled
			return []Value{ErrV{TFalse}}
		}
		key := funcObjKey(o)
		con, ok := c.prog.Contracts[key]
		fi, ok2 := c.prog.Funcs[key]
		if !ok && recvExpr != nil {
			// a method of an interface: the contract is on the interface type of the receiver
			// (`func PRNG.Read` in the package that declares PRNG)
			if named, isN := c.typeOf(recvExpr).(*types.Named); isN && named.Obj().Pkg() != nil {
				if _, isI := named.Underlying().(*types.Interface); isI {
					ik := named.Obj().Pkg().Path() + "." + named.Obj().Name() + "." + o.Name()
					if icon, okI := c.prog.Contracts[ik]; okI {
						if !icon.Trusted {
							panic(verr("contract for the interface method %s must be marked trusted", ik))
						}
						con, ok, key = icon, true, ik
						ipkg := c.pkg
						if dp, okP := c.prog.Pkgs[named.Obj().Pkg().Path()]; okP {
							ipkg = dp // the contract's own spec functions are those of the declaring package
						}
						fi, ok2 = &FuncInfo{Key: ik, Pkg: ipkg, Obj: o}, true
					}
				}
			}
		}
		if !ok || !ok2 {
			// a function or interface method outside the module under an assumed contract
			// (`func ext:io.Reader.Read`): keyed by its full name
			ek := strings.Replace(strings.TrimPrefix(o.FullName(), "("), ").", ".", 1)
			ek = strings.TrimPrefix(ek, "*")
			if econ, okE := c.prog.Contracts[ek]; okE {
				if !econ.Trusted {
					panic(verr("contract for the external function %s must be marked trusted", ek))
				}
				con, ok, key = econ, true, ek
				fi, ok2 = &FuncInfo{Key: ek, Pkg: c.pkg, Obj: o}, true
			}
		}
		if !ok && ok2 && fi.Decl != nil && fi.Decl.Body != nil && fi.Pkg == c.pkg {
			// a helper of the same package without a contract: its body is executed in place
			// (straight-line helpers only: one return path, no loop)
			var recv Value
			if recvExpr != nil {
				recv = c.eval(st, recvExpr)
			}
			args := make([]Value, len(n.Args))
			for i, a := range n.Args {
				args[i] = c.eval(st, a)
			}
			return c.inlineCall(st, fi, recv, args, n)
		}
		if !ok || !ok2 {
			panic(verr("call to %s which has no contract, at %s", key, c.prog.pos(n)))
		}
		var recv Value
		if recvExpr != nil {
			if _, isRef := extRefType(c.typeOf(recvExpr)); isRef && fi.Decl == nil {
				recv = c.eval(st, recvExpr)
			} else if fi.Decl == nil {
				// external receiver (an interface value, a package-level variable): opaque
				recv = OpaqueV{Desc: exprString(recvExpr), T: c.typeOf(recvExpr)}
			} else {
				recv = c.eval(st, recvExpr)
			}
		}
		args := make([]Value, len(n.Args))
		for i, a := range n.Args {
			args[i] = c.eval(st, a)
		}
		return c.callContract(st, con, fi, recv, args, n)
	case *types.Var:
		// a call through a function-typed parameter: the result is unknown (of its type), the
		// arguments owe the `fnparam` clauses of the contract
		if sig, ok := o.Type().Underlying().(*types.Signature); ok && sig.Results().Len() == 1 {
			args := make([]Value, len(n.Args))
			for i, a := range n.Args {
				args[i] = c.eval(st, a)
			}
			bind := map[string]Value{}
			for i := 0; i < sig.Params().Len() && i < len(args); i++ {
				bind[sig.Params().At(i).Name()] = args[i]
			}
			site := c.fnCallSite(o, n)
			for i, raw := range c.con.Raw["fnparam"] {
				// fnparam <name>[#<k>] requires <expr over the parameter names of the function type>
				// (#k: only the k-th call of that parameter in source order)
				f := strings.Fields(raw)
				if len(f) < 3 || f[1] != "requires" {
					continue
				}
				nm, only := f[0], -1
				if j := strings.Index(nm, "#"); j >= 0 {
					k, err := strconv.Atoi(nm[j+1:])
					if err != nil {
						panic(verr("%s: bad fnparam clause %q", c.con.File, raw))
					}
					nm, only = nm[:j], k
				}
				if nm != o.Name() || (only >= 0 && only != site) {
					continue
				}
				x, err := parser.ParseExpr(strings.TrimSpace(strings.SplitN(raw, "requires", 2)[1]))
				if err != nil {
					panic(verr("%s: bad fnparam clause %q", c.con.File, raw))
				}
				var facts []*Term
				se := c.specEnv(st, &facts)
				nb := map[string]Value{}
				for k, v := range se.bound {
					nb[k] = v
				}
				for k, v := range bind {
					nb[k] = v
				}
				se.bound = nb
				c.oblige(st, "fnparam", fmt.Sprintf("%s.%d", o.Name(), i), se.Bool(x), n, facts...)
			}
			rt := sig.Results().At(0).Type()
			return []Value{c.symValue(st, c.freshName("call."+o.Name()), rt)}
		}
	}
	panic(verr("unsupported call %s at %s", exprString(n.Fun), c.prog.pos(n)))
}

func (c *FuncCtx) evalConversion(st *State, n *ast.CallExpr, to types.Type) Value {
	// (*[N]T)(unsafe.Pointer(&p[j]))
	if pt, ok := to.Underlying().(*types.Pointer); ok {
		if at, ok := pt.Elem().Underlying().(*types.Array); ok {
			inner, ok := stripParens(n.Args[0]).(*ast.CallExpr)
			if ok && exprString(inner.Fun) == "unsafe.Pointer" {
				if ue, ok := stripParens(inner.Args[0]).(*ast.UnaryExpr); ok && ue.Op == token.AND {
					if ix, ok := stripParens(ue.X).(*ast.IndexExpr); ok {
						base := c.eval(st, ix.X)
						if s, ok := base.(SliceV); ok && types.Identical(s.Elem, at.Elem()) {
							j := c.evalInt(st, ix.Index)
							c.boundsCheck(st, j, s.Len, ix, "")
							// Go performs no check that the N-element window fits: memory-safety obligation
							c.oblige(st, "window", "", Le(Add(j, ConstI(at.Len())), s.Len), n)
							return WinV{Addr: Add(s.Addr, j), N: int(at.Len()), Elem: at.Elem()}
						}
					}
				}
			}
		}
		panic(verr("unsupported pointer conversion at %s", c.prog.pos(n)))
	}
	v := c.eval(st, n.Args[0])
	from := c.typeOf(n.Args[0])
	if isBoolType(to) {
		return v
	}
	kt, ok := intKindOf(to)
	if !ok {
		panic(verr("unsupported conversion to %s at %s", to, c.prog.pos(n)))
	}
	if isFloatType(from) {
		// one exact pattern: T(math.Ceil(float64(e) / 2^k)) for an integer e with 0 <= e < 2^53: both the
		// conversion and the division by a power of two are exact in float64, so the value is ceil(e / 2^k)
		if e, d, ok := c.ceilDivPattern(n.Args[0]); ok {
			x := c.evalInt(st, e)
			c.oblige(st, "fceil", "range", And(Le(ConstI(0), x), Lt(x, Const(pow2(53)))), n)
			return IntV{c.named(st, "fceil", Div(Add(x, ConstI(d-1)), ConstI(d)), to)}
		}
		// float to integer: not modelled, any value of the target type
		return IntV{c.freshInt(st, c.freshName("fconv"), to)}
	}
	if _, ok := intKindOf(from); !ok {
		panic(verr("unsupported conversion from %s at %s", from, c.prog.pos(n)))
	}
	x := asInt(v)
	if kt.bits == 0 {
		return IntV{x}
	}
	// two's complement re-interpretation, exact
	M := Const(pow2(kt.bits))
	lo, hi := kt.rng()
	if x.IsConst() {
		r := new(big.Int).Mod(x.Val, M.Val)
		if kt.signed && r.Cmp(hi) > 0 {
			r.Sub(r, M.Val)
		}
		return IntV{Const(r)}
	}
	if r, ok := (&Obligation{Ranges: c.ranges}).rangeOf(x); ok && r[0].Cmp(lo) >= 0 && r[1].Cmp(hi) <= 0 {
		return IntV{x}
	}
	m := Mod(x, M)
	if kt.signed {
		m = Ite(Le(m, Const(hi)), m, Sub(m, M))
	}
	return IntV{c.named(st, "conv", m, to)}
}

func (c *FuncCtx) evalBuiltin(st *State, n *ast.CallExpr, name string) []Value {
	switch name {
	case "len", "cap":
		v := c.eval(st, n.Args[0])
		switch x := v.(type) {
		case SliceV:
			if name == "len" {
				return []Value{IntV{x.Len}}
			}
			return []Value{IntV{x.Cap}}
		case ArrV:
			return []Value{IntV{ConstI(int64(len(x.Elems)))}}
		case WinV:
			return []Value{IntV{ConstI(int64(x.N))}}
		}
		panic(verr("len/cap of %T at %s", v, c.prog.pos(n)))
	case "min", "max":
		r := c.evalInt(st, n.Args[0])
		for _, a := range n.Args[1:] {
			b := c.evalInt(st, a)
			if name == "min" {
				r = Ite(Le(r, b), r, b)
			} else {
				r = Ite(Le(r, b), b, r)
			}
		}
		return []Value{IntV{c.named(st, name, r, c.typeOf(n))}}
	case "copy":
		dst, ok1 := c.eval(st, n.Args[0]).(SliceV)
		src, ok2 := c.eval(st, n.Args[1]).(SliceV)
		if !ok1 || !ok2 {
			panic(verr("unsupported copy at %s", c.prog.pos(n)))
		}
		cnt := c.named(st, "copyn", Ite(Le(dst.Len, src.Len), dst.Len, src.Len), types.Typ[types.Int])
		hn := heapName(dst.Elem)
		h := c.heap(st, hn)
		nh := Var(c.freshName(hn), SArr)
		p := Var(c.freshName("p"), SInt)
		in := And(Le(dst.Addr, p), Lt(p, Add(dst.Addr, cnt)))
		// memmove semantics: the new contents are the old source contents
		st.assume(Forall([]*Term{p}, []*Term{Select(nh, p)},
			Eq(Select(nh, p), Ite(in, Select(h, Add(Sub(p, dst.Addr), src.Addr)), Select(h, p)))))
		st.heaps[hn] = nh
		return []Value{IntV{cnt}}
	case "append":
		// x = append(x, v) on a slice of integers that this call allocated itself (literal, make or an
		// earlier append): modelled as a reallocation, the old elements followed by the new one.  The
		// in-place case of Go differs only for other slices sharing the backing array, which do not
		// exist for storage that never left the function (checked: the operand's storage is fresh).
		if len(n.Args) == 2 && n.Ellipsis.IsValid() {
			// append(a, b...) on two slices of integers, a allocated by this call (or empty): modelled as a
			// reallocation holding the elements of a, then those of b
			a, ok1 := c.eval(st, n.Args[0]).(SliceV)
			b, ok2 := c.eval(st, n.Args[1]).(SliceV)
			if !ok1 || !ok2 {
				panic(verr("unsupported append form at %s", c.prog.pos(n)))
			}
			if _, isInt := intKindOf(a.Elem); !isInt {
				panic(verr("append to a slice of %s at %s", a.Elem, c.prog.pos(n)))
			}
			c.oblige(st, "append", "fresh", Or(Le(brk0, a.Addr), Eq(a.Cap, ConstI(0))), n)
			tot := Add(a.Len, b.Len)
			ns := c.freshSlice(st, a.Elem, tot, tot)
			hn := heapName(a.Elem)
			h := c.heap(st, hn)
			nh := Var(c.freshName(hn), SArr)
			p := Var(c.freshName("p"), SInt)
			inA := And(Le(ns.Addr, p), Lt(p, Add(ns.Addr, a.Len)))
			inB := And(Le(Add(ns.Addr, a.Len), p), Lt(p, Add(ns.Addr, tot)))
			st.assume(Forall([]*Term{p}, []*Term{Select(nh, p)},
				Eq(Select(nh, p), Ite(inA, Select(h, Add(Sub(p, ns.Addr), a.Addr)),
					Ite(inB, Select(h, Add(Sub(Sub(p, ns.Addr), a.Len), b.Addr)), Select(h, p))))))
			st.heaps[hn] = nh
			return []Value{ns}
		}
		if len(n.Args) != 2 || n.Ellipsis.IsValid() {
			panic(verr("unsupported append form at %s", c.prog.pos(n)))
		}
		base, ok := c.eval(st, n.Args[0]).(SliceV)
		if !ok || entryDerived(base.Addr) {
			panic(verr("append to a slice that was not allocated by this call, at %s", c.prog.pos(n)))
		}
		if _, isInt := intKindOf(base.Elem); !isInt {
			panic(verr("append to a slice of %s at %s", base.Elem, c.prog.pos(n)))
		}
		c.oblige(st, "append", "fresh", Or(Le(brk0, base.Addr), Eq(base.Cap, ConstI(0))), n)
		v := c.evalInt(st, n.Args[1])
		ns := c.freshSlice(st, base.Elem, Add(base.Len, ConstI(1)), Add(base.Len, ConstI(1)))
		hn := heapName(base.Elem)
		h := c.heap(st, hn)
		nh := Var(c.freshName(hn), SArr)
		p := Var(c.freshName("p"), SInt)
		in := And(Le(ns.Addr, p), Lt(p, Add(ns.Addr, base.Len)))
		st.assume(Forall([]*Term{p}, []*Term{Select(nh, p)},
			Eq(Select(nh, p), Ite(in, Select(h, Add(Sub(p, ns.Addr), base.Addr)), Select(h, p)))))
		st.heaps[hn] = Store(nh, Add(ns.Addr, base.Len), v)
		return []Value{ns}
	case "new":
		if et, ok := extRefType(c.typeOf(n)); ok {
			r := c.allocRef(st, et, "new")
			c.setRefVal(st, r, ConstI(0))
			return []Value{r}
		}
		panic(verr("unsupported new(%s) at %s", exprString(n.Args[0]), c.prog.pos(n)))
	case "make":
		t := c.typeOf(n)
		sl, ok := t.Underlying().(*types.Slice)
		if !ok {
			panic(verr("unsupported make at %s", c.prog.pos(n)))
		}
		ln := c.evalInt(st, n.Args[1])
		cp := ln
		if len(n.Args) > 2 {
			cp = c.evalInt(st, n.Args[2])
		}
		c.oblige(st, "make", "", And(Le(ConstI(0), ln), Le(ln, cp)), n)
		s := c.freshSlice(st, sl.Elem(), ln, cp)
		if _, isInt := intKindOf(sl.Elem()); isInt {
			h := c.heap(st, heapName(sl.Elem()))
			p := Var(c.freshName("p"), SInt)
			st.assume(Forall([]*Term{p}, []*Term{Select(h, p)}, Implies(And(Le(s.Addr, p), Lt(p, Add(s.Addr, cp))), Eq(Select(h, p), ConstI(0)))))
		}
		return []Value{s}
	}
	panic(verr("unsupported builtin %s at %s", name, c.prog.pos(n)))
}

func (c *FuncCtx) evalBits(st *State, n *ast.CallExpr, name string) []Value {
	u64 := types.Typ[types.Uint64]
	W := Const(W64)
	switch name {
	case "Mul64":
		x, y := c.evalInt(st, n.Args[0]), c.evalInt(st, n.Args[1])
		p := c.product(st, x, y)
		hi := c.named(st, "mhi", Div(p, W), u64)
		lo := c.named(st, "mlo", Mod(p, W), u64)
		return []Value{IntV{hi}, IntV{lo}}
	case "Add64":
		x, y, cy := c.evalInt(st, n.Args[0]), c.evalInt(st, n.Args[1]), c.evalInt(st, n.Args[2])
		s := Add(x, y, cy)
		c.oblige(st, "requires", "bits.Add64:carry", Or(Eq(cy, ConstI(0)), Eq(cy, ConstI(1))), n)
		sum := c.named(st, "sum", Ite(Ge(s, W), Sub(s, W), s), u64)
		carry := Ite(Ge(s, W), ConstI(1), ConstI(0))
		c.setRange(carry, bigZero, bigOne)
		return []Value{IntV{sum}, IntV{carry}}
	case "Sub64":
		x, y, b := c.evalInt(st, n.Args[0]), c.evalInt(st, n.Args[1]), c.evalInt(st, n.Args[2])
		s := Sub(Sub(x, y), b)
		c.oblige(st, "requires", "bits.Sub64:borrow", Or(Eq(b, ConstI(0)), Eq(b, ConstI(1))), n)
		diff := c.named(st, "diff", Ite(Lt(s, ConstI(0)), Add(s, W), s), u64)
		borrow := Ite(Lt(s, ConstI(0)), ConstI(1), ConstI(0))
		c.setRange(borrow, bigZero, bigOne)
		return []Value{IntV{diff}, IntV{borrow}}
	case "Len64", "Len":
		x := c.evalInt(st, n.Args[0])
		if x.IsConst() {
			return []Value{IntV{ConstI(int64(x.Val.BitLen()))}}
		}
		l := App("bitlen", SInt, x)
		st.assume(And(Le(ConstI(0), l), Le(l, ConstI(64))))
		c.setRange(l, bigZero, big.NewInt(64))
		// bitlen(x) = l  <=>  2^(l-1) <= x < 2^l  (l >= 1), bitlen(0) = 0
		st.assume(Eq(Eq(l, ConstI(0)), Eq(x, ConstI(0))))
		for i := 1; i <= 64; i++ {
			st.assume(Eq(Eq(l, ConstI(int64(i))), And(Le(Const(pow2(i-1)), x), Lt(x, Const(pow2(i))))))
		}
		return []Value{IntV{l}}
	}
	panic(verr("unsupported math/bits function %s at %s", name, c.prog.pos(n)))
}

func recvName(fd *ast.FuncDecl) string {
	if fd == nil {
		return "this"
	}
	if fd.Recv != nil && len(fd.Recv.List) > 0 && len(fd.Recv.List[0].Names) > 0 {
		return fd.Recv.List[0].Names[0].Name
	}
	return ""
}

// assignedRegions evaluates an assigns list into (heap name, lo address, hi address) triples.
type region struct {
	heap   string
	lo, hi *Term
}

func (c *FuncCtx) regions(se *SpecEnv, exprs []ast.Expr) []region {
	var out []region
	for _, e := range exprs {
		s := se.slice(e)
		out = append(out, region{heapName(s.Elem), s.Addr, Add(s.Addr, s.Len)})
	}
	return out
}

// brk0 is the allocation watermark at function entry: every slice reachable from the inputs lies
// below it, every slice allocated during the call (make, or a callee's `fresh` result) at or above it.
var brk0 = Var("brk0", SInt)

// existedAtEntry: frame obligations speak about the cells that existed when the function was entered.
func existedAtEntry(p *Term) *Term { return Lt(p, brk0) }

func outsideAll(p *Term, rs []region, heap string) *Term {
	t := TTrue
	for _, r := range rs {
		if r.heap == heap {
			t = And(t, Or(Lt(p, r.lo), Le(r.hi, p)))
		}
	}
	return t
}

func (c *FuncCtx) callContract(st *State, con *Contract, fi *FuncInfo, recv Value, args []Value, at *ast.CallExpr) []Value {
	sig := fi.Obj.Type().(*types.Signature)
	short := strings.TrimPrefix(fi.Key, fi.Pkg.PkgPath+".")
	bind := map[string]Value{}
	if fi.Decl == nil {
		// a method under an assumed `ext:` contract: the receiver is named as in its declaration
		if r := sig.Recv(); r != nil && r.Name() != "" && recv != nil {
			bind[r.Name()] = recv
		}
	} else if rn := recvName(fi.Decl); rn != "" && recv != nil {
		bind[rn] = recv
	}
	if sig.Variadic() {
		panic(verr("variadic callee %s at %s", short, c.prog.pos(at)))
	}
	for i := 0; i < sig.Params().Len(); i++ {
		bind[sig.Params().At(i).Name()] = args[i]
	}
	mkEnv := func(cur *State, old *State, facts *[]*Term, b map[string]Value) *SpecEnv {
		return &SpecEnv{c: c, pkg: fi.Pkg.PkgPath, st: cur, oldSt: old, bound: b, lets: con.Lets, facts: facts}
	}
	// preconditions
	vws := c.views(con, fi.Pkg.PkgPath, func(facts *[]*Term) *SpecEnv { return mkEnv(st, st, facts, bind) }, 0)
	ri := 0
	for _, vw := range vws {
		for _, r := range vw.con.Requires {
			var facts []*Term
			g := vw.env(&facts).Bool(r.Expr)
			c.oblige(st, "requires", fmt.Sprintf("%s.%d", short, ri), g, at, facts...)
			st.assume(g)
			ri++
		}
	}
	if isPureScalar(fi) {
		return c.applyPure(fi, con, args, func(t *Term) { st.assume(t) }, st)
	}
	pre := st.clone()
	// frame
	hasAssigns := false
	var rs []region
	for _, vw := range vws {
		if vw.con.HasAssigns {
			hasAssigns = true
			var facts []*Term
			rs = append(rs, c.regions(vw.env(&facts), vw.con.Assigns)...)
		}
	}
	if hasAssigns {
		heaps := map[string]bool{}
		for _, r := range rs {
			heaps[r.heap] = true
		}
		var hn []string
		for h := range heaps {
			hn = append(hn, h)
		}
		sort.Strings(hn)
		for _, h := range hn {
			oldH := c.heap(st, h)
			nh := Var(c.freshName(h), SArr)
			p := Var(c.freshName("p"), SInt)
			st.assume(Forall([]*Term{p}, []*Term{Select(nh, p)}, Implies(outsideAll(p, rs, h), Eq(Select(nh, p), Select(oldH, p)))))
			st.heaps[h] = nh
		}
	} else if !con.Trusted || len(con.Raw["pure"]) == 0 {
		// no assigns clause: the callee may write anything reachable; havoc every heap
		for _, h := range sortedHeapNames(st.heaps) {
			st.heaps[h] = Var(c.freshName(h), SArr)
		}
		c.heap(st, "H.uint64")
		st.heaps["H.uint64"] = Var(c.freshName("H.uint64"), SArr)
	}
	// ghost variables: changed by the callees that say so (`gassigns`), unknown after a callee
	// without frame
	{
		var ga []string
		for _, vw := range vws {
			for _, raw := range vw.con.Raw["gassigns"] {
				ga = append(ga, strings.Fields(strings.ReplaceAll(raw, ",", " "))...)
			}
		}
		if len(ga) > 0 {
			c.havocGhosts(st, ga)
		} else if !hasAssigns && (!con.Trusted || len(con.Raw["pure"]) == 0) {
			c.havocGhosts(st, nil)
		}
		if !hasAssigns && (!con.Trusted || len(con.Raw["pure"]) == 0) {
			c.bumpRefTop(st)
		}
	}
	// results
	var res []Value
	b2 := map[string]Value{}
	for k, v := range bind {
		b2[k] = v
	}
	for i := 0; i < sig.Results().Len(); i++ {
		r := sig.Results().At(i)
		v := c.symValue(st, c.freshName(short+".res"), r.Type())
		res = append(res, v)
		if r.Name() != "" {
			b2[r.Name()] = v
		}
		b2[fmt.Sprintf("result%d", i)] = v
	}
	if len(res) == 1 {
		b2["result"] = res[0]
	}
	// refnew <result name>: that result is a newly allocated external object
	for _, raw := range con.Raw["refnew"] {
		for _, nm := range strings.Fields(strings.ReplaceAll(raw, ",", " ")) {
			old, ok := b2[nm].(RefV)
			if !ok {
				panic(verr("%s: refnew %s: not a pointer to an external object", con.File, nm))
			}
			nr := c.allocRef(st, old.T, short)
			for k, v := range b2 {
				if rv, ok := v.(RefV); ok && rv.ID == old.ID {
					b2[k] = nr
				}
			}
			for i, v := range res {
				if rv, ok := v.(RefV); ok && rv.ID == old.ID {
					res[i] = nr
				}
			}
		}
	}
	// refset <x> = <expr over the values before the call> | *: the ghost value of the object x points to
	for _, raw := range con.Raw["refset"] {
		kv := strings.SplitN(raw, "=", 2)
		if len(kv) != 2 {
			panic(verr("%s: refset expects: x = expr | *", con.File))
		}
		tx, err := parser.ParseExpr(strings.TrimSpace(kv[0]))
		if err != nil {
			panic(verr("%s: bad refset clause %q", con.File, raw))
		}
		var facts []*Term
		tenv := mkEnv(st, pre, &facts, b2)
		target, ok := tenv.Eval(tx).(RefV)
		if !ok {
			panic(verr("%s: refset %s: not a pointer to an external object", con.File, exprString(tx)))
		}
		var val *Term
		if strings.TrimSpace(kv[1]) == "*" {
			val = Var(c.freshName("refval"), SInt)
		} else {
			vx, err := parser.ParseExpr(strings.TrimSpace(kv[1]))
			if err != nil {
				panic(verr("%s: bad refset clause %q", con.File, raw))
			}
			val = mkEnv(pre, pre, &facts, b2).Int(vx)
		}
		for _, f := range facts {
			st.assume(f)
		}
		c.setRefVal(st, target, val)
	}
	// A callee may ASSIGN fields of a struct it reaches through a pointer (receiver or parameter).  Struct fields
	// are symbolic values, not heap cells: the fields the callee's postconditions mention under old(...) - the
	// ones whose change the contract describes - get a fresh value after the call (a field override of this
	// path); old(x.f) reads the state before.  Without this, x.f and old(x.f) were one term, and a postcondition
	// such as x.f + d == old(x.f), d > 0, made everything after the call vacuous.
	fieldsChanged := false
	for _, en := range con.Ensures {
		ast.Inspect(en.Expr, func(m ast.Node) bool {
			call, ok := m.(*ast.CallExpr)
			if !ok {
				return true
			}
			if id, ok := call.Fun.(*ast.Ident); !ok || id.Name != "old" || len(call.Args) != 1 {
				return true
			}
			ast.Inspect(call.Args[0], func(k ast.Node) bool {
				sel, ok := k.(*ast.SelectorExpr)
				if !ok {
					return true
				}
				id, ok := sel.X.(*ast.Ident)
				if !ok {
					return true
				}
				sv, ok := bind[id.Name].(*StructV)
				if !ok || sv.Key != nil {
					return true
				}
				stt, ok := sv.T.Underlying().(*types.Struct)
				if !ok {
					return true
				}
				for i := 0; i < stt.NumFields(); i++ {
					f := stt.Field(i)
					if f.Name() != sel.Sel.Name {
						continue
					}
					if _, isBasic := f.Type().Underlying().(*types.Basic); !isBasic {
						continue
					}
					if st.fieldOv == nil {
						st.fieldOv = map[string]Value{}
					}
					key := fieldOvKey(sv, f.Name())
					st.fieldOv[key] = c.symValue(st, c.freshName(sv.Prefix+"."+f.Name()), f.Type())
					fieldsChanged = true
				}
				return true
			})
			return false
		})
	}
	evws := c.views(con, fi.Pkg.PkgPath, func(facts *[]*Term) *SpecEnv {
		env := mkEnv(st, pre, facts, b2)
		env.old = func(name string) (Value, bool) { v, ok := bind[name]; return v, ok }
		return env
	}, 0)
	for _, vw := range evws {
		for _, en := range vw.con.Ensures {
			var facts []*Term
			g := vw.env(&facts).Bool(en.Expr)
			for _, f := range facts {
				st.assume(f)
			}
			st.assume(g)
		}
	}
	// the callee's postconditions must not contradict the state they are assumed in (everything after the call
	// would hold vacuously): reported like a contradictory precondition when the solver REFUTES the path
	if fieldsChanged {
		// checked where the pattern occurs (a callee that changes fields of its receiver): was the path feasible
		// before the call and is it refuted after it?
		before := &Obligation{Name: c.obName("feasibility", "call:"+short), Func: c.name, Kind: "feasibility", Goal: TFalse, Native: true}
		before.Assume = append([]*Term(nil), pre.path...)
		before.Discharge(3)
		if before.Status != "unsat" {
			o := c.oblige(st, "vacuity", "call:"+short, TFalse, at)
			o.Kind = "vacuity"
		}
	}
	return res
}

// ---------- function driver ----------

func numberLoops(body *ast.BlockStmt) map[ast.Stmt]int {
	m := map[ast.Stmt]int{}
	n := 0
	ast.Inspect(body, func(x ast.Node) bool {
		switch s := x.(type) {
		case *ast.ForStmt:
			m[s] = n
			n++
		case *ast.RangeStmt:
			m[s] = n
			n++
		case *ast.FuncLit:
			return false
		}
		return true
	})
	return m
}

type FuncResult struct {
	Key        string
	Name       string
	File       string
	Obls       []*Obligation
	Err        string // out-of-subset / contract error
	Trusted    bool
	Assumed    []string
	Loops      int
}

func (p *Program) VerifyFunc(key string) (res *FuncResult) {
	con := p.Contracts[key]
	fi := p.Funcs[key]
	res = &FuncResult{Key: key}
	if con == nil {
		res.Err = "no contract"
		return
	}
	if fi == nil {
		res.Err = "contract-target: function not found in the source tree (renamed or removed?)"
		res.Name = shortPkg(key)
		return
	}
	short := strings.TrimPrefix(key, fi.Pkg.PkgPath+".")
	res.Name = shortPkg(fi.Pkg.PkgPath) + "." + short
	res.File = p.pos(fi.Decl)
	if con.Trusted {
		res.Trusted = true
		return
	}
	c := &FuncCtx{prog: p, pkg: fi.Pkg, info: fi.Pkg.TypesInfo, fi: fi, con: con, name: res.Name,
		ranges: map[string][2]*big.Int{}, counters: map[string]int{}}
	defer func() {
		if r := recover(); r != nil {
			if ve, ok := r.(verifError); ok {
				res.Err = ve.msg
				res.Obls = c.obls
				return
			}
			panic(r)
		}
	}()
	if fi.Decl.Body == nil {
		panic(verr("function without body"))
	}
	c.loopOrd = numberLoops(fi.Decl.Body)
	res.Loops = len(c.loopOrd)
	st := newState()
	sig := fi.Obj.Type().(*types.Signature)
	if r := sig.Recv(); r != nil {
		if rn := recvName(fi.Decl); rn != "" {
			obj := c.info.Defs[fi.Decl.Recv.List[0].Names[0]]
			st.declare(obj, c.symValue(st, rn, r.Type()))
		}
	}
	for i := 0; i < sig.Params().Len(); i++ {
		pv := sig.Params().At(i)
		if pv.Name() == "" || pv.Name() == "_" {
			continue
		}
		v := c.symValue(st, pv.Name(), pv.Type())
		st.declare(pv, v)
		c.noteInputs(pv.Name(), v)
	}
	c.heap(st, "H.uint64")
	c.entry = st // provisional so that requires can be evaluated
	c.entry = st.clone()
	for _, vw := range c.views(con, fi.Pkg.PkgPath, func(facts *[]*Term) *SpecEnv { return c.specEnv(st, facts) }, 0) {
		for _, r := range vw.con.Requires {
			var facts []*Term
			g := vw.env(&facts).Bool(r.Expr)
			for _, f := range facts {
				st.assume(f)
			}
			st.assume(g)
			c.learnRanges(g)
		}
	}
	c.entry = st.clone()
	// vacuity: the preconditions must be satisfiable
	{
		o := &Obligation{Name: c.name + "/vacuity", Func: c.name, Kind: "vacuity", Goal: TFalse, Ranges: c.ranges, File: con.File}
		o.Assume = append([]*Term(nil), st.path...)
		c.obls = append(c.obls, o)
	}
	for i := 0; i < sig.Results().Len(); i++ {
		r := sig.Results().At(i)
		c.results = append(c.results, r)
		if r.Name() != "" && r.Name() != "_" {
			st.declare(r, c.zeroValue(r.Type()))
		}
	}
	c.vecMeaningObligations(st)
	fr := &frame{c: c}
	fr.ret = func(s *State, vals []Value) { c.atReturn(s, vals) }
	body := fi.Decl.Body.List
	if raw := con.Raw["tail"]; len(raw) > 0 {
		// tail <k> assigns <fields>: only the first k top-level statements are executed (the
		// validating prefix of a constructor-like function); the rest is NOT verified: it is taken to
		// return anything and to write only the listed fields of the receiver / parameters, local
		// variables and memory (checked syntactically: tailCheck).  The postconditions are then
		// owed for every return of the prefix and for an arbitrary outcome of the tail.
		k, fields := c.parseTail(raw[0])
		if k < 0 || k > len(body) {
			panic(verr("%s: tail %d: the function has %d top-level statements", con.File, k, len(body)))
		}
		c.tailCheck(body[k:], fields)
		prefix := body[:k]
		c.assumed = append(c.assumed, fmt.Sprintf("tail: statements %d.. of the body are not verified; assumed (checked syntactically) to write only %v, locals and memory", k, fields))
		c.execBlock(fr, prefix, st, func(s *State) {
			for _, h := range sortedHeapNames(s.heaps) {
				s.heaps[h] = Var(c.freshName(h), SArr)
			}
			c.havocGhosts(s, nil)
			c.bumpRefTop(s)
			for _, fx := range fields {
				sel, ok := fx.(*ast.SelectorExpr)
				if !ok {
					panic(verr("%s: tail assigns: %s is not a field", con.File, exprString(fx)))
				}
				var facts []*Term
				base, ok := c.specEnv(s, &facts).Eval(sel.X).(*StructV)
				if !ok {
					panic(verr("%s: tail assigns: %s is not a field of a struct", con.File, exprString(fx)))
				}
				owner, ft := c.resolveField(s, base, sel.Sel.Name)
				if ft == nil {
					panic(verr("%s: tail assigns: unknown field %s", con.File, exprString(fx)))
				}
				if s.fieldOv == nil {
					s.fieldOv = map[string]Value{}
				}
				s.fieldOv[fieldOvKey(owner, sel.Sel.Name)] = c.symValue(s, c.freshName("tail."+sel.Sel.Name), ft)
			}
			var vals []Value
			for i, r := range c.results {
				vals = append(vals, c.symValue(s, c.freshName(fmt.Sprintf("tail.res%d", i)), r.Type()))
			}
			c.atReturn(s, vals)
		})
		c.returnsReachable(con)
		res.Obls = c.obls
		res.Assumed = c.assumed
		return
	}
	c.execBlock(fr, body, st, func(s *State) {
		var vals []Value
		for _, r := range c.results {
			vals = append(vals, s.vars[r])
		}
		c.atReturn(s, vals)
	})
	c.returnsReachable(con)
	res.Obls = c.obls
	res.Assumed = c.assumed
	return
}

// returnsReachable: some return of the function is reachable under the contract (a callee
// postcondition contradicting the state, or contradictory invariants, would otherwise make every
// postcondition hold vacuously).  One obligation: the disjunction of the path conditions at the
// returns must not be refutable.
func (c *FuncCtx) returnsReachable(con *Contract) {
	if len(c.retPaths) == 0 {
		return
	}
	o := &Obligation{Name: c.name + "/vacuity:returns", Func: c.name, Kind: "vacuity", Goal: TFalse, Ranges: c.ranges, File: con.File}
	o.Assume = []*Term{Or(c.retPaths...)}
	c.obls = append(c.obls, o)
}

func (c *FuncCtx) noteInputs(name string, v Value) {
	switch x := v.(type) {
	case IntV:
		c.inputs = append(c.inputs, x.T.Key())
	case ArrV:
		for _, e := range x.Elems {
			c.noteInputs(name, e)
		}
	case SliceV:
		c.inputs = append(c.inputs, x.Addr.Key(), x.Len.Key(), x.Cap.Key())
	}
}

func (c *FuncCtx) atReturn(st *State, vals []Value) {
	st = st.clone()
	if len(c.retPaths) < 24 {
		c.retPaths = append(c.retPaths, And(st.path...))
	}
	for i, r := range c.results {
		if i < len(vals) {
			if _, isNil := vals[i].(NilV); isNil {
				vals[i] = c.zeroValue(r.Type())
			}
		}
	}
	bind := map[string]Value{}
	for i, r := range c.results {
		if i < len(vals) {
			if r.Name() != "" && r.Name() != "_" {
				st.vars[r] = vals[i]
				bind[r.Name()] = vals[i]
			}
			bind[fmt.Sprintf("result%d", i)] = vals[i]
		}
	}
	if len(vals) == 1 {
		bind["result"] = vals[0]
	}
	var lf []*Term
	mk := func(facts *[]*Term) *SpecEnv {
		se := c.specEnv(st, facts)
		for k, v := range bind {
			se.bound[k] = v
		}
		return se
	}
	if len(c.con.Lemmas) > 0 {
		var facts []*Term
		lf = append(c.evalHints(st, c.con.Lemmas, mk(&facts), c.con.File), facts...)
	}
	for i, cu := range c.con.Cuts {
		var facts []*Term
		se := mk(&facts)
		var by []*Term
		if len(cu.By) > 0 {
			by = c.evalHints(st, cu.By, se, cu.Line)
		}
		g := se.Bool(cu.Expr)
		extra := append(append(append([]*Term(nil), lf...), by...), facts...)
		c.oblige(st, "cut", fmt.Sprintf("%d", i), g, nil, extra...).File = cu.Line
		lf = append(lf, g)
		lf = append(lf, facts...)
	}
	vws := c.views(c.con, c.pkg.PkgPath, mk, 0)
	ei := 0
	for vi, vw := range vws {
		for _, en := range vw.con.Ensures {
			i := ei
			ei++
			if en.Derived && vi == 0 {
				continue
			}
			if vi == 0 {
				if call, ok := stripParens(en.Expr).(*ast.CallExpr); ok && exprString(call.Fun) == "forall" && (len(en.By) > 0 || len(c.con.RowLoops) > 0) {
					c.proveClause(st, "ensures", fmt.Sprintf("%d", i), en, vw.env, nil, lf)
					continue
				}
			}
			var facts []*Term
			se := vw.env(&facts)
			var by []*Term
			if len(en.By) > 0 && vi == 0 {
				by = c.evalHints(st, en.By, se, en.Line)
			}
			g := se.Bool(en.Expr)
			extra := append(append(append([]*Term(nil), lf...), by...), facts...)
			for j, gj := range conjuncts(g) {
				d := fmt.Sprintf("%d", i)
				if j > 0 {
					d = fmt.Sprintf("%d.%d", i, j)
				}
				c.oblige(st, "ensures", d, gj, nil, extra...).File = en.Line
			}
		}
	}
	hasAssigns := false
	var rs []region
	var afacts []*Term
	for _, vw := range vws {
		if vw.con.HasAssigns {
			hasAssigns = true
			se := vw.env(&afacts)
			se.inOld = true // regions are evaluated on entry values
			rs = append(rs, c.regions(se, vw.con.Assigns)...)
		}
	}
	if hasAssigns {
		for _, h := range sortedHeapNames(st.heaps) {
			cur := st.heaps[h]
			old := c.heap(c.entry, h)
			if cur.Key() == old.Key() {
				continue
			}
			p := Var(c.freshName("p"), SInt)
			ante := And(existedAtEntry(p), outsideAll(p, rs, h))
			// cells inside an output row of a rowloop are assigned as well
			for _, rl := range c.con.RowLoops {
				j := Var(c.freshName(rl.Var), SInt)
				var ff []*Term
				env := c.specEnv(c.entry, &ff)
				env.bound[rl.Var] = IntV{j}
				lo, hi := env.Int(rl.Lo), env.Int(rl.Hi)
				inSome := TFalse
				for _, o := range rl.Out {
					row := &ast.IndexExpr{X: &ast.SelectorExpr{X: o, Sel: ast.NewIdent("Coeffs")}, Index: ast.NewIdent(rl.Var)}
					sl := env.slice(row)
					if heapName(sl.Elem) == h {
						inSome = Or(inSome, And(Le(sl.Addr, p), Lt(p, Add(sl.Addr, sl.Len))))
					}
				}
				for _, a := range rl.Assigns {
					var f2 []*Term
					e2 := c.specEnv(c.entry, &f2)
					sl := e2.slice(a)
					if heapName(sl.Elem) == h {
						ante = And(ante, Or(Lt(p, sl.Addr), Le(Add(sl.Addr, sl.Len), p)))
					}
				}
				ante = And(ante, Forall([]*Term{j}, nil, Not(And(Le(lo, j), Lt(j, hi), inSome))))
			}
			g := Implies(ante, Eq(Select(cur, p), Select(old, p)))
			// p is a fresh constant: proving the implication for it proves the universal statement
			c.oblige(st, "frame", h, g, nil, afacts...).File = c.con.File
		}
	}
}

func conjuncts(t *Term) []*Term {
	if t.Op == "and" {
		return t.Args
	}
	return []*Term{t}
}

// proveClause emits the obligations of one contract clause.  A clause of the shape
// forall(k, lo, hi, body) that carries `by` hints is proved by forall-introduction: k becomes a
// fresh constant with lo <= k < hi and the hints are evaluated with k bound to it, so they may
// mention the element under consideration.
func (c *FuncCtx) proveClause(st *State, kind, detail string, cl *Clause, mkEnv func(facts *[]*Term) *SpecEnv, at ast.Node, extra []*Term) {
	if call, ok := stripParens(cl.Expr).(*ast.CallExpr); ok && exprString(call.Fun) == "forall" && len(call.Args) == 4 {
		if kid, ok := call.Args[0].(*ast.Ident); ok {
			var facts []*Term
			env := mkEnv(&facts)
			k0 := Var(c.freshName(kid.Name), SInt)
			lo, hi := env.Int(call.Args[1]), env.Int(call.Args[2])
			env.bound[kid.Name] = IntV{k0}
			rng := And(Le(lo, k0), Lt(k0, hi))
			// a directly nested forall is introduced as well, so that hints can mention both indices
			body := call.Args[3]
			for {
				inner, ok := stripParens(body).(*ast.CallExpr)
				if !ok || exprString(inner.Fun) != "forall" || len(inner.Args) != 4 {
					break
				}
				kid2, ok := inner.Args[0].(*ast.Ident)
				if !ok {
					break
				}
				k1 := Var(c.freshName(kid2.Name), SInt)
				lo2, hi2 := env.Int(inner.Args[1]), env.Int(inner.Args[2])
				env.bound[kid2.Name] = IntV{k1}
				rng = And(rng, Le(lo2, k1), Lt(k1, hi2))
				body = inner.Args[3]
			}
			by := c.evalHints(st, cl.By, env, cl.Line)
			g := env.Bool(body)
			all := append(append(append([]*Term{rng}, extra...), by...), facts...)
			for j, gj := range conjuncts(g) {
				o := c.oblige(st, kind, fmt.Sprintf("%s.%d", detail, j), gj, at, all...)
				if at == nil {
					o.File = cl.Line
				}
			}
			return
		}
	}
	var facts []*Term
	env := mkEnv(&facts)
	var by []*Term
	if len(cl.By) > 0 {
		by = c.evalHints(st, cl.By, env, cl.Line)
	}
	g := env.Bool(cl.Expr)
	all := append(append(append([]*Term(nil), extra...), by...), facts...)
	for j, gj := range conjuncts(g) {
		o := c.oblige(st, kind, fmt.Sprintf("%s.%d", detail, j), gj, at, all...)
		if at == nil {
			o.File = cl.Line
		}
	}
}

// ---------- row loops ----------
//
// A loop over the RNS rows (`for i, s := range r.SubRings[:r.level+1] { BODY(i) }`) under a
// `rowloop` contract is verified for ONE generic row i, started from the heap before the loop:
//
//	assume rowpre(i);  BODY(i);  prove rowpost(i)  and  "only row i of the outputs changed".
//
// Meta-argument (engine, stated in the evidence): rows with different indices are disjoint
// storage, the body indexes the output polynomials only with the loop variable (checked: any
// other index into an output must lie outside the loop range), hence iterations are independent
// and the state after the loop satisfies rowpost(i) for every i of the range, all other cells
// being unchanged.
func (c *FuncCtx) execRowLoop(fr *frame, n *ast.RangeStmt, rl *RowLoopSpec, ord int, st *State, k func(*State)) {
	depth := len(st.scope)
	xv := c.eval(st, n.X)
	sl, ok := xv.(SliceV)
	var length *Term
	if ok {
		length = sl.Len
	} else if iv, ok := xv.(IntV); ok {
		length = iv.T
	} else {
		panic(verr("rowloop over %T at %s", xv, c.prog.pos(n)))
	}
	id, ok := n.Key.(*ast.Ident)
	if !ok || id.Name != rl.Var {
		panic(verr("%s: rowloop variable %s does not match the loop at %s", rl.Line, rl.Var, c.prog.pos(n)))
	}
	keyObj := c.info.Defs[id]
	if keyObj == nil {
		keyObj = c.info.Uses[id]
	}
	// the contract's range must be the loop's range
	{
		var facts []*Term
		se := c.specEnv(st, &facts)
		lo, hi := se.Int(rl.Lo), se.Int(rl.Hi)
		c.oblige(st, "rowloop-range", fmt.Sprintf("loop%d", ord), And(Eq(lo, ConstI(0)), Eq(hi, length)), n, facts...)
	}
	// frame of the code before the loop: it may write only what the function-level assigns clause names
	{
		var facts []*Term
		se := c.specEnv(st, &facts)
		se.inOld = true
		rs := c.regions(se, c.con.Assigns)
		for _, h := range sortedHeapNames(st.heaps) {
			cur := st.heaps[h]
			old := c.heap(c.entry, h)
			if cur.Key() == old.Key() {
				continue
			}
			p := Var(c.freshName("p"), SInt)
			ante := And(existedAtEntry(p), outsideAll(p, rs, h))
			// rows written by the row loops of this function (the earlier ones, in particular) are
			// part of its frame, exactly as in the function-level frame obligation
			for _, rl2 := range c.con.RowLoops {
				j := Var(c.freshName(rl2.Var), SInt)
				var ff []*Term
				env := c.specEnv(c.entry, &ff)
				env.bound[rl2.Var] = IntV{j}
				lo, hi := env.Int(rl2.Lo), env.Int(rl2.Hi)
				inSome := TFalse
				for _, o := range rl2.Out {
					if id, ok := o.(*ast.Ident); ok && c.localNamed(id.Name) {
						continue // a local polynomial (fresh storage): not visible at entry
					}
					row := &ast.IndexExpr{X: &ast.SelectorExpr{X: o, Sel: ast.NewIdent("Coeffs")}, Index: ast.NewIdent(rl2.Var)}
					sl := env.slice(row)
					if heapName(sl.Elem) == h {
						inSome = Or(inSome, And(Le(sl.Addr, p), Lt(p, Add(sl.Addr, sl.Len))))
					}
				}
				if !inSome.IsFalse() {
					ante = And(ante, Forall([]*Term{j}, nil, Not(And(Le(lo, j), Lt(j, hi), inSome))))
				}
			}
			c.oblige(st, "frame-before-loop", fmt.Sprintf("loop%d.%s", ord, h), Implies(ante, Eq(Select(cur, p), Select(old, p))), n, facts...)
		}
	}
	pre := st.clone()
	body := st.clone()
	i := Var(c.freshName(rl.Var), SInt)
	c.setRange(i, bigZero, maxLen)
	body.declare(keyObj, IntV{i})
	body.assume(And(Le(ConstI(0), i), Lt(i, length)))
	if n.Value != nil {
		if vid, ok := n.Value.(*ast.Ident); ok && vid.Name != "_" && sl.Addr != nil {
			obj := c.info.Defs[vid]
			if obj == nil {
				obj = c.info.Uses[vid]
			}
			body.declare(obj, c.elemOf(body, sl, i))
		}
	}
	// independence: an output polynomial is indexed by the loop variable only
	outNames := map[string]bool{}
	for _, o := range rl.Out {
		outNames[exprString(o)] = true
	}
	ast.Inspect(n.Body, func(m ast.Node) bool {
		ix, ok := m.(*ast.IndexExpr)
		if !ok {
			return true
		}
		sel, ok := stripParens(ix.X).(*ast.SelectorExpr)
		if !ok || sel.Sel.Name != "Coeffs" || !outNames[exprString(sel.X)] {
			return true
		}
		if iid, ok := stripParens(ix.Index).(*ast.Ident); ok && iid.Name == rl.Var {
			return true
		}
		idx := c.evalInt(body, ix.Index)
		c.oblige(body, "rowloop-independence", fmt.Sprintf("loop%d", ord), Or(Lt(idx, ConstI(0)), Le(length, idx)), ix)
		return true
	})
	// callee views for rowcalls
	type rowView struct {
		con *Contract
		env func(s *State, old *State, facts *[]*Term) *SpecEnv
		key string
	}
	var views []rowView
	for _, rc := range rl.Calls {
		key := c.pkg.PkgPath + "." + rc.Callee
		callee, ok := c.prog.Contracts[key]
		fi, ok2 := c.prog.Funcs[key]
		if !ok || !ok2 {
			panic(verr("%s: rowcall to unknown function %s", rl.Line, rc.Callee))
		}
		sig := fi.Obj.Type().(*types.Signature)
		var names []string
		if rn := recvName(fi.Decl); rn != "" {
			names = append(names, rn)
		}
		for j := 0; j < sig.Params().Len(); j++ {
			names = append(names, sig.Params().At(j).Name())
		}
		if len(names) != len(rc.Args) {
			panic(verr("%s: rowcall %s: %d arguments for %d parameters", rl.Line, rc.Callee, len(rc.Args), len(names)))
		}
		args := rc.Args
		pkgPath := fi.Pkg.PkgPath
		mk := func(s *State, old *State, facts *[]*Term) *SpecEnv {
			outer := c.specEnv(s, facts)
			outer.oldSt = old
			bound := map[string]Value{}
			for j, nm := range names {
				bound[nm] = outer.Eval(args[j])
			}
			ne := *outer
			ne.bound = bound
			ne.cur, ne.old = nil, nil
			ne.lets = callee.Lets
			ne.pkg = pkgPath
			return &ne
		}
		// the callee's own contract and, through wraps, the kernel's
		var collect func(con *Contract, env func(*State, *State, *[]*Term) *SpecEnv, pk string, d int)
		collect = func(con *Contract, env func(*State, *State, *[]*Term) *SpecEnv, pk string, d int) {
			views = append(views, rowView{con, env, key})
			if con.Wrap != nil && d < 4 {
				k2 := pk + "." + con.Wrap.Callee
				c2, okc := c.prog.Contracts[k2]
				f2, okf := c.prog.Funcs[k2]
				if !okc || !okf {
					panic(verr("%s: wraps unknown function %s", con.File, con.Wrap.Callee))
				}
				s2 := f2.Obj.Type().(*types.Signature)
				var n2 []string
				if rn := recvName(f2.Decl); rn != "" {
					n2 = append(n2, rn)
				}
				for j := 0; j < s2.Params().Len(); j++ {
					n2 = append(n2, s2.Params().At(j).Name())
				}
				wargs := con.Wrap.Args
				sub := func(s *State, old *State, facts *[]*Term) *SpecEnv {
					outer := env(s, old, facts)
					b := map[string]Value{}
					for j, nm := range n2 {
						b[nm] = outer.Eval(wargs[j])
					}
					ne := *outer
					ne.bound = b
					ne.lets = c2.Lets
					ne.pkg = f2.Pkg.PkgPath
					return &ne
				}
				collect(c2, sub, f2.Pkg.PkgPath, d+1)
			}
		}
		collect(callee, mk, pkgPath, 0)
	}
	// assume the row preconditions
	for _, cl := range rl.Pre {
		var facts []*Term
		g := c.specEnv(body, &facts).Bool(cl.Expr)
		for _, f := range facts {
			body.assume(f)
		}
		body.assume(g)
	}
	for _, v := range views {
		for _, r := range v.con.Requires {
			var facts []*Term
			g := v.env(body, pre, &facts).Bool(r.Expr)
			for _, f := range facts {
				body.assume(f)
			}
			body.assume(g)
		}
	}
	bodyDepth := len(body.scope)
	endIter := func(se *State) {
		if len(se.scope) > bodyDepth {
			se.scope = se.scope[:bodyDepth]
		}
		pi := 0
		var cutFacts []*Term
		for ci, cl := range rl.Cuts {
			c.proveClause(se, "rowcut", fmt.Sprintf("loop%d.%d", ord, ci), cl, func(facts *[]*Term) *SpecEnv {
				return c.specEnv(se, facts) // old() is the function entry, as everywhere else
			}, n, cutFacts)
			var facts []*Term
			env := c.specEnv(se, &facts)
			cutFacts = append(cutFacts, env.Bool(cl.Expr))
			cutFacts = append(cutFacts, facts...)
		}
		for _, cl := range rl.Post {
			c.proveClause(se, "rowpost", fmt.Sprintf("loop%d.%d", ord, pi), cl, func(facts *[]*Term) *SpecEnv {
				return c.specEnv(se, facts)
			}, n, cutFacts)
			pi++
		}
		for _, v := range views {
			for _, en := range v.con.Ensures {
				var facts []*Term
				g := v.env(se, pre, &facts).Bool(en.Expr)
				for j, gj := range conjuncts(g) {
					c.oblige(se, "rowpost", fmt.Sprintf("loop%d.%d.%d", ord, pi, j), gj, n, facts...)
				}
				pi++
			}
		}
		// frame of the iteration: only row i of the outputs changed
		var rs []region
		var ff []*Term
		env := c.specEnv(se, &ff)
		for _, o := range rl.Out {
			row := &ast.IndexExpr{X: &ast.SelectorExpr{X: o, Sel: ast.NewIdent("Coeffs")}, Index: ast.NewIdent(rl.Var)}
			s := env.slice(row)
			rs = append(rs, region{heapName(s.Elem), s.Addr, Add(s.Addr, s.Len)})
		}
		for _, a := range rl.Assigns {
			s := env.slice(a)
			rs = append(rs, region{heapName(s.Elem), s.Addr, Add(s.Addr, s.Len)})
		}
		for _, h := range sortedHeapNames(se.heaps) {
			cur := se.heaps[h]
			old := c.heap(pre, h)
			if cur.Key() == old.Key() {
				continue
			}
			p := Var(c.freshName("p"), SInt)
			c.oblige(se, "rowframe", fmt.Sprintf("loop%d.%s", ord, h), Implies(And(existedAtEntry(p), outsideAll(p, rs, h)), Eq(Select(cur, p), Select(old, p))), n, ff...)
		}
	}
	nfr := *fr
	nfr.cont = func(*State) { panic(verr("continue inside a rowloop at %s", c.prog.pos(n))) }
	nfr.brk = func(*State) { panic(verr("break inside a rowloop at %s", c.prog.pos(n))) }
	c.execBlock(&nfr, n.Body.List, body, endIter)
	// after the loop: the output rows are unknown to the code that follows (the per-row
	// postconditions are exported to callers as derived clauses, not re-assumed here)
	after := pre
	as := c.assignedIn(n.Body)
	hs := map[string]bool{}
	for h := range as.heaps {
		hs[h] = true
	}
	if as.calls {
		for h := range after.heaps {
			hs[h] = true
		}
	}
	var hnames []string
	for h := range hs {
		hnames = append(hnames, h)
	}
	sort.Strings(hnames)
	for _, h := range hnames {
		oldH := c.heap(after, h)
		nh := Var(c.freshName(h), SArr)
		// frame of the whole loop: a cell outside every output row of the range is unchanged
		p := Var(c.freshName("p"), SInt)
		j := Var(c.freshName(rl.Var), SInt)
		var ff []*Term
		env := c.specEnv(pre, &ff)
		env.bound[rl.Var] = IntV{j}
		inSome := TFalse
		for _, o := range rl.Out {
			row := &ast.IndexExpr{X: &ast.SelectorExpr{X: o, Sel: ast.NewIdent("Coeffs")}, Index: ast.NewIdent(rl.Var)}
			sl := env.slice(row)
			if heapName(sl.Elem) != h {
				continue
			}
			in := And(Le(sl.Addr, p), Lt(p, Add(sl.Addr, sl.Len)))
			// allocation model: every row of a polynomial reachable from the inputs lies below the
			// entry watermark, so a cell at or above it is in none of them
			var f3 []*Term
			if outer, ok := c.specEnv(pre, &f3).Eval(&ast.SelectorExpr{X: o, Sel: ast.NewIdent("Coeffs")}).(SliceV); ok && entryDerived(outer.Addr) {
				in = And(in, existedAtEntry(p))
			}
			inSome = Or(inSome, in)
		}
		for _, a := range rl.Assigns {
			var f2 []*Term
			e2 := c.specEnv(pre, &f2)
			sl := e2.slice(a)
			if heapName(sl.Elem) == h {
				inSome = Or(inSome, And(Le(sl.Addr, p), Lt(p, Add(sl.Addr, sl.Len))))
			}
		}
		exists := Not(Forall([]*Term{j}, nil, Not(And(Le(ConstI(0), j), Lt(j, length), inSome))))
		after.assume(Forall([]*Term{p}, []*Term{Select(nh, p)}, Or(exists, Eq(Select(nh, p), Select(oldH, p)))))
		after.heaps[h] = nh
	}
	if rl.Keep && len(rl.Post) > 0 {
		// rowkeep: by the independence of the iterations (meta-argument above) every row of the range
		// satisfies its postconditions in the state after the loop
		tmp := after.clone()
		j := Var(c.freshName(rl.Var), SInt)
		tmp.declare(keyObj, IntV{j})
		if n.Value != nil {
			if vid, ok := n.Value.(*ast.Ident); ok && vid.Name != "_" && sl.Addr != nil {
				obj := c.info.Defs[vid]
				if obj == nil {
					obj = c.info.Uses[vid]
				}
				tmp.declare(obj, c.elemOf(tmp, sl, j))
			}
		}
		var ff []*Term
		env := c.specEnv(tmp, &ff)
		var posts []*Term
		for _, cl := range rl.Post {
			posts = append(posts, env.Bool(cl.Expr))
		}
		bodyT := And(append(ff, posts...)...)
		after.assume(Forall([]*Term{j}, nil, Implies(And(Le(ConstI(0), j), Lt(j, length)), bodyT)))
		c.assumed = append(c.assumed, fmt.Sprintf("rowloop %d (rowkeep): its per-row postconditions, proved for one generic row, are taken to hold for every row of the range in the code after the loop (same independence argument)", ord))
	}
	if len(after.scope) > depth {
		after.scope = after.scope[:depth]
	}
	c.assumed = append(c.assumed, fmt.Sprintf("rowloop %d: verified for one generic row; rows of different index are assumed to be disjoint storage (iterations independent)", ord))
	k(after)
}

// inlineCall executes the body of an uncontracted helper of the same package in the caller's state.
func (c *FuncCtx) inlineCall(st *State, fi *FuncInfo, recv Value, args []Value, at *ast.CallExpr) []Value {
	if c.inlineDepth >= 3 {
		panic(verr("call to %s which has no contract (inlining depth exceeded), at %s", fi.Key, c.prog.pos(at)))
	}
	sig := fi.Obj.Type().(*types.Signature)
	if sig.Variadic() {
		panic(verr("call to %s which has no contract (variadic helper), at %s", fi.Key, c.prog.pos(at)))
	}
	c.inlineDepth++
	defer func() { c.inlineDepth-- }()
	depth := len(st.scope)
	if fi.Decl.Recv != nil && len(fi.Decl.Recv.List) > 0 && len(fi.Decl.Recv.List[0].Names) > 0 && recv != nil {
		if obj := c.info.Defs[fi.Decl.Recv.List[0].Names[0]]; obj != nil {
			st.declare(obj, recv)
		}
	}
	ai := 0
	for _, fl := range fi.Decl.Type.Params.List {
		for _, nm := range fl.Names {
			if ai < len(args) {
				if obj := c.info.Defs[nm]; obj != nil && nm.Name != "_" {
					st.declare(obj, args[ai])
				}
			}
			ai++
		}
		if len(fl.Names) == 0 {
			ai++
		}
	}
	var named []types.Object
	if fi.Decl.Type.Results != nil {
		for _, fl := range fi.Decl.Type.Results.List {
			for _, nm := range fl.Names {
				if obj := c.info.Defs[nm]; obj != nil {
					st.declare(obj, c.zeroValue(obj.Type()))
					named = append(named, obj)
				}
			}
		}
	}
	paths := 0
	var outSt *State
	var outVals []Value
	fr := &frame{c: c}
	fr.ret = func(s *State, vals []Value) {
		paths++
		outSt, outVals = s, vals
		if len(vals) == 0 && len(named) > 0 {
			outVals = nil
			for _, o := range named {
				outVals = append(outVals, s.vars[o])
			}
		}
	}
	c.execBlock(fr, fi.Decl.Body.List, st, func(s *State) {
		paths++
		outSt = s
		outVals = nil
		for _, o := range named {
			outVals = append(outVals, s.vars[o])
		}
	})
	if paths != 1 {
		panic(verr("call to %s which has no contract: the helper has %d return paths, only straight-line helpers are executed in place (at %s)", fi.Key, paths, c.prog.pos(at)))
	}
	if outSt != st {
		*st = *outSt
	}
	if len(st.scope) > depth {
		st.scope = st.scope[:depth]
	}
	c.assumed = append(c.assumed, "helper "+shortPkg(fi.Key)+" (no contract) executed in place")
	return outVals
}

// localNamed: name is neither the receiver nor a parameter of the function under verification
// (so it denotes storage that did not exist at entry).
func (c *FuncCtx) localNamed(name string) bool {
	if rn := recvName(c.fi.Decl); rn == name {
		return false
	}
	sig := c.fi.Obj.Type().(*types.Signature)
	for i := 0; i < sig.Params().Len(); i++ {
		if sig.Params().At(i).Name() == name {
			return false
		}
	}
	return true
}

// fnCallSite: the ordinal, in source order, of this call among the calls of the function-typed parameter o.
func (c *FuncCtx) fnCallSite(o types.Object, at *ast.CallExpr) int {
	k, res := 0, -1
	ast.Inspect(c.fi.Decl.Body, func(n ast.Node) bool {
		call, ok := n.(*ast.CallExpr)
		if !ok {
			return true
		}
		if id, ok := call.Fun.(*ast.Ident); ok && c.info.Uses[id] == o {
			if call == at {
				res = k
			}
			k++
		}
		return true
	})
	return res
}

// freshSlice: newly allocated storage (make, an empty literal, the reallocation model of append).
func (c *FuncCtx) freshSlice(st *State, elem types.Type, ln, cp *Term) SliceV {
	s := SliceV{Addr: Var(c.freshName("make.addr"), SInt), Len: ln, Cap: cp, Elem: elem}
	st.assume(And(Le(ConstI(1), s.Addr), Le(s.Addr, Const(maxAddr)), Le(brk0, s.Addr)))
	c.setRange(s.Addr, bigOne, maxAddr)
	// allocation model: a new slice lies above everything that existed at entry and apart from
	// the slices this call has made before on the same path
	for _, a := range st.allocs {
		st.assume(Or(Le(Add(a.Addr, a.Cap), s.Addr), Le(Add(s.Addr, cp), a.Addr)))
	}
	st.allocs = append(st.allocs, s)
	c.assumed = append(c.assumed, "allocation model: slices reachable from the inputs lie below a watermark brk0, make returns storage at or above it, disjoint from earlier makes of the same path")
	return s
}

// parseTail: "<k> assigns <field exprs>".
func (c *FuncCtx) parseTail(raw string) (int, []ast.Expr) {
	f := strings.Fields(raw)
	if len(f) < 2 || f[1] != "assigns" {
		panic(verr("%s: tail expects: <k> assigns <fields>", c.con.File))
	}
	k, err := strconv.Atoi(f[0])
	if err != nil {
		panic(verr("%s: tail: bad statement index %q", c.con.File, f[0]))
	}
	rest := strings.TrimSpace(raw[strings.Index(raw, "assigns")+7:])
	var out []ast.Expr
	if rest != "" {
		es, err := parseExprList(rest, c.con.File)
		if err != nil {
			panic(verr("%s: tail: %v", c.con.File, err))
		}
		out = es
	}
	return k, out
}

// tailCheck: the unverified tail assigns only locals, the listed fields (or parts of them) and
// memory, and hands neither the receiver nor a pointer / struct parameter itself to a callee.
func (c *FuncCtx) tailCheck(tail []ast.Stmt, fields []ast.Expr) {
	allowed := map[string]bool{}
	for _, f := range fields {
		allowed[exprString(f)] = true
	}
	owners := map[string]bool{} // receiver and parameters of pointer / struct type
	sig := c.fi.Obj.Type().(*types.Signature)
	mark := func(v *types.Var) {
		if v == nil || v.Name() == "" {
			return
		}
		switch v.Type().Underlying().(type) {
		case *types.Pointer, *types.Struct:
			owners[v.Name()] = true
		}
	}
	mark(sig.Recv())
	for i := 0; i < sig.Params().Len(); i++ {
		mark(sig.Params().At(i))
	}
	rootField := func(e ast.Expr) (string, bool) {
		// the longest prefix of e of the form owner.field
		for {
			switch x := e.(type) {
			case *ast.IndexExpr:
				e = x.X
				continue
			case *ast.ParenExpr:
				e = x.X
				continue
			case *ast.StarExpr:
				e = x.X
				continue
			case *ast.SelectorExpr:
				if id, ok := x.X.(*ast.Ident); ok && owners[id.Name] {
					return exprString(x), true
				}
				e = x.X
				continue
			case *ast.Ident:
				return x.Name, false
			}
			return "", false
		}
	}
	for _, st := range tail {
		ast.Inspect(st, func(n ast.Node) bool {
			switch x := n.(type) {
			case *ast.AssignStmt:
				for _, l := range x.Lhs {
					if rf, isField := rootField(l); isField {
						if !allowed[rf] {
							panic(verr("%s: the unverified tail assigns %s, which the tail clause does not list", c.con.File, exprString(l)))
						}
					} else if owners[rf] {
						panic(verr("%s: the unverified tail assigns through %s", c.con.File, rf))
					}
				}
			case *ast.IncDecStmt:
				if rf, isField := rootField(x.X); isField && !allowed[rf] {
					panic(verr("%s: the unverified tail modifies %s", c.con.File, exprString(x.X)))
				}
			case *ast.CallExpr:
				for _, a := range x.Args {
					a = stripParens(a)
					if u, ok := a.(*ast.UnaryExpr); ok && u.Op == token.AND {
						a = stripParens(u.X)
					}
					if id, ok := a.(*ast.Ident); ok && owners[id.Name] {
						panic(verr("%s: the unverified tail passes %s to a call", c.con.File, id.Name))
					}
				}
				if sel, ok := x.Fun.(*ast.SelectorExpr); ok {
					if id, ok := sel.X.(*ast.Ident); ok && owners[id.Name] {
						if _, isMethod := c.info.Selections[sel]; isMethod {
							panic(verr("%s: the unverified tail calls the method %s on %s", c.con.File, sel.Sel.Name, id.Name))
						}
					}
				}
			}
			return true
		})
	}
}

// resolveField: the struct that declares the (possibly promoted) field name of sv, and the field's type.
func (c *FuncCtx) resolveField(st *State, sv *StructV, name string) (*StructV, types.Type) {
	stt, ok := sv.T.Underlying().(*types.Struct)
	if !ok {
		return nil, nil
	}
	for i := 0; i < stt.NumFields(); i++ {
		if f := stt.Field(i); f.Name() == name {
			return sv, f.Type()
		}
	}
	for i := 0; i < stt.NumFields(); i++ {
		f := stt.Field(i)
		if !f.Embedded() {
			continue
		}
		if es, ok := c.field(st, sv, f.Name()).(*StructV); ok {
			if o, t := c.resolveField(st, es, name); t != nil {
				return o, t
			}
		}
	}
	return nil, nil
}

// ceilDivPattern: math.Ceil(float64(e) / c) with e of integer type and c a literal power of two.
func (c *FuncCtx) ceilDivPattern(x ast.Expr) (ast.Expr, int64, bool) {
	call, ok := stripParens(x).(*ast.CallExpr)
	if !ok || len(call.Args) != 1 {
		return nil, 0, false
	}
	f, ok := c.calleeObj(call).(*types.Func)
	if !ok || f.Pkg() == nil || f.Pkg().Path() != "math" || f.Name() != "Ceil" {
		return nil, 0, false
	}
	be, ok := stripParens(call.Args[0]).(*ast.BinaryExpr)
	if !ok || be.Op != token.QUO {
		return nil, 0, false
	}
	conv, ok := stripParens(be.X).(*ast.CallExpr)
	if !ok || len(conv.Args) != 1 {
		return nil, 0, false
	}
	if tv, ok := c.info.Types[conv.Fun]; !ok || !tv.IsType() || !isFloatType(tv.Type) {
		return nil, 0, false
	}
	if _, isInt := intKindOf(c.typeOf(conv.Args[0])); !isInt {
		return nil, 0, false
	}
	tv, ok := c.info.Types[be.Y]
	if !ok || tv.Value == nil {
		return nil, 0, false
	}
	d, exact := constant.Int64Val(constant.ToInt(tv.Value))
	if !exact || d <= 0 || d&(d-1) != 0 || d > 1<<20 {
		return nil, 0, false
	}
	return conv.Args[0], d, true
}

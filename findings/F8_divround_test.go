// Demonstration of finding F8 (property C09): ring.Ring.DivRoundByLastModulus(p0, p1) is not
// documented as in-place but overwrites its input p0 (the last row is centred in place before the
// loop and every lower row is replaced by a lazy negation).  Run with
//   go test -vet=off -overlay <(echo '{"Replace":{"/repo/ring/zz_f8_test.go":"/verif/findings/F8_divround_test.go"}}') -run TestFindingF8 ./ring/
package ring

import "testing"

func TestFindingF8(t *testing.T) {
	r, err := NewRing(16, []uint64{0x1fffffffffe00001, 0x1fffffffffc80001, 0x1fffffffffb40001})
	if err != nil {
		t.Fatal(err)
	}
	p0, p1 := r.NewPoly(), r.AtLevel(r.Level()-1).NewPoly()
	for i := range p0.Coeffs {
		for j := range p0.Coeffs[i] {
			p0.Coeffs[i][j] = uint64(7*i + j + 1)
		}
	}
	snapshot := *p0.CopyNew()
	r.DivRoundByLastModulus(p0, p1)
	if !p0.Equal(&snapshot) {
		t.Fatalf("input p0 was modified: row0[0] %d -> %d, last row[0] %d -> %d", snapshot.Coeffs[0][0], p0.Coeffs[0][0], snapshot.Coeffs[2][0], p0.Coeffs[2][0])
	}
}

package lintrans

import (
	"math/cmplx"
	"testing"

	"github.com/tuneinsight/lattigo/v6/core/rlwe"
	"github.com/tuneinsight/lattigo/v6/schemes/ckks"
)

// A linear transformation whose only non-zero diagonal is the main diagonal (index 0, i.e. a slot-wise
// mask / scaling, "rotation by zero") evaluated with the naive algorithm (LogBabyStepGiantStepRatio < 0)
// must return diag * ct, exactly like the BSGS variant does and like it does when other diagonals are
// present. It needs no Galois key (GaloisElements advertises only the identity).
func TestDemoC11LinTransOnlyMainDiagonalNaive(t *testing.T) {

	params, err := ckks.NewParametersFromLiteral(ckks.ParametersLiteral{
		LogN:            5,
		LogQ:            []int{55, 45},
		LogP:            []int{56},
		LogDefaultScale: 30,
	})
	if err != nil {
		t.Fatal(err)
	}

	kgen := rlwe.NewKeyGenerator(params)
	sk := kgen.GenSecretKeyNew()
	enc := rlwe.NewEncryptor(params, sk)
	dec := rlwe.NewDecryptor(params, sk)
	ecd := ckks.NewEncoder(params)

	slots := params.MaxSlots()
	v := make([]complex128, slots)
	diag := make([]complex128, slots)
	want := make([]complex128, slots)
	for i := range v {
		v[i] = complex(float64(i+1), float64(-i))
		diag[i] = complex(float64(i%3+1), 0)
		want[i] = v[i] * diag[i]
	}

	pt := ckks.NewPlaintext(params, params.MaxLevel())
	if err := ecd.Encode(v, pt); err != nil {
		t.Fatal(err)
	}
	ct, err := enc.EncryptNew(pt)
	if err != nil {
		t.Fatal(err)
	}

	for _, ratio := range []int{0, -1} { // 0: BSGS (reference behaviour), -1: naive
		diagonals := Diagonals[complex128]{0: diag}

		ltparams := Parameters{
			DiagonalsIndexList:        diagonals.DiagonalsIndexList(),
			LevelQ:                    ct.Level(),
			LevelP:                    params.MaxLevelP(),
			Scale:                     rlwe.NewScale(1 << 30),
			LogDimensions:             ct.LogDimensions,
			LogBabyStepGiantStepRatio: ratio,
		}

		lt := NewTransformation(params, ltparams)
		if err := Encode(ecd, diagonals, lt); err != nil {
			t.Fatal(err)
		}

		evk := rlwe.NewMemEvaluationKeySet(nil, kgen.GenGaloisKeysNew(lt.GaloisElements(params), sk)...)
		ltEval := NewEvaluator(ckks.NewEvaluator(params, evk))

		// In-place evaluation, as done by the library's own tests.
		out := ct.CopyNew()
		if err := ltEval.Evaluate(out, lt, out); err != nil {
			t.Fatalf("ratio=%d: %v", ratio, err)
		}

		have := make([]complex128, slots)
		if err := ecd.Decode(dec.DecryptNew(out), have); err != nil {
			t.Fatal(err)
		}
		for i := range have {
			if cmplx.Abs(have[i]-want[i]) > 1e-3 {
				t.Errorf("LogBabyStepGiantStepRatio=%d: slot %d: have %v want %v", ratio, i, have[i], want[i])
				break
			}
		}
	}
}

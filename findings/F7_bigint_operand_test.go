package probe2

import (
	"math/big"
	"testing"

	"github.com/tuneinsight/lattigo/v6/core/rlwe"
	"github.com/tuneinsight/lattigo/v6/schemes/bgv"
)

// F7: bgv.Evaluator.Add / Mul / MulThenAdd with a *big.Int operand modified the caller's scalar.
func TestBigIntOperandIntact(t *testing.T) {
	p, err := bgv.NewParametersFromLiteral(bgv.ParametersLiteral{LogN: 10, LogQ: []int{50, 40}, LogP: []int{50}, PlaintextModulus: 0x10001})
	if err != nil {
		t.Fatal(err)
	}
	kg := rlwe.NewKeyGenerator(p)
	sk := kg.GenSecretKeyNew()
	enc := rlwe.NewEncryptor(p, sk)
	eval := bgv.NewEvaluator(p, nil)
	pt := bgv.NewPlaintext(p, p.MaxLevel())
	ct, _ := enc.EncryptNew(pt)
	for _, op := range []string{"Add", "Mul", "MulThenAdd"} {
		s := big.NewInt(0x10001 + 7) // larger than t: the in-place reduction is visible
		out := ct.CopyNew()
		switch op {
		case "Add":
			err = eval.Add(ct, s, out)
		case "Mul":
			err = eval.Mul(ct, s, out)
		case "MulThenAdd":
			err = eval.MulThenAdd(ct, s, out)
		}
		if err != nil {
			t.Fatal(op, err)
		}
		if s.Cmp(big.NewInt(0x10001+7)) != 0 {
			t.Errorf("%s modified its *big.Int operand: 65544 became %s", op, s)
		}
	}
}

package bgv

import (
	"fmt"
	"testing"

	"github.com/tuneinsight/lattigo/v6/core/rlwe"
)

// A ciphertext x ciphertext product (BGV tensoring) written to a receiver of degree 0
// must either be reported as an error (the documentation of Mul / MulRelin says
// "will return an error if opOut.Degree != op0.Degree + op1.Degree") or resize the
// receiver like every other operation of the evaluator does (Add, Mul with a plaintext,
// MulScaleInvariant, Rescale...). It must not panic.
func TestC05DegreeZeroReceiver(t *testing.T) {

	params, err := NewParametersFromLiteral(ParametersLiteral{
		LogN:             5,
		Q:                []uint64{0x10000000006e0001, 0xfffffffff840001},
		P:                []uint64{0x1fffffffffe00001},
		PlaintextModulus: 65537,
	})
	if err != nil {
		t.Fatal(err)
	}

	T := params.PlaintextModulus()
	kgen := rlwe.NewKeyGenerator(params)
	sk := kgen.GenSecretKeyNew()
	enc := rlwe.NewEncryptor(params, sk)
	dec := rlwe.NewDecryptor(params, sk)
	ecd := NewEncoder(params)
	eval := NewEvaluator(params, rlwe.NewMemEvaluationKeySet(kgen.GenRelinearizationKeyNew(sk)))

	a := make([]uint64, params.MaxSlots())
	b := make([]uint64, params.MaxSlots())
	want := make([]uint64, params.MaxSlots())
	for i := range a {
		a[i] = uint64(3*i+1) % T
		b[i] = uint64(7*i+5) % T
		want[i] = a[i] * b[i] % T
	}

	encrypt := func(v []uint64) *rlwe.Ciphertext {
		pt := NewPlaintext(params, params.MaxLevel())
		if err := ecd.Encode(v, pt); err != nil {
			t.Fatal(err)
		}
		ct, err := enc.EncryptNew(pt)
		if err != nil {
			t.Fatal(err)
		}
		return ct
	}

	ct0, ct1 := encrypt(a), encrypt(b)

	for _, tc := range []struct {
		name string
		op   func(op0 *rlwe.Ciphertext, op1 rlwe.Operand, opOut *rlwe.Ciphertext) error
	}{
		{"Mul", eval.Mul},
		{"MulRelin", eval.MulRelin},
		{"MulThenAdd", eval.MulThenAdd},
		{"MulRelinThenAdd", eval.MulRelinThenAdd},
	} {
		t.Run(tc.name, func(t *testing.T) {

			// all-zero receiver of degree 0 (for the ThenAdd variants: an accumulator equal to zero)
			opOut := NewCiphertext(params, 0, params.MaxLevel())

			var err error
			var pan interface{}
			func() {
				defer func() { pan = recover() }()
				err = tc.op(ct0, ct1, opOut)
			}()

			if pan != nil {
				t.Fatalf("%s(ct, ct, receiver of degree 0) panics instead of returning an error or resizing the receiver: %v", tc.name, pan)
			}

			if err != nil {
				return // reported as an error: acceptable
			}

			have := make([]uint64, params.MaxSlots())
			if err := ecd.Decode(dec.DecryptNew(opOut), have); err != nil {
				t.Fatal(err)
			}

			if fmt.Sprint(have) != fmt.Sprint(want) {
				t.Fatalf("%s: no error and wrong result", tc.name)
			}
		})
	}
}

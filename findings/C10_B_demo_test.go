// place in: circuits/ckks/bootstrapping
package bootstrapping

import (
	"fmt"
	"testing"

	"github.com/stretchr/testify/require"

	"github.com/tuneinsight/lattigo/v6/core/rlwe"
	"github.com/tuneinsight/lattigo/v6/ring"
	"github.com/tuneinsight/lattigo/v6/schemes/ckks"
	"github.com/tuneinsight/lattigo/v6/utils"
	"github.com/tuneinsight/lattigo/v6/utils/sampling"
)

// TestDemoShallowCopyKeepsXPow2InvN1 demonstrates that Evaluator.ShallowCopy drops the field
// xPow2InvN1, which is required by BootstrapMany (UnpackAndSwitchN2ToN1 -> unpack in N1) when
// the residual parameters have a smaller ring degree than the bootstrapping parameters and
// the ciphertexts are sparsely packed.
//
// Same (insecure, fast) setting as TestBootstrapping/BootstrappingPackedWithRingDegreeSwitch.
func TestDemoShallowCopyKeepsXPow2InvN1(t *testing.T) {

	schemeParamsLit := testPrec45
	btpParamsLit := ParametersLiteral{}

	btpParamsLit.LogN = utils.Pointy(schemeParamsLit.LogN)
	schemeParamsLit.LogNthRoot = schemeParamsLit.LogN + 1
	schemeParamsLit.LogN -= 3 // N1 = N2/8

	params, err := ckks.NewParametersFromLiteral(schemeParamsLit)
	require.Nil(t, err)

	btpParamsLit.LogMessageRatio = utils.Pointy(DefaultLogMessageRatio + (16 - params.LogN()))
	btpParamsLit.LogSlots = utils.Pointy(*btpParamsLit.LogN - 1)

	btpParams, err := NewParametersFromLiteral(params, btpParamsLit)
	require.Nil(t, err)

	sk := rlwe.NewKeyGenerator(params).GenSecretKeyNew()
	ecd := ckks.NewEncoder(params)
	enc := rlwe.NewEncryptor(params, sk)
	dec := rlwe.NewDecryptor(params, sk)

	btpKeys, _, err := btpParams.GenEvaluationKeys(sk)
	require.Nil(t, err)

	evaluator, err := NewEvaluator(btpParams, btpKeys)
	require.Nil(t, err)

	cpy := evaluator.ShallowCopy()

	t.Run("Field", func(t *testing.T) {
		require.NotEmpty(t, evaluator.xPow2InvN1, "original must have xPow2InvN1 since N1 != N2")
		require.Equal(t, len(evaluator.xPow2InvN1), len(cpy.xPow2InvN1), "ShallowCopy must carry xPow2InvN1")
	})

	// Sparse ciphertexts in N1: 2^{logMaxSlots(N1)-2} slots, so 4 of them are packed in one ciphertext of N1
	// and have to be unpacked (in N1) after the bootstrapping.
	logSlots := params.LogMaxSlots() - 2

	values := make([]complex128, 1<<logSlots)
	for i := range values {
		values[i] = sampling.RandComplex128(-1, 1)
	}

	newCts := func() (cts []rlwe.Ciphertext) {
		pt := ckks.NewPlaintext(params, 0)
		pt.LogDimensions = ring.Dimensions{Rows: 0, Cols: logSlots}
		cts = make([]rlwe.Ciphertext, 5)
		for i := range cts {
			require.NoError(t, ecd.Encode(utils.RotateSlice(values, i), pt))
			ct, err := enc.EncryptNew(pt)
			require.NoError(t, err)
			cts[i] = *ct
		}
		return
	}

	run := func(t *testing.T, eval *Evaluator) {
		cts := newCts()

		var err error
		func() {
			defer func() {
				if r := recover(); r != nil {
					err = fmt.Errorf("BootstrapMany panicked: %v", r)
				}
			}()
			cts, err = eval.BootstrapMany(cts)
		}()
		require.NoError(t, err)

		require.Equal(t, 5, len(cts))
		for i := range cts {
			require.True(t, cts[i].Level() == params.MaxLevel())
			require.True(t, cts[i].Scale.Equal(params.DefaultScale()))
			verifyTestVectorsBootstrapping(params, ecd, dec, utils.RotateSlice(values, i), &cts[i], t)
		}
	}

	t.Run("BootstrapMany/Original", func(t *testing.T) { run(t, evaluator) })
	t.Run("BootstrapMany/ShallowCopy", func(t *testing.T) { run(t, cpy) })
}

package bgv

// Finding F44 (property C05): MulThenAdd(op0, scalar, acc) resizes the accumulator to the DEGREE of op0
// and keeps the accumulator's LEVEL: an accumulator of degree 2 loses its third component, and an
// accumulator at a higher level than op0 keeps stale residues on the upper moduli.  Both give a wrong
// plaintext without an error (the ciphertext-operand branch resizes to the common level and keeps the degree).

import (
	"slices"
	"testing"

	"github.com/tuneinsight/lattigo/v6/core/rlwe"
)

func TestF44MulThenAddScalarReceiver(t *testing.T) {
	params, err := NewParametersFromLiteral(ParametersLiteral{LogN: 10, LogQ: []int{54, 49, 49}, LogP: []int{52}, PlaintextModulus: 65537})
	if err != nil {
		t.Fatal(err)
	}
	T := params.PlaintextModulus()
	kgen := rlwe.NewKeyGenerator(params)
	sk := kgen.GenSecretKeyNew()
	ecd := NewEncoder(params)
	enc := rlwe.NewEncryptor(params, sk)
	dec := rlwe.NewDecryptor(params, sk)
	eval := NewEvaluator(params, nil)

	mk := func(level int, f func(i int) uint64) (*rlwe.Ciphertext, []uint64) {
		v := make([]uint64, params.MaxSlots())
		for i := range v {
			v[i] = f(i) % T
		}
		pt := NewPlaintext(params, level)
		if err := ecd.Encode(v, pt); err != nil {
			t.Fatal(err)
		}
		ct, err := enc.EncryptNew(pt)
		if err != nil {
			t.Fatal(err)
		}
		return ct, v
	}
	decode := func(ct *rlwe.Ciphertext) []uint64 {
		v := make([]uint64, params.MaxSlots())
		if err := ecd.Decode(dec.DecryptNew(ct), v); err != nil {
			t.Fatal(err)
		}
		return v
	}
	// 1) accumulator of degree 2
	cta, a := mk(params.MaxLevel(), func(i int) uint64 { return uint64(3*i + 2) })
	ctb, b := mk(params.MaxLevel(), func(i int) uint64 { return uint64(7*i + 5) })
	ctc, c := mk(params.MaxLevel(), func(i int) uint64 { return uint64(i + 11) })
	acc, err := eval.MulNew(ctb, ctc)
	if err != nil {
		t.Fatal(err)
	}
	want := make([]uint64, len(a))
	for i := range want {
		want[i] = ((b[i]*c[i])%T + 3*a[i]) % T
	}
	if err := eval.MulThenAdd(cta, uint64(3), acc); err == nil {
		if have := decode(acc); !slices.Equal(have, want) {
			t.Errorf("b*c + 3*a (accumulator of degree 2): no error, degree %d, slots 0..3 = %v, want %v", acc.Degree(), have[:4], want[:4])
		}
	}
	// 2) accumulator at a higher level than the operand
	lo, x := mk(0, func(i int) uint64 { return uint64(5*i + 1) })
	hi, y := mk(params.MaxLevel(), func(i int) uint64 { return uint64(2*i + 7) })
	want2 := make([]uint64, len(x))
	for i := range want2 {
		want2[i] = (y[i] + 3*x[i]) % T
	}
	if err := eval.MulThenAdd(lo, uint64(3), hi); err == nil {
		if have := decode(hi); !slices.Equal(have, want2) {
			t.Errorf("y + 3*x (operand at level 0, accumulator at level %d): no error, level %d, slots 0..3 = %v, want %v", params.MaxLevel(), hi.Level(), have[:4], want2[:4])
		}
	}
}

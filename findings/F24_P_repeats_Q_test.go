package rlwe

// Finding F24 (property C19): neither CheckModuli nor NewParameters compares the Q moduli with
// the P moduli (each ring only checks its own chain for duplicates).  A literal whose auxiliary
// basis P repeats a prime of Q is accepted; the basis extension needs P invertible modulo every
// q_i, so key switching silently returns garbage.

import (
	"testing"
)

func TestF24PRepeatsQ(t *testing.T) {
	q0, q1 := uint64(0x1fffffffffe00001), uint64(0x1fffffffffc80001)
	params, err := NewParametersFromLiteral(ParametersLiteral{LogN: 10, Q: []uint64{q0, q1}, P: []uint64{q0}, NTTFlag: true})
	if err != nil {
		return // rejected with an error: the expected behaviour
	}
	kgen := NewKeyGenerator(params)
	sk, skOut := kgen.GenSecretKeyNew(), kgen.GenSecretKeyNew()
	evk := kgen.GenEvaluationKeyNew(sk, skOut)
	eval := NewEvaluator(params, nil)
	level := params.MaxLevel()
	ct := NewEncryptor(params, sk).EncryptZeroNew(level)
	if err = eval.ApplyEvaluationKey(ct, evk, ct); err != nil {
		t.Fatalf("ApplyEvaluationKey: %v", err)
	}
	pt := NewDecryptor(params, skOut).DecryptNew(ct)
	ringQ := params.RingQ().AtLevel(level)
	if pt.IsNTT {
		ringQ.INTT(pt.Value, pt.Value)
	}
	// Q has 122 bits: a correct key switch leaves noise of a few dozen bits, a uniform value ~120
	if noise := ringQ.Log2OfStandardDeviation(pt.Value); noise > 60 {
		t.Fatalf("literal with P = {Q[0]} is accepted and a key-switched encryption of zero decrypts to log2(std) = %.1f", noise)
	}
}

package main

// Per-property configuration of the registered checks.

var stdTrusted = []string{
	"go/packages + go/types front end (x/tools v0.29.0)",
	"mathematical lemmas stated in DESIGN.md section 5 (CRT isomorphism, Fermat for the oracle-prime moduli, Cooley-Tukey composition)",
}

func copySimple(id string) func(prog *Program, repo, tier string) ([]simpleObligation, []string) {
	return func(prog *Program, repo, tier string) ([]simpleObligation, []string) {
		return copyObligations(prog, id), nil
	}
}

// copyAndLanes: the structural obligations of a property (copy constructors, 8-lane unrolled code).
func copyAndLanes(id string) func(prog *Program, repo, tier string) ([]simpleObligation, []string) {
	return func(prog *Program, repo, tier string) ([]simpleObligation, []string) {
		out := append(copyObligations(prog, id), laneObligations(prog, id)...)
		out = append(out, storesViaObligations(prog, id)...)
		out = append(out, unrolledObligations(prog, id)...)
		out = append(out, noEscapeObligations(prog, id)...)
		out = append(out, fieldOrderObligations(prog, id)...)
		return append(out, readonlyObligations(prog, id)...), nil
	}
}

var engineBAssumptions = []string{
	"Engine B executes the go/ssa form of the function under contract; polynomials are elements of an abstract commutative ring (ghost val/mexp/domain), so an ensures clause is a polynomial identity over the integers that then holds in Z_Q[X]/(X^N+1)",
	"arithmetic leaves (ring.Ring methods, samplers, Poly.Copy/Resize, ExtendBasisSmallNormAndCenter) carry ASSUMED abstract contracts: the ring-element reading of the coefficient-level contracts of property C01/C02 (link: CRT, row-wise congruence on every modulus = equality in the ring)",
	"module functions called without a contract are executed inline (transparent accessors such as Level(), Degree(), RingQ(), AtLevel()); calls leaving the module are assumed not to touch polynomial storage",
	"distinct access paths from the inputs denote distinct storage unless the contract declares an alias (case ... ; alias / set)",
	"machine integers above the ring layer (levels, degrees) are mathematical; loops are unwound to the contract's bound with an unwinding obligation",
	"symbolic pointers inside inputs are non-nil unless the contract sets them nil (e.g. parameter sets without auxiliary modulus P are covered only where a case says so)",
	"a slice of machine words handed to a ring-level leaf (an RNS scalar) is a ring element too, keyed by its backing array: copy(dst, src) with equal lengths transfers the ghost attributes, a direct store of a residue forgets them; the ROWS of polynomials are not followed (a leaf's row preconditions `rowsafe` are obligations only where the caller's contract says `safety rows`)",
	"NOT decided: noise magnitude, statistical quality of the samples, anything about serialization",
}

var propertyConfigs = map[string]*propertyConfig{
	"C03": {
		ID: "C03", Packages: []string{"./..."}, Level: "proof",
		Explain: "Abstract contracts (afunc blocks in core/rlwe/zz_contracts_verif.go) on secret-key encryption of zero (both the Q and the QP variant, every NTT flag and degree case), its dispatcher for *Ciphertext, public-key encryption without P, and Decrypt (degree 1 and 2): " +
			"c0 + c1*s equals exactly one fresh draw of the declared error distribution, public-key encryption adds two distinct error draws and one secret draw, decryption computes c0 + c1*s (+ c2*s^2) and copies the metadata.  The zero encryption is in Montgomery form exactly when the receiver's metadata say so, on the secret-key path and on the public-key path without P (finding F47).  Added in 13.42: a receiver of degree 2 gets its uniform component in the domain its metadata announce (finding F85: it stayed in the NTT domain when IsNTT is false; the clause had read `degree 1` from the code), and the zero encryption over QP is in Montgomery form exactly when the metadata say so (finding F86; contract per flag, as for the ciphertext variant).",
		Assumptions: engineBAssumptions, Trusted: stdTrusted,
	},
	"C05": {
		ID: "C05", Packages: []string{"./..."}, Level: "proof",
		Explain: "Per-call clauses of the property, for the integer evaluator (one call, not programs).  bgv.Evaluator.Add / Sub with a ciphertext operand, degrees (1,1), (1,2), (2,1), receiver distinct, equal to the first or equal to the second operand: " +
			"at equal scales the result is the component-wise sum / difference in the ring, a component only one operand has is copied - negated when it is the subtrahend's (finding F39) - and the output has the larger degree; " +
			"at different scales the result is r0*op0 +- r1*op1 with the two factors of matchScalesBinary (named, not interpreted), also when the receiver is the second operand (finding F32).  " +
			"Add / Sub / Mul with an integer scalar: the output records the scale of the input whatever the receiver held (finding F34), has the degree of the input, and addition copies the untouched components.  " +
			"Mul with a ciphertext operand (BGV style, no relinearisation; receiver distinct or equal to either operand): the degree-2 tensor (a0*b0, a0*b1 + a1*b0, a1*b1), every component times the plaintext modulus T (the evaluator's RNS scalar, named, ASSUMED in double Montgomery form), out of the Montgomery domain, output of degree 2.  " +
			"With a PLAINTEXT operand at equal scales: the plaintext takes part in the first component only (Add / Sub) or multiplies every component, times T (Mul); the other components are copied.  " +
			"MulRelin: the third component of the tensor goes through the gadget product with the key set's relinearisation key (both NAMED), degree 1; without a key set it returns an error in both styles and dereferences nothing nil (finding F43).  A product of operands of total degree 3 is refused.  MulThenAdd with a scalar: the accumulator keeps its degree and ends at the common level (finding F44).  Signed machine scalars (int64): their conversion never wraps (obligation kind overflow).  A receiver of higher degree than both operands gets the missing component cleared (finding F42).  " +
			"RotateColumns / RotateRows: the automorphism of the ciphertext (contract of C04) for the Galois element of the rotation (NAMED uf_galel(k); that it is 5^k is property C11), respectively for the element of order two.  " +
			"Rescale: on success the receiver has the degree of the input whatever degree it had (finding F40), the input's flags, the input's scale divided by the consumed prime (named), rounded quotients of the input's components (named), no index is out of range (obligation kind index), and an input at level 0 is refused with an error.  Mul with two ciphertexts also into a receiver of degree 0 (clause safety index; finding F69: the receiver was indexed before it was resized).",
		Assumptions: append(append([]string{}, engineBAssumptions...), "scales are compared and converted by TRUSTED leaves whose outcome is NAMED by uninterpreted functions of the scale's contents (cmpval, uf_scale64, uf_msb0/1): the contracts say which branch a comparison selects and which factors are applied, not what the factors are",
			"Ring.MulScalar, MulScalarThenAdd / ThenSub, DivRoundByLastModulusNTT, Scale.Mul / Div and the big-integer scalar products are TRUSTED abstract leaves (ring-element reading of the row-level contracts of C01 / C02)",
			"NOT decided: anything about programs (noise budget, exactness after decoding), the value of the scale-matching factors and of the recorded scale after scale matching, relinearisation, multiply-then-add, the scale-invariant (BFV) style, the scale recorded by a product, plaintext and vector operands, the VALUE of a rescaled component (rounded division is not a ring operation)"),
		Trusted:     stdTrusted, Simple: copyAndLanes("C05"),
	},
	"C06": {
		ID: "C06", Packages: []string{"./..."}, Level: "proof",
		Explain: "Per-call clauses of the property that involve no floating point (one call of the approximate evaluator, not programs).  ckks.Evaluator.Add / Sub with a ciphertext operand at EQUAL scales (no operand has to be rescaled), degrees (1,1), (1,2), (2,1), receiver distinct or equal to either operand: the component-wise sum / difference in the ring, a component only one operand has is copied - negated when it is the subtrahend's - and the output has the larger degree.  " +
			"Add / Sub with a real scalar: the output records the scale of the input whatever the receiver held (finding F34), has the degree of the input, and the untouched components are copied.  " +
			"Mul of two degree-1 ciphertexts without relinearisation: the degree-2 tensor (a0*b0, a0*b1 + a1*b0, a1*b1) out of the Montgomery domain, receiver distinct or equal to either operand.  " +
			"With a PLAINTEXT operand at equal scales: the plaintext takes part in the first component only (Add / Sub) or multiplies every component (Mul).  MulRelin: the third component of the tensor goes through the gadget product with the key set's relinearisation key (both NAMED), degree 1.  MulThenAdd with a scalar: the accumulator keeps its degree and ends at the common level (finding F44).  A product of operands of total degree 3 is refused.  " +
			"Rotate / Conjugate: the automorphism of the ciphertext (contract of C04) for the Galois element of the rotation (NAMED uf_galel(k); that it is 5^k is property C11), respectively for the element of order two.  " +
			"Rescale: on success the receiver has the degree and flags of the input whatever it held, every index is in range (obligation kind index), and an input at level 0 is refused with an error.  RescaleTo (bounded instance, input at level 1; clause safety rows) never asks for a negative level: it stops at level 0 (finding F81).  Mul with a real scalar (clause safety index): no index below zero when fewer levels are left than one rescaling consumes (finding F84).",
		Assumptions: append(append([]string{}, engineBAssumptions...), "the outcome of comparing two scales is NAMED (cmpval), not interpreted: the contracts cover the branch for equal scales",
			"the conversion of a scalar to RNS form (bigComplexToRNSScalar), the row operation with a scalar (evaluateWithScalar), Scale.Mul / Div and the rounded divisions are TRUSTED abstract leaves",
			"NOT decided: everything numerical (approximation error, precision, noise), operands at different scales (integer ratio rescaling), the VALUE of the scale recorded by a product or a rescale, relinearisation, rotations, plaintext and vector operands, programs"),
		Trusted:     stdTrusted, Simple: copyAndLanes("C06"),
	},
	"C20": {
		ID: "C20", Packages: []string{"./..."}, Level: "proof",
		Explain: "Per-call structure of the RGSW operations.  rgsw.Evaluator.ExternalProduct, in place and out of place, with no, one and two auxiliary moduli: the two inner products with the gadget rows that were computed (NAMED uf_ep0q/p, uf_ep1q/p: functions of the two components of the input and of the RGSW ciphertext) are the ones handed to the division by P (NAMED uf_moddown), and the quotients are what the receiver holds (finding F45: out of place with two P the Q part came from the receiver's old contents).  " +
			"BOUNDED instances (one ragged gadget shape, loops unwound; reported under coverage.bounded, never counted as proved): AddLazy (ciphertext operand), MulByXPowAlphaMinusOneLazy, MulByXPowAlphaMinusOneThenAddLazy and Reduce act component by component on both gadget matrices and both bases - 24 ring identities each (\"RGSW ciphertexts add and multiply by X^a - 1 as their plaintexts do\").  " +
			"rgsw.Encryptor.Encrypt (four domain / Montgomery cases of the plaintext): the plaintext is read, never written (finding F48), and the gadget product is handed a plaintext in NTT and Montgomery form; EncryptZero forwards a receiver that is not an RGSW ciphertext as it is (finding F49).  The product comes back in the DOMAIN of the input: both components are in the domain the input's flag announces, for NTT and coefficient-domain inputs (finding F83; the inner-product leaves and the division by P are stated to produce NTT-domain polynomials).",
		Assumptions: append(append([]string{}, engineBAssumptions...), "the inner products of the external product (externalProductInPlaceSinglePAndBitDecomp, externalProductInPlaceMultipleP) and the division by P (ModDownQPtoQNTT) are TRUSTED leaves that write their outputs only; what they compute is named, not interpreted (their digit arithmetic is under the contracts of C02)",
			"NOT decided: that the external product decrypts to m*g, every noise bound, the 32-bit fast path, RGSW encryption, blind rotation (accumulator loop, test polynomial, key generation), plaintext operands of AddLazy"),
		Trusted:     stdTrusted, Simple: copyAndLanes("C20"),
	},
	"C04": {
		ID: "C04", Packages: []string{"./..."}, Level: "proof",
		Explain: "Per-call structure of key switching (one call, same ring degree).  rlwe.Evaluator.ApplyEvaluationKey, in place and out of place: the output is (c0 + gp0, gp1) where (gp0, gp1) is the gadget product of the input's SECOND component with the given key (NAMED uf_gp0 / uf_gp1: functions of the ring element and of the gadget ciphertext), and carries the input's flags and scale.  " +
			"Relinearize (receiver of degree 1 or 2, or the input): (c0 + gp0, c1 + gp1) with the gadget product of the THIRD component and the relinearisation key of the key set (NAMED uf_rlk), degree 1.  " +
			"Automorphism, in the coefficient domain and in the NTT domain: the automorphism of BOTH components of the key switch with the Galois key of the element (NAMED uf_gk) - by the element (uf_autom), respectively with the index table the evaluator's map holds for it (uf_automidx; maps with integer keys are modelled); CheckAndGetGaloisKey hands out that key.  Every one of them leaves the output at the COMMON level of input and receiver (finding F46; Element.Resize carries the number of rows).  " +
			"Typed-AST engine: rlwe.Parameters.BaseTwoDecompositionVectorSize gives every modulus enough power-of-two digits to cover its bit length, base[k] * w >= bitlen(q_k) (finding F50; Lean lemma div_ceil).  " +
			"rlwe.Parameters.PiOverflowMargin never hands slices.Max an empty list and answers -1 for level -1 (an evaluation key generated without P under parameters that have one; finding F59).",
		Assumptions: append(append([]string{}, engineBAssumptions...), "the gadget product, the automorphism of a ring element and the key-set accessors are TRUSTED leaves that write their outputs only; what they compute is named, not interpreted (digit arithmetic: contracts of C02; automorphism tables: C01 / C11)",
			"NOT decided: that the result decrypts to the transformed plaintext, every noise bound, switching between ring degrees, the hoisted and lazy variants, extract / repack, compressed keys"),
		Trusted:     stdTrusted, Simple: copyAndLanes("C04"),
	},
	"C14": {
		ID: "C14", Packages: []string{"./..."}, Level: "proof",
		Explain: "Abstract contracts on the collective public-key protocol: GenShare = e_i - s_i*crp with one fresh error draw, in NTT/Montgomery form on Q and P; AggregateShares = +; GenPublicKey = (aggregate, crp). " +
			"Lemma over the contracts (stated): aggregation being + in a commutative ring, the key is (sum e_i - (sum s_i)*crp, crp) for every order and grouping.  " +
			"Galois keys: AggregateShares keeps the Galois element and refuses shares of different elements; GenShare tags the share with the element and returns (no nil dereference, obligation kind nil-deref under `nilsafe`) with and without an auxiliary modulus P (finding F29).  " +
			"Share generation of evaluation keys and of round one of the relinearisation key, PREFIX contracts (clause `upto firstloop`: the state in which the digit loops start; the loops themselves are not covered): the buffer holds the secret-key term (P*s_i, or s_i itself without auxiliary modulus) in the NTT domain, OUT of the Montgomery domain for the relinearisation key (it is added to an error that is not in Montgomery form) and IN Montgomery form for evaluation keys, and the ephemeral secret is in NTT and Montgomery form, with and without P.  " +
			"Finalisation (EvaluationKeyGenProtocol.GenEvaluationKey, a BOUNDED instance labelled #ragged: two RNS components with one and two power-of-two digits): every digit of the aggregated share and of the reference polynomials reaches the key (finding F28).  Refusal of mismatched shares, one more clause (bounded shape): EvaluationKeyGenProtocol.AggregateShares - hence the Galois-key protocol - returns an error for shares whose power-of-two decomposition differs (finding F68: it compared levels only and added the shares digit by digit).",
		Assumptions: append(append([]string{}, engineBAssumptions...), "BOUNDED, not a proof: the GenEvaluationKey obligations are for one ragged shape (digit counts [1 2], loops unwound); the general statement needs an invariant over a ragged matrix, which the abstract engine does not have",
			"NOT decided: the GenShare digit loops of the evaluation-key and relinearisation-key protocols (row-level gadget factors; only the state they start from is under contract), noise bounds, the common reference string"), Trusted: stdTrusted,
	},
	"C15": {
		ID: "C15", Packages: []string{"./..."}, Level: "proof",
		Explain: "Refusal clause of the property: Combiner.GenAdditiveShare under the precondition len(activesPoints) < threshold returns a non-nil error on every path (and no path with fewer than t actives reaches the combination loop).  " +
			"Plus, on the typed-AST engine: ring.Ring.NewRNSScalarFromUInt64 (the RNS form of a party's public point, from which the Lagrange coefficients are built) returns exactly v mod q_i for every modulus of the level and every uint64 v; the RNS scalar operations the Lagrange coefficient is assembled from (MFormRNSScalar, NegRNSScalar, SubRNSScalar, MulRNSScalar) compute, modulus by modulus, the Montgomery form, q - x, the reduced difference and the lazy Montgomery product of their inputs, for same-or-disjoint operands.  " +
			"Share generation: ring.Ring.EvalPolyScalar (the Horner evaluation of the secret polynomial at a party's public point) is under a safety contract for every length (indices in range, callee preconditions) and, as a BOUNDED instance (three coefficients, loop unwound; unsigned machine products wrap modulo 2^64), computes p1[0] + p1[1]*x + p1[2]*x^2 in the ring.  " +
			"NewCombiner (abstract contract, bounded instance: one Q modulus, no P, at most two other parties) owes Combiner.lagrangeCoeff its precondition: the two public points are distinct modulo every modulus (ghost predicate distinctmod); it does not establish it - recorded as a known finding; with one other party, the table entry it stores under that party's point is x_j * inv(x_j - x_own) in Montgomery form.  " +
			"On the abstract engine an RNS scalar is a ring element (val / mexp keyed by its backing array; a direct store of a residue forgets them): Combiner.lagrangeCoeff is VERIFIED over the ring-element readings of the scalar operations (assumed leaves of ringqp; their row-level contracts are the typed-AST ones above): x_that * inv(x_that - x_this), one Montgomery factor, the inverse a named function.  " +
			"Combiner.GenAdditiveShare, BOUNDED instance (threshold 3, three listed parties, loop unwound, no P): the additive share is the party's Shamir share times the product of the cached factors of the OTHER listed parties, wherever the party itself stands in the list (8 paths), with the Montgomery exponent of the share; the cached factors and the constant one are unchanged afterwards (a second call on the same combiner reads them again).",
		Assumptions: append(append([]string{}, engineBAssumptions...), "ring.ModexpMontgomery is verified against pow: the result is the Montgomery representative of (value of x)^e, where the value of a representative t is t*winv with 2^64*winv = 1 (mod q) (loop invariant; inductive power lemmas checked by Lean); Ring.Inverse applies it with exponent q_i - 2 to every residue; that b*b^(q-2) = 1 (mod q) for a prime q not dividing b is the Lean theorem fermat_inverse, a lemma over that contract",
			"ASSUMED: the combiner's constant `one` holds 1 in Montgomery form (NewCombiner writes its residues one by one: outside the abstract engine); cached factors of different listed points are distinct arrays (the points are required distinct).  NOT decided: thresholds other than 3 for the product; that the product of the pairwise factors is the Lagrange coefficient at 0 and that the shares of any t parties therefore sum to the secret (the interpolation identity, a lemma over these contracts that is not formalised); order independence beyond the position of the own point"),
		Trusted: append(append([]string{}, stdTrusted...), "Lean 4.33.0 kernel + Mathlib v4.33.0 (inductive lemmas, Fermat)"),
		Extra: func(prog *Program, tier string) ([]*Obligation, []string) {
			return []*Obligation{{Name: "lean/fermat_inverse", Func: "extra:lemmas-over-contracts", Kind: "lemma", Goal: TFalse, Lean: "fermat_inverse"}},
				[]string{"the Fermat inverse (lemma over the contract of Ring.Inverse) is the Lean theorem fermat_inverse in /verif/lean/PowLemmas.lean, checked on this run"}
		},
	},
	"C18": {
		ID: "C18", Packages: []string{"./..."}, Level: "proof",
		Explain: "Last sentence of the property only: in genEncapsulationEvaluationKeysNew every evaluation key whose OUTPUT secret is the ephemeral sparse secret is generated by a key generator built from a parameter literal with exactly one Q and one P modulus (Q[:1], P[:1]); " +
			"carried by ghost labels nq/np/sparsekey through assumed labelling contracts on NewParametersFromLiteral, NewKeyGenerator, GenSecretKeyWithHammingWeightNew and as a precondition of GenEvaluationKeyNew.",
		Assumptions: append(append([]string{}, engineBAssumptions...), "NOT decided: everything about bootstrapping precision, levels, DFT / mod-1 approximations (float, noise)"),
		Trusted: stdTrusted,
	},
	"C08": {
		ID: "C08", Packages: []string{"./..."}, Level: "proof",
		Explain: "Count level of the property.  Every serializable composite type (ring.Poly, ringqp.Poly, rlwe Element/Plaintext/keys/key sets/gadget ciphertexts/metadata readers, rgsw.Ciphertext, all multiparty shares, bootstrapping.EvaluationKeys, PowerBasis) is under the same three clauses: " +
			"WriteTo reports on success exactly the number of bytes the value announces (announced(x) = the BinarySize method executed on the same symbolic state), and leaves nothing unflushed in the buffered writer (ghost counter pending(w) == 0); " +
			"ReadFrom reports on success exactly the announced size of the object it rebuilt, for EVERY prior state of the receiver (optional fields nil or not).  The fixed-size primitives of utils/buffer are verified against the documented io.Writer / io.Reader / bufio contracts " +
			"(err == nil implies the full size was moved, whatever the chunking: a short Read is not an error).  The numeric instance of structs.Vector.ReadFrom is verified with the run-time panics of make / reslice and an allocation bound as obligations.  Added in 13.39: buffer.Buffer.Write (typed AST): a write that reports success stored the whole of p (finding F73: capacity for length); the assumed interface contract of Reader.Peek carries the precondition n <= Size() (bufio can never satisfy a larger Peek) and every caller meets it (finding F74: buffer.Read did not); the count-level contracts of Plaintext.ReadFrom and EvaluationKey.ReadFrom carry `safety index`: a count corrupted to zero is an error, not an index out of range (finding F77); the structural `decodes` contract also demands that a JSON decoder going through a local mirror struct mentions every exported field of its receiver (finding F76: ParametersLiteral.LogNthRoot).",
		Assumptions: []string{
			"Engine B executes the go/ssa form of each method; the type switch on the writer/reader takes the buffer.Writer / buffer.Reader branch (the default branch wraps the stream in a bufio object and calls the same method)",
			"io.Writer.Write, io.Reader.Read, io.ReadFull, bufio Peek/Discard/Flush/Available carry their documented behaviour as ASSUMED contracts (utils/buffer/zz_contracts_verif.go)",
			"the generic containers structs.Vector / Matrix / Map (element loops) are ASSUMED to move exactly the announced size and (writers) to end with Flush; only Vector[uint64].ReadFrom is verified",
			"the slice primitives of utils/buffer (Read/WriteUint{8,16,32,64}Slice) are verified at count level with their decode / encode loops skipped (loopabs: stored arrays unknown afterwards, panics inside those loops not checked) and their refill recursion under a measure (decreases len(c)): every recursive call is on a strictly shorter slice",
			"bsize(x), the abstract announced size at call sites, is an uninterpreted function of the contents of x (identity = access path + store version): BinarySize is assumed deterministic in the contents",
			"the length of encoding/json output (MetaData writers, Parameters) is outside the reach of the contracts: the metadata WriteTo methods are assumed to write the announced size",
			"fieldorder contracts (typed AST): the receiver fields that take part in Write*/write* calls of WriteTo and in Read*/read* calls of ReadFrom occur in the same order (necessary for faithfulness, not sufficient)",
			"NOT decided: byte-level faithfulness (that the bytes read back give an object EQUAL to the original), equality of MarshalBinary and WriteTo bytes, behaviour under truncation at every offset (only: no success is reported with fewer bytes than announced), Parameters / literal JSON forms",
		},
		Trusted: stdTrusted, Simple: copyAndLanes("C08"),
	},
	"C11": {
		ID: "C11", Packages: []string{"./..."}, Level: "proof",
		Explain: "First sentence of the property (the Galois algebra), for the code that computes Galois elements.  ring.ModExp is under functional contract: for every x < p, every e and every 1 < p < 2^62 the result is below p and congruent to x^e modulo p " +
			"(loop invariant result * x_i^i = x^e (mod p); the inductive facts about integer powers it uses - x^0 = 1, x^i = (x*x)^(i/2) [* x], a = b => a^n = b^n (mod q) - are theorems checked by Lean 4 + Mathlib on every run).  " +
			"rlwe.Parameters.GaloisElement(k) = 5^(k mod NthRoot) (mod NthRoot), ModInvGaloisElement(g) = g^(NthRoot-1) (mod NthRoot), GaloisElementOrderTwoOrthogonalSubgroup() = NthRoot-1 with square 1.  " +
			"Lemmas over those contracts, also Lean theorems checked on every run: the product of two elements is the element of the sum of the exponents (galois_compose), the exponent of 5 only matters modulo 2^n = NthRoot/4, the slot count (five_pow_two_pow, galois_periodic), and g^(NthRoot-1) is the inverse of every power g of 5 (galois_inverse).  " +
			"The discrete logarithm: ring.ModExpPow2 (wrapping square-and-multiply, masked at the end) returns x^e mod p for every power of two p <= 2^63; rlwe.Parameters.SolveDiscreteLogGaloisElement returns kk for EVERY element g = 5^kk (mod NthRoot), kk in [0, NthRoot/4), NthRoot = 2^n, 4 <= n <= 62 " +
			"(loop invariant kuint = (kk mod (E/x))*x with E = NthRoot/8 and x | E; one iteration is the Lean theorem dlog_step_cases, which rests on 5^(2^m) = 1 + 2^(m+2)*odd; the mask and the `|=` are the Lean theorems and_mask_dvd / or_add_pow2); that this kk is the only logarithm in range is the Lean theorem dlog_unique.  " +
			"Advertised key lists, one of them: rlwe.GaloisElementsForTrace(params, logN) returns exactly 5^(2^i) mod NthRoot for logN <= i < LogN-1, in that order, followed for logN = 0 in the standard ring by NthRoot-1, and nothing else; it does not panic for any constructed parameter object (finding F25: it did, for the conjugate-invariant ring).  " +
			"A second list: rlwe.GaloisElementsForPack(params, logGap) returns exactly the elements Pack applies in its steps LogN-logGap .. LogN-1 - 5^(2^(i-1)) at step i > 0, NthRoot-1 at step 0 (last) - and panics only where it says it refuses (clause `panics`: logGap out of range, ring not standard) (finding F62: it advertised 5^(2^k), k < logGap).  " +
			"Last sentence of the property, one link: rlwe.Evaluator.CheckAndGetGaloisKey (abstract contract, go/ssa) leaves, on success, an index map in the evaluator the caller holds, so the automorphism that follows does not fail when the key is present.  " +
			"Inner sums, corner clauses on the abstract engine: the partial trace / inner function of ONE term is the input itself, in the domain the input is in (PartialTracesSum#one on parameters with P, InnerFunction#one; finding F63: a coefficient-domain input was transformed `back`); on parameters WITHOUT auxiliary modulus PartialTracesSum dereferences no nil pointer (bounded instance n = 2, clause nilsafe; finding F65); ckks.Evaluator.Average (bounded shapes) returns a ciphertext with the INPUT's scale, packing and domain flag at the common level, also into a distinct receiver (finding F61).",
		Assumptions: []string{
			"GenBRedConstant (big-number division) is ASSUMED to return floor(2^128/q); BRed itself is proved (C01)",
			"the Lean file /verif/lean/PowLemmas.lean is the statement of the inductive lemma-library rules; the correspondence between a rule instance in an SMT query (uninterpreted pow, cong) and the Lean theorem of the same name (x ^ n on integers with a natural exponent, Int.ModEq) is by reading, not mechanical",
			"NthRoot is a power of two 2^(n+2) >= 16 (precondition 5 < NthRoot for the generator to be reduced)",
			"the rotate-and-add circuits themselves (ckks InnerSum as called by Average, rlwe InnerFunction as called without P) are ASSUMED leaves that write their receiver only",
			"NOT decided: that the induced ciphertext operation rotates the slots (encoder semantics, C07), hoisted variants, the SUMS computed by InnerSum / Replicate / Trace for more than one term, and the sufficiency of the other advertised key lists (loops over symbolic counts in the abstract engine); known and not repaired (DESIGN.md 13.37): Trace in the conjugate-invariant ring, hoisted rotations with Galois keys generated at a reduced LevelP",
		},
		Trusted: append(append([]string{}, stdTrusted...), "Lean 4.33.0 kernel + Mathlib v4.33.0 (inductive lemmas)"),
		Extra: func(prog *Program, tier string) ([]*Obligation, []string) {
			var obs []*Obligation
			for _, th := range []string{"galois_compose", "five_pow_two_pow", "galois_periodic", "galois_inverse", "dlog_unique"} {
				obs = append(obs, &Obligation{Name: "lean/" + th, Func: "extra:lemmas-over-contracts", Kind: "lemma", Goal: TFalse, Lean: th})
			}
			return obs, []string{"lemmas over the contracts (group law, periodicity, inverse, uniqueness of the logarithm) are Lean theorems in /verif/lean/PowLemmas.lean, checked by `lean` on this run"}
		},
	},
	"C17": {
		ID: "C17", Packages: []string{"./ring/...", "./utils/sampling/..."}, Level: "proof",
		Explain: "Uniform sampling and the shared byte buffer.  ring.UniformSampler.read (the body of Read and ReadAndAdd) is under contract on the typed AST: every value handed to the store callback is below the modulus of its row (clause `fnparam f requires b < c`, for every generator output: rejection under the mask), " +
			"the 1024-byte buffer is only read in aligned 8-byte words inside its bounds, and the read pointer shared between level views satisfies 0 <= ptr <= len, ptr % 8 == 0 on exit whenever it did on entry (so: for every interleaving of calls on views sharing the buffer); no index is out of range and no sanity panic is reachable.  " +
			"randInt32 / randInt64 / RandUniform: the result is within the mask / below the bound for every generator output.  " +
			"Ternary sampling with a density (TernarySampler.sampleProba, the body of Read and ReadAndAdd): every value handed to the store callback is the table entry lut[j][index] of ONE index in {0,1,2} per coefficient, together with the modulus of row j, so the sampled integer is the same in every RNS row; " +
			"in the density-1/2 path the zero / non-zero decision of coefficient i is bit i of the first N/8 bytes the generator delivers to this call and its sign is bit i of the NEXT N/8 bytes (ghost variable `draws` = bytes drawn so far, stream(k) = the k-th byte drawn; sampling.PRNG.Read is ASSUMED to deliver the next len(p) bytes of that sequence): the coefficient is a function of the generator output, hence identical for two samplers fed the same stream, and a buffer that is never filled is a violation.  " +
			"Ternary sampling with a fixed Hamming weight (TernarySampler.sampleSparse): the index table from which positions are drawn without replacement keeps pairwise distinct entries below N (so the hw non-zero values go to hw different coefficients and the closing loop clears exactly the others), every non-zero value is lut[k][coeff+1] for ONE sign bit per draw on every RNS row, and that sign bit is bit (i & 7) of byte i>>3 of the block the generator delivered at the start of the call (draw i uses its own bit); the buffer size ceil(hw/8) is the one float expression modelled exactly (math.Ceil(float64(e)/2^k) for 0 <= e < 2^53).  " +
			"Gaussian sampling, arbitrary-precision branch (sigma > 2^53 and bound > 2^64: the smudging distributions; GaussianSampler.read): the value handed to the store callback for row j is bigval(normInt) mod q_j for ONE big integer per coefficient (Euclidean residue: the same integer on every RNS row) and |bigval(normInt)| <= |bigval(boundInt)| (finding F22); each *big.Int / *big.Float is an object with one ghost value, math/big methods follow ASSUMED contracts.  Float64 branch: only that the callback receives the modulus of its row.  Plus the copy contracts of the samplers (what AtLevel / WithPRNG share and what they own).",
		Assumptions: []string{
			"sampling.PRNG.Read fills its buffer and returns no error (ASSUMED contract; the keyed XOF fails only after 2^32 bytes); encoding/binary decoding is assumed to return some uint64 / uint32",
			"the callbacks passed by Read (`b`) and ReadAndAdd (`CRed(a+b, c)`) are closures: their bodies are not under contract; the claim is about the value they receive",
			"math/big (Int.Mul, Add, Rsh, Mod, Rem, Cmp, CmpAbs, Uint64; Float.SetFloat64, Float.Int: value unknown), bignum.NewInt and bignum.RandInt follow ASSUMED contracts stating their documented behaviour on one ghost integer per object; allocations of such objects get increasing identities; GaussianSampler.normFloat64 (ziggurat) is ASSUMED to return a sign bit; float expressions are opaque and float comparisons unknown booleans",
			"TernarySampler.kysampling (Knuth-Yao walk for densities other than 1/2) is ASSUMED to return a coefficient bit and a sign bit; Ring.ModuliChain is ASSUMED to list the moduli in order; float comparisons (invDensity == 0.5) are unknown booleans, the same one for the same source text",
			"NOT decided: uniformity and independence of the output (statistical), the float64 branch of Gaussian sampling (ziggurat, rejection test, rounding: floating point), the Knuth-Yao matrix, the exact count of non-zeros as a number (it follows from the distinctness invariant by counting, which is not mechanised), sign balance as a statistic",
		},
		Trusted: stdTrusted, Simple: copyAndLanes("C17"),
	},
	"C16": {
		ID: "C16", Packages: []string{"./..."}, Level: "proof",
		Explain: "Abstract contracts on collective key switching to a secret-shared key: GenShare = c1*(s_in - s_out) + one fresh draw of the smudging distribution; AggregateShares = + (error on level mismatch); KeySwitch = (c0 + sum shares, c1) and, towards a public key, (c0 + first half of the aggregate, second half of the aggregate), in place and out of place, at the SMALLER of the levels of the ciphertext and of the aggregate, touching no row beyond either (clause `safety rows`: the row preconditions of the assumed leaves Ring.Add and Poly.CopyLvl are obligations; finding F54); " +
			"plus the copy contracts that keep the smudging sampler bound to the stored noise distribution in ShallowCopy; " +
			"plus ShareToEncProtocol.GetEncryption (mpbgv, mpckks): the output is (aggregate, crp) and each component takes the level of its source, whatever level the receiver had (Poly.Copy is ASSUMED to resize its receiver to the source's level); " +
			"plus the metadata of the masked transform / refresh (Transform of mpbgv and mpckks; transform nil, given, and refresh in place): on success the output records the input's flags and, for mpbgv, the input's scale (finding F38), for mpckks the default scale of the output parameters (to which the payload was rescaled) and IsBatched = transform.Encode; aggregated refresh shares carry the shares' metadata and public-key-switching shares of different levels are refused; " +
			"plus the share conversions of mpbgv: EncToShare.GenShare = the key-switch share to the ZERO key MINUS the lift of the additive share the party keeps (the same mask, drawn once); GetShare = the reduction to R_t of (aggregate + c0) [+ the party's own share]; ShareToEnc.GenShare = the key-switch share FROM the zero key on the common reference polynomial PLUS the lift of the additive share; the refresh share uses ONE mask for both halves; and the payload of a refresh is lift(reduce(aggregate + c0)) + the aggregated re-encryption shares, with the reference polynomial as second component (lift / reduction between R_t and R_Q NAMED uf_lift / uf_q2t).",
		Assumptions: append(append([]string{}, engineBAssumptions...), "masked transform: the encoder calls, the decryption share of the mask, SetCoefficientsBigint and NTTSparseAndMontgomery are TRUSTED abstract contracts (write their output only); the user's callback is ASSUMED to act on the values it is given (clause `callback`)",
			"NOT decided: the value of public-key switching shares (GenShare towards a public key), the share conversions of mpckks (big-float encoder), the payload of a masked transform WITH a transform (encoder semantics), what the lift / reduction between R_t and R_Q compute, the flooding noise magnitude (floating point)"),
		Trusted: stdTrusted, Simple: copySimple("C16"),
	},
	"C19": {
		ID: "C19", Packages: []string{"./..."}, Level: "proof",
		Explain: "Acceptance-soundness bridge: rlwe.CheckModuli / checkSizeParams / checkModuliLogSize are under contract; their postconditions say that an accepted moduli chain satisfies the precondition under which the ring kernels and the lazy NTT schedule were verified " +
			"(every Q modulus < 2^61 and prime, every P modulus prime and - this part FAILS, known finding KF4 - below 2^61, 4 <= logN <= 20, requested sizes in ]0,60] / ]0,61]).  On success no prime of P is a prime of Q (finding F24, repaired).  NewParameters calls CheckModuli and returns its error (by inspection; the constructor itself is outside the subset).  " +
			"Prime generation (ring.NewNTTFriendlyPrimesGenerator, NextDownstreamPrime, NextAlternatingPrime): a representation invariant of the generator (both candidates congruent to 1 modulo NthRoot, the downstream candidate strictly below the upstream one) is established by the constructor (the downstream sequence starts one step below 2^BitSize + 1) and kept by both methods; every value returned is prime (oracle), congruent to 1 modulo NthRoot, on its own side of the starting point and the candidates move apart, hence no prime is returned twice (monotonicity argument over the contracts, stated); the subtraction and addition of NthRoot do not wrap.  " +
			"bgv.NewParameters (abstract contract, go/ssa): a plaintext modulus accepted without error is non-zero and is not one of the moduli of Q (membership through assumed contracts on Parameters.Q and slices.Contains).",
		Assumptions: []string{
			"primality oracle ring.IsPrime = math/big.ProbablyPrime(0), exact below 2^64 (assumed contract)",
			"P moduli in [2^61, 2^62) are accepted (LogP = 61 requests generate primes just above 2^61 and shipped bootstrapping sets use them): for those the kernel precondition q < 2^61 is NOT implied; known finding KF4 with a failing input (62-bit P: the NTT of ringP is wrong), DESIGN.md 13.8",
			"NOT decided: the bit-size windows of the prime generator (float log2 tests: unknown booleans) and NextUpstreamPrime (its only overflow guard is such a test), the NTT-friendliness check of SubRing.generateNTTConstants, the remaining plaintext-modulus checks of bgv.NewParameters (t <= Q[0], cyclotomic order of t), the 128-bit security table, JSON round trip",
		},
		Trusted: stdTrusted,
	},
	"C02": {
		ID: "C02", Packages: []string{"./ring/..."}, Level: "proof",
		Explain: "Division by the last modulus out of the NTT domain: Ring.DivFloorByLastModulus and Ring.DivRoundByLastModulus are under functional contract per RNS row: for every row i below the last and every coefficient, " +
			"out*q_L is congruent to a_i - a_L (floored) resp. a_i - [a_L + (q_L-1)/2 mod q_L] + (q_L-1)/2 (rounded half-up) modulo q_i, with out < q_i, for every modulus below 2^62 whose rescale constant is -q_L^{-1}*2^64; " +
			"in the NTT domain, over the NAMED output of the inverse transform: DivFloorByLastModulusNTT subtracts the CANONICAL residue of the last row (finding F56: it used the lazy transform, whose output may be q_L too large - quotient one too small), DivRoundByLastModulusNTT the residue plus floor(q_L/2), reduced; " +
			"plus the copy contract of BasisExtender.ShallowCopy, plus the structural lane contract (lanes8) of the hand-unrolled basis-extension helpers reconstructRNS, reconstructRNSCentered and multSum: every statement touches one lane only and every statement shape occurs once per lane (their floating-point correction term is outside the arithmetic engines).  Lemma over the contracts (stated, not proved here): with X the integer represented by (a_i), a_L = X mod q_L, the row results are the residues of floor(X/q_L) resp. the rounded quotient.",
		Assumptions: []string{
			"the rescale constants satisfy rc*q_L = -2^64 (mod q_i) and the Montgomery/Barrett constants their defining equations (preconditions; their generation is not under contract)",
			"rows of different index are disjoint storage (rowloop meta-argument)",
			"NTT-domain variants (DivRoundByLastModulusNTT, DivFloorByLastModulusNTT): frame plus the DATA FLOW of each row (the output row is the Montgomery product of the rescale constant with [buffer row after the forward transform] + 2q - [the input row]); what the transforms compute is not decided.  The inverse transforms NAME their output (ghost function inttval of the memory before the call, the input row, the root table, degree and modulus: ASSUMED to depend on nothing else); over that name DivRoundByLastModulusNTT is proved to leave in the last buffer row [inverse transform of the last input row] + floor(q_L/2), reduced, for odd q_L - the centring constant of round-half-up; the constant subtracted again in the other rows is read from the same local but reaches the output through the forward transform only and is not decided",
			"NOT decided: the *Many variants, basis extension values (ModUp/ModDown: float correction term), gadget decomposition digits",
		},
		Trusted: stdTrusted, Simple: copyAndLanes("C02"), SkipKinds: nil,
	},
	"C09": {
		ID: "C09", Packages: []string{"./..."}, Level: "proof",
		Explain: "Frame clause of the property for the ring layer only: every Ring-level operation of ring/operations.go under contract (Add ... MulScalarThenSub, MForm, MulByVector...) and the divisions by the last modulus of ring/scaling.go are proved to write only the rows of their designated output " +
			"(obligations rowframe / frame / frame-before-loop: a fresh cell outside the declared output rows keeps its entry value), for every aliasing admitted by the preconditions (output row equal to or disjoint from an input row).",
		Assumptions: []string{
			"decides sentence 1 of C09 for ring.Ring operations only; evaluators, encoders, encryptors and protocols are NOT covered (the go/ssa frame engine was not finished, DESIGN.md 11.6)",
			"rows of different index are disjoint storage; the callee kernels' frames are themselves proved (vec_ops.go, property C01)",
			"NOT decided: value-level aliasing insensitivity and absence of residue at the scheme level",
			"evaluator level, one clause (abstract contracts, go/ssa): after a scalar Add / Sub / Mul of the CKKS evaluator and a big-integer Add / Mul of the BGV evaluator the output element has exactly as many components as the input, whatever degree it had before (Element.Resize is ASSUMED to leave degree+1 components; input degree bounded by 2 for the unwinding); the other operand kinds and operations are not covered",
			"NewPoly (abstract contract, BOUNDED instance: at most three rows): every row is its own allocation with length and capacity N",
			"readonly (structural): the big-number operand of the BGV / CKKS evaluator operations (Add ... MulRelinThenAdd) is never the receiver of a mutating math/big / bignum method inside the operation itself (aliases through the type switch are followed); callees that receive the operand are not followed",
		},
		Trusted: stdTrusted, Simple: copyAndLanes("C09"),
	},
	"C10": {
		ID:       "C10",
		Packages: []string{"./..."},
		Level:    "proof",
		Explain: "Copy-constructor contracts (`//@ copy T.M` with shared / fresh / copied / rebound / derived classes for every field) in the zz_contracts_verif.go files; " +
			"the constructor's returned composite literal is executed symbolically on the typed AST, one obligation per struct field: the field is classified (completeness), set, and set the way its class demands " +
			"(shared = exactly receiver.f; fresh = newly built, not receiver.f; copied = a call on receiver.f; rebound = the parameter; derived = built from the named receiver fields).",
		Assumptions: []string{
			"decides the completeness / sharing-discipline clauses of C10 only: every field of the copy is accounted for and owned (scratch, sampler, PRNG-backed) state is never shared between copies",
			"NOT decided: behavioural equality of copy and original beyond field provenance, deep-copy contents, and data-race freedom of memory classified shared (that needs the frame engine over all methods, see DESIGN.md)",
			"constructors must return a composite literal (directly or through one local); other shapes are reported as failed target obligations, not skipped",
		},
		Trusted: []string{"go/packages + go/types front end (x/tools v0.29.0)", "the field classification in the contract files is the specification (written from the documented intent of each constructor)"},
		Simple:  copySimple("C10"),
	},
	"C01": {
		ID:       "C01",
		Packages: []string{"./ring/..."},
		Level:    "proof",
		Explain: "Every function of the ring layer listed under 'functions' carries a contract (requires/ensures/assigns/loop invariants) in ring/zz_contracts_verif.go; " +
			"lvc symbolically executes the real body from /repo's working tree and discharges one SMT obligation per postcondition, callee precondition, bounds check, " +
			"unsafe 8-lane window, loop-invariant clause (per lane) and frame condition, for all inputs in the stated ranges and all lengths.",
		Assumptions: []string{
			"uint64 arithmetic is modelled exactly (wrap-around mod 2^64); signed int arithmetic is mathematical with an overflow obligation at every operation",
			"variable*variable products are the uninterpreted function mul in polynomial normal form; the nonlinear facts used are instances of library lemmas that are themselves proved on every run",
			"slices have length <= 2^40 and addresses <= 2^56 (address-space bound)",
			"meaning clauses of vector kernels follow from the per-lane data-flow postcondition plus the scalar 'meaning' lemma (meta-step of the engine)",
			"NOT decided here: that the log N butterfly layers compose to the negacyclic DFT (stated lemma, DESIGN.md 4/C01 4c)",
			"unrolled (structural): in the four hand-unrolled layer functions of ring/ntt.go every run of eight (or, mirrored layer, seven) unrolled units follows one radix-2 index pattern (which coefficients and which twiddle group meet in a lane); the four *CoreLazy dispatchers above them remain ASSUMED for frame and range",
			"lanes8 (structural): the hand-unrolled gathers of AutomorphismNTTWithIndex[ThenAddLazy] and subScalarMontgomeryAndMulCoeffsMontgomery touch one lane per statement and cover every lane once; their values (the permutation being the Galois automorphism) are not decided",
		},
		Trusted: stdTrusted, Simple: copyAndLanes("C01"),
	},
}

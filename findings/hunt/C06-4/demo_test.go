package ckks

import (
	"math"
	"testing"

	"github.com/tuneinsight/lattigo/v6/ring"
)

// Conjugate-invariant ring, sparse packing with a single slot (LogDimensions.Cols = 0, which the
// encoder accepts: 0 <= Cols <= LogMaxDimensions().Cols): Encode followed by Decode of the same
// plaintext (no encryption, no evaluation) returns ~1e56 instead of the encoded value. The
// standard ring with one slot and the conjugate-invariant ring with 2 or more slots are fine.
func TestC06Demo4ConjugateInvariantOneSlot(t *testing.T) {
	p, err := NewParametersFromLiteral(ParametersLiteral{LogN: 6, LogQ: []int{55, 45, 45}, LogP: []int{60}, LogDefaultScale: 45, RingType: ring.ConjugateInvariant})
	if err != nil {
		t.Fatal(err)
	}
	ecd := NewEncoder(p)
	for _, logSlots := range []int{0, 1, 2} {
		pt := NewPlaintext(p, p.MaxLevel())
		pt.LogDimensions.Cols = logSlots
		v := make([]float64, 1<<logSlots)
		for i := range v {
			v[i] = 0.5 + float64(i)/8
		}
		if err = ecd.Encode(v, pt); err != nil {
			t.Fatalf("logSlots=%d: Encode: %v", logSlots, err)
		}
		got := make([]float64, 1<<logSlots)
		if err = ecd.Decode(pt, got); err != nil {
			t.Fatalf("logSlots=%d: Decode: %v", logSlots, err)
		}
		for i := range got {
			if !(math.Abs(got[i]-v[i]) < 1e-6) {
				t.Errorf("logSlots=%d slot %d: got %v want %v", logSlots, i, got[i], v[i])
			}
		}
	}
}

package ckks

import (
	"math/cmplx"
	"testing"

	"github.com/tuneinsight/lattigo/v6/core/rlwe"
)

// RescaleTo documents that it divides by the last prime "and stops if the scale reaches minScale
// or if it would go below minScale/2" (and, per the in-code comment, "or until the output Level()
// would be zero"). With a scale close to Q_level and a small minScale the loop also divides by
// q_0, i.e. goes to level -1, and panics.
func TestC06Demo2RescaleToBelowLevelZero(t *testing.T) {
	p, err := NewParametersFromLiteral(ParametersLiteral{LogN: 6, LogQ: []int{55, 45, 45}, LogP: []int{60}, LogDefaultScale: 45})
	if err != nil {
		t.Fatal(err)
	}
	sk := rlwe.NewKeyGenerator(p).GenSecretKeyNew()
	ecd := NewEncoder(p)
	eval := NewEvaluator(p, nil)
	v := make([]complex128, p.MaxSlots())
	for i := range v {
		v[i] = complex(float64(i)/256, -float64(i)/512)
	}
	q := p.Q()
	// A valid ciphertext at level 1 whose scale is 0.75*q0*q1 (|v| < 0.2 so that scale*|v| < Q_1/2).
	pt := NewPlaintext(p, 1)
	pt.Scale = rlwe.NewScale(q[0]).Mul(rlwe.NewScale(q[1])).Mul(rlwe.NewScale(0.75))
	if err = ecd.Encode(v, pt); err != nil {
		t.Fatal(err)
	}
	ct, err := rlwe.NewEncryptor(p, sk).EncryptNew(pt)
	if err != nil {
		t.Fatal(err)
	}
	out := NewCiphertext(p, 1, 1)
	func() {
		defer func() {
			if r := recover(); r != nil {
				t.Fatalf("RescaleTo panics instead of stopping at level 0: %v", r)
			}
		}()
		err = eval.RescaleTo(ct, rlwe.NewScale(1), out)
	}()
	if err != nil {
		t.Fatalf("RescaleTo: %v", err)
	}
	if out.Level() != 0 {
		t.Fatalf("expected level 0, got %d", out.Level())
	}
	got := make([]complex128, p.MaxSlots())
	if err = ecd.Decode(rlwe.NewDecryptor(p, sk).DecryptNew(out), got); err != nil {
		t.Fatal(err)
	}
	for i := range got {
		if cmplx.Abs(got[i]-v[i]) > 1e-6 {
			t.Fatalf("slot %d: got %v want %v (scale %v)", i, got[i], v[i], out.Scale.Float64())
		}
	}
}

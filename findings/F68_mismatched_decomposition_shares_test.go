package multiparty

import (
	"fmt"
	"testing"

	"github.com/tuneinsight/lattigo/v6/core/rlwe"
	"github.com/tuneinsight/lattigo/v6/ring"
	"github.com/tuneinsight/lattigo/v6/utils"
	"github.com/tuneinsight/lattigo/v6/utils/sampling"
)

// c14RotationNoise rotates a uniformly random ciphertext with gk and returns log2 of the standard
// deviation of Dec(rot(ct)) - rot(Dec(ct)).
func c14RotationNoise(params rlwe.Parameters, sk *rlwe.SecretKey, gk *rlwe.GaloisKey) float64 {
	prng, _ := sampling.NewPRNG()
	level := gk.LevelQ()
	rQ := params.RingQ().AtLevel(level)
	ct := rlwe.NewCiphertext(params, 1, level)
	us := ring.NewUniformSampler(prng, rQ)
	us.Read(ct.Value[0])
	us.Read(ct.Value[1])
	dec := rlwe.NewDecryptor(params, sk)
	pt := dec.DecryptNew(ct)
	want := rQ.NewPoly()
	rQ.AutomorphismNTT(pt.Value, gk.GaloisElement, want)
	out := rlwe.NewCiphertext(params, 1, level)
	if err := rlwe.NewEvaluator(params, rlwe.NewMemEvaluationKeySet(nil, gk)).Automorphism(ct, gk.GaloisElement, out); err != nil {
		return -1
	}
	have := dec.DecryptNew(out)
	rQ.Sub(have.Value, want, want)
	rQ.INTT(want, want)
	return rQ.Log2OfStandardDeviation(want)
}

func c14Recover(f func() error) (err error, panicked interface{}) {
	defer func() { panicked = recover() }()
	err = f()
	return
}

// Shares generated with different gadget decompositions (BaseTwoDecomposition) must be
// rejected with an error by AggregateShares / Gen*Key, not combined and not answered by
// an index-out-of-range panic.
func TestC14_MismatchedDecompositionRejected(t *testing.T) {

	// moduli of unequal sizes: digits per prime are 4/3/2 for w=16, 4/3/2 for w=15, 1/1/1 for w=0
	params, err := rlwe.NewParametersFromLiteral(rlwe.ParametersLiteral{LogN: 8, LogQ: []int{60, 45, 30}, LogP: []int{61}, NTTFlag: true})
	if err != nil {
		t.Fatal(err)
	}

	kgen := rlwe.NewKeyGenerator(params)
	sk0, sk1 := kgen.GenSecretKeyNew(), kgen.GenSecretKeyNew()

	crs := func() sampling.PRNG {
		p, _ := sampling.NewKeyedPRNG([]byte("crs"))
		return p
	}

	type tc struct {
		name string
		a, b rlwe.EvaluationKeyParameters
	}

	for _, c := range []tc{
		{"w=16 with w=15", rlwe.EvaluationKeyParameters{BaseTwoDecomposition: utils.Pointy(16)}, rlwe.EvaluationKeyParameters{BaseTwoDecomposition: utils.Pointy(15)}},
		{"w=0 with w=16", rlwe.EvaluationKeyParameters{}, rlwe.EvaluationKeyParameters{BaseTwoDecomposition: utils.Pointy(16)}},
		{"w=16 with w=0", rlwe.EvaluationKeyParameters{BaseTwoDecomposition: utils.Pointy(16)}, rlwe.EvaluationKeyParameters{}},
	} {

		// Galois key generation (same code path as the generic evaluation-key protocol)
		gkg := NewGaloisKeyGenProtocol(params)
		galEl := params.GaloisElement(1)
		crpA, crpB := gkg.SampleCRP(crs(), c.a), gkg.SampleCRP(crs(), c.b)
		shA, shB := gkg.AllocateShare(c.a), gkg.AllocateShare(c.b)
		if err := gkg.GenShare(sk0, galEl, crpA, &shA); err != nil {
			t.Fatal(err)
		}
		if err := gkg.GenShare(sk1, galEl, crpB, &shB); err != nil {
			t.Fatal(err)
		}

		out := gkg.AllocateShare(c.a)
		err, p := c14Recover(func() error { return gkg.AggregateShares(shA, shB, &out) })
		switch {
		case p != nil:
			t.Errorf("GaloisKeyGen.AggregateShares(%s): panic instead of error: %v", c.name, p)
		case err == nil:
			// what the silently produced aggregate is worth: finalise it and rotate a ciphertext with it
			sk := rlwe.NewSecretKey(params)
			params.RingQP().Add(sk0.Value, sk1.Value, sk.Value)
			gkBad := rlwe.NewGaloisKey(params, c.a)
			noise := "n/a"
			if _, p := c14Recover(func() error { return gkg.GenGaloisKey(out, crpA, gkBad) }); p == nil {
				noise = fmt.Sprintf("%.1f", c14RotationNoise(params, sk, gkBad))
			}
			t.Errorf("GaloisKeyGen.AggregateShares(%s): shares with different decompositions were combined without error (log2 noise of a rotation with the resulting key: %s, log2(Q)=%.1f)", c.name, noise, params.LogQ())
		}

		// finalisation into a key allocated for another decomposition
		gk := rlwe.NewGaloisKey(params, c.b)
		err, p = c14Recover(func() error { return gkg.GenGaloisKey(shA, crpA, gk) })
		switch {
		case p != nil:
			t.Errorf("GenGaloisKey(%s): panic instead of error: %v", c.name, p)
		case err == nil:
			t.Errorf("GenGaloisKey(%s): share with BaseTwoDecomposition=%d written into key with BaseTwoDecomposition=%d without error", c.name, shA.BaseTwoDecomposition, gk.BaseTwoDecomposition)
		}

		// Relinearisation key generation: AggregateShares has no error result, so the only possible
		// rejection is a panic with a meaningful message; silently combining is the defect.
		rkg := NewRelinearizationKeyGenProtocol(params)
		rcA, rcB := rkg.SampleCRP(crs(), c.a), rkg.SampleCRP(crs(), c.b)
		ephA, r1A, _ := rkg.AllocateShare(c.a)
		ephB, r1B, _ := rkg.AllocateShare(c.b)
		rkg.GenShareRoundOne(sk0, rcA, ephA, &r1A)
		rkg.GenShareRoundOne(sk1, rcB, ephB, &r1B)
		_, r1Out, _ := rkg.AllocateShare(c.a)
		_, p = c14Recover(func() error { rkg.AggregateShares(r1A, r1B, &r1Out); return nil })
		if p == nil {
			t.Errorf("RelinearizationKeyGen.AggregateShares(%s): shares with different decompositions were combined silently", c.name)
		} else if s := fmt.Sprint(p); len(s) >= 13 && s[:13] == "runtime error" {
			t.Errorf("RelinearizationKeyGen.AggregateShares(%s): runtime panic instead of a rejection: %v", c.name, p)
		}
	}

	// RelinearizationKeyGen.AggregateShares does not even compare levels: a level-1 share is
	// silently added to the lower part of a level-2 share.
	rkg := NewRelinearizationKeyGenProtocol(params)
	lo := rlwe.EvaluationKeyParameters{LevelQ: utils.Pointy(1)}
	rcLo, rcHi := rkg.SampleCRP(crs(), lo), rkg.SampleCRP(crs())
	ephLo, r1Lo, _ := rkg.AllocateShare(lo)
	ephHi, r1Hi, _ := rkg.AllocateShare()
	rkg.GenShareRoundOne(sk0, rcLo, ephLo, &r1Lo)
	rkg.GenShareRoundOne(sk1, rcHi, ephHi, &r1Hi)
	_, r1Out, _ := rkg.AllocateShare()
	if _, p := c14Recover(func() error { rkg.AggregateShares(r1Lo, r1Hi, &r1Out); return nil }); p == nil {
		t.Errorf("RelinearizationKeyGen.AggregateShares(LevelQ=1 with LevelQ=2): shares of different levels were combined silently")
	}
}

#!/bin/bash
# huntdemo.sh <dir with demo_test.go + meta.json> [repo]: run a demonstration test against the tree through a go
# test overlay (nothing is written into the repository).  Exit status of go test.
export GOFLAGS=-mod=mod GOPROXY=off GOSUMDB=off GOTOOLCHAIN=local
D=$(readlink -f $1); R=${2:-/repo}
place=$(python3 -c "import json;print(json.load(open('$D/meta.json'))['demo_place'])")
pat=$(python3 -c "
import json,re
r=json.load(open('$D/meta.json'))['demo_run']
m=re.search(r\"-run[ =]+'?\\\"?([^'\\\" ]+)\",r)
print(m.group(1) if m else '.')")
ov=$(mktemp /var/tmp/ov.XXXXXX.json)
echo "{\"Replace\":{\"$R/$place/zz_hunt_demo_test.go\":\"$D/demo_test.go\"}}" > $ov
(cd $R && go test -overlay $ov -vet=off -count=1 -timeout 600s -run "$pat" ./$place/ 2>&1 | tail -${TAILN:-12})
rc=${PIPESTATUS[0]}
rm -f $ov
exit $rc

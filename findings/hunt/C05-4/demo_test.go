package bgv

import (
	"testing"

	"github.com/tuneinsight/lattigo/v6/core/rlwe"
)

// The evaluator accepts an op0 of degree 0 together with an op1 of degree 1 (rlwe.Evaluator.InitOutputBinaryOp
// only requires op0.Degree()+op1.Degree() != 0, "at least one Element is a ciphertext", and Add / Sub handle this
// combination correctly). The multiplications must then either compute the product or report an error; they must
// not return a wrong value without an error, nor panic.
func TestC05MulDegreeZeroFirstOperand(t *testing.T) {

	params, err := NewParametersFromLiteral(ParametersLiteral{
		LogN:             5,
		Q:                []uint64{0x10000000006e0001, 0xfffffffff840001},
		P:                []uint64{0x1fffffffffe00001},
		PlaintextModulus: 65537,
	})
	if err != nil {
		t.Fatal(err)
	}

	T := params.PlaintextModulus()
	kgen := rlwe.NewKeyGenerator(params)
	sk := kgen.GenSecretKeyNew()
	enc := rlwe.NewEncryptor(params, sk)
	dec := rlwe.NewDecryptor(params, sk)
	ecd := NewEncoder(params)
	evk := rlwe.NewMemEvaluationKeySet(kgen.GenRelinearizationKeyNew(sk))

	a := make([]uint64, params.MaxSlots())
	b := make([]uint64, params.MaxSlots())
	sum := make([]uint64, params.MaxSlots())
	prod := make([]uint64, params.MaxSlots())
	for i := range a {
		a[i] = uint64(3*i+1) % T
		b[i] = uint64(7*i+5) % T
		sum[i] = (a[i] + b[i]) % T
		prod[i] = a[i] * b[i] % T
	}

	// op0: element of degree 0 (a "trivial" ciphertext holding the encoding of a)
	pt := NewPlaintext(params, params.MaxLevel())
	if err := ecd.Encode(a, pt); err != nil {
		t.Fatal(err)
	}
	op0 := NewCiphertext(params, 0, params.MaxLevel())
	op0.Value[0].Copy(pt.Value)
	*op0.MetaData = *pt.MetaData

	// op1: a regular degree-1 ciphertext
	ptb := NewPlaintext(params, params.MaxLevel())
	if err := ecd.Encode(b, ptb); err != nil {
		t.Fatal(err)
	}
	op1, err := enc.EncryptNew(ptb)
	if err != nil {
		t.Fatal(err)
	}

	decode := func(ct *rlwe.Ciphertext) []uint64 {
		have := make([]uint64, params.MaxSlots())
		if err := ecd.Decode(dec.DecryptNew(ct), have); err != nil {
			t.Fatal(err)
		}
		return have
	}

	equal := func(x, y []uint64) bool {
		for i := range x {
			if x[i] != y[i] {
				return false
			}
		}
		return true
	}

	eval := NewEvaluator(params, evk)

	// sanity: the addition of the same two operands is exact
	res := NewCiphertext(params, 1, params.MaxLevel())
	if err := eval.Add(op0, op1, res); err != nil || !equal(decode(res), sum) {
		t.Fatalf("Add(degree 0, degree 1): err=%v", err)
	}

	for _, tc := range []struct {
		name string
		op   func(op0 *rlwe.Ciphertext, op1 rlwe.Operand, opOut *rlwe.Ciphertext) error
	}{
		{"Mul", eval.Mul},
		{"MulRelin", eval.MulRelin},
		{"MulThenAdd", eval.MulThenAdd},
		{"MulRelinThenAdd", eval.MulRelinThenAdd},
		{"MulScaleInvariant", eval.MulScaleInvariant},
		{"MulRelinScaleInvariant", eval.MulRelinScaleInvariant},
	} {
		t.Run(tc.name, func(t *testing.T) {

			opOut := NewCiphertext(params, 1, params.MaxLevel()) // zero accumulator for the ThenAdd variants

			var err error
			var pan interface{}
			func() {
				defer func() { pan = recover() }()
				err = tc.op(op0, op1, opOut)
			}()

			if pan != nil {
				t.Fatalf("%s(degree 0, degree 1) panics: %v", tc.name, pan)
			}

			if err != nil {
				return // rejected: acceptable
			}

			if have := decode(opOut); !equal(have, prod) {
				t.Fatalf("%s(degree 0, degree 1): no error but the result (degree %d) is wrong: have %v... want %v...", tc.name, opOut.Degree(), have[:4], prod[:4])
			}
		})
	}
}

package bgv

// Finding F42 (property C05): Add / Sub of two degree-1 ciphertexts at EQUAL scales into a receiver that
// holds a degree-2 ciphertext keep the receiver at degree 2 (documented: the larger of the three
// degrees) but never clear its third component: the stale component survives and the result decrypts to
// garbage, without an error.  At different scales the scale-matching path zeroes it and the result is right.

import (
	"slices"
	"testing"

	"github.com/tuneinsight/lattigo/v6/core/rlwe"
)

func TestF42AddIntoHigherDegreeReceiver(t *testing.T) {
	params, err := NewParametersFromLiteral(ParametersLiteral{LogN: 10, LogQ: []int{54, 49, 49}, LogP: []int{52}, PlaintextModulus: 65537})
	if err != nil {
		t.Fatal(err)
	}
	T := params.PlaintextModulus()
	kgen := rlwe.NewKeyGenerator(params)
	sk := kgen.GenSecretKeyNew()
	ecd := NewEncoder(params)
	enc := rlwe.NewEncryptor(params, sk)
	dec := rlwe.NewDecryptor(params, sk)
	eval := NewEvaluator(params, nil)

	mk := func(f func(i int) uint64) (*rlwe.Ciphertext, []uint64) {
		v := make([]uint64, params.MaxSlots())
		for i := range v {
			v[i] = f(i) % T
		}
		pt := NewPlaintext(params, params.MaxLevel())
		if err := ecd.Encode(v, pt); err != nil {
			t.Fatal(err)
		}
		ct, err := enc.EncryptNew(pt)
		if err != nil {
			t.Fatal(err)
		}
		return ct, v
	}
	decode := func(ct *rlwe.Ciphertext) []uint64 {
		v := make([]uint64, params.MaxSlots())
		if err := ecd.Decode(dec.DecryptNew(ct), v); err != nil {
			t.Fatal(err)
		}
		return v
	}
	cta, a := mk(func(i int) uint64 { return uint64(3*i + 2) })
	ctb, b := mk(func(i int) uint64 { return uint64(7*i + 5) })
	ctd, _ := mk(func(i int) uint64 { return uint64(i + 9) })
	for _, op := range []string{"Add", "Sub"} {
		out, err := eval.MulNew(ctd, ctd) // a receiver that holds a degree-2 ciphertext
		if err != nil {
			t.Fatal(err)
		}
		want := make([]uint64, len(a))
		for i := range want {
			if op == "Add" {
				want[i] = (a[i] + b[i]) % T
			} else {
				want[i] = (a[i] + T - b[i]) % T
			}
		}
		if op == "Add" {
			err = eval.Add(cta, ctb, out)
		} else {
			err = eval.Sub(cta, ctb, out)
		}
		if err != nil {
			continue // refusing would be fine
		}
		if have := decode(out); !slices.Equal(have, want) {
			t.Errorf("%s(deg 1, deg 1, receiver of degree 2): no error, degree %d, slots 0..3 = %v, want %v", op, out.Degree(), have[:4], want[:4])
		}
	}
}

package rlwe

import (
	"testing"

	"github.com/tuneinsight/lattigo/v6/ring"
	"github.com/tuneinsight/lattigo/v6/utils"
	"github.com/tuneinsight/lattigo/v6/utils/sampling"
)

// Parameters WITH an auxiliary modulus P, and an evaluation key generated at LevelP = -1
// (no P in the key) with a power-of-two decomposition: the (levelQ, levelP=-1) pair is
// explicitly supported by NewEvaluationKey / GenEvaluationKey / BaseRNSDecompositionVectorSize.
func TestDemoC02GadgetProductLevelPMinusOne(t *testing.T) {

	params, err := NewParametersFromLiteral(ParametersLiteral{
		LogN:    10,
		Q:       []uint64{0x200000440001, 0x7fff80001, 0x800280001, 0x7ffd80001, 0x7ffc80001},
		P:       []uint64{0x3ffffffb80001, 0x4000000800001},
		NTTFlag: true,
	})
	if err != nil {
		t.Fatal(err)
	}

	bpw2 := 16

	kgen := NewKeyGenerator(params)
	sk := kgen.GenSecretKeyNew()
	skOut := kgen.GenSecretKeyNew()

	evk := NewEvaluationKey(params, EvaluationKeyParameters{LevelP: utils.Pointy(-1), BaseTwoDecomposition: utils.Pointy(bpw2)})
	kgen.GenEvaluationKey(sk, skOut, evk)

	if evk.LevelP() != -1 {
		t.Fatalf("unexpected key levelP %d", evk.LevelP())
	}

	levelQ := params.MaxLevelQ()
	ringQ := params.RingQ().AtLevel(levelQ)

	prng, _ := sampling.NewKeyedPRNG([]byte{'a', 'b', 'c'})
	a := ring.NewUniformSampler(prng, ringQ).ReadNew()

	ct := NewCiphertext(params, 1, levelQ)

	func() {
		defer func() {
			if r := recover(); r != nil {
				t.Fatalf("GadgetProduct(levelQ=%d) with a gadget ciphertext at levelP=-1 panicked: %v", levelQ, r)
			}
		}()
		NewEvaluator(params, nil).GadgetProduct(levelQ, a, &evk.GadgetCiphertext, ct)
	}()

	// phase(ct) under skOut must be a*sk + small noise (same check as the library's testGadgetProduct)
	pt := NewDecryptor(params, skOut).DecryptNew(ct)
	ringQ.MulCoeffsMontgomeryThenSub(a, sk.Value.Q, pt.Value)
	ringQ.INTT(pt.Value, pt.Value)

	if noise, bound := ringQ.Log2OfStandardDeviation(pt.Value), float64(params.LogN()+bpw2); noise > bound {
		t.Errorf("noise %.1f bits > %.1f bits", noise, bound)
	}
}

package mpbgv

// Finding F31 (property C10, "nothing that the original can do fails on the copy"):
// MaskedTransformProtocol.ShallowCopy allocates the plaintext buffer tmpPt from the INPUT parameters'
// ring, the constructor from the OUTPUT parameters' ring (Transform uses it at the output level).
// When the output parameters have more Q moduli than the input ones, Transform works on the
// original and panics (index out of range) on the copy.

import (
	"slices"
	"testing"

	"github.com/tuneinsight/lattigo/v6/core/rlwe"
	"github.com/tuneinsight/lattigo/v6/schemes/bgv"
	"github.com/tuneinsight/lattigo/v6/utils/sampling"
)

func TestF31MaskedTransformShallowCopy(t *testing.T) {
	paramsIn, err := bgv.NewParametersFromLiteral(bgv.ParametersLiteral{LogN: 10, LogQ: []int{54, 49, 49}, LogP: []int{52}, PlaintextModulus: 65537})
	if err != nil {
		t.Fatal(err)
	}
	paramsOut, err := bgv.NewParametersFromLiteral(bgv.ParametersLiteral{LogN: 10, LogQ: []int{54, 49, 49, 49, 49, 49}, LogP: []int{52, 52}, PlaintextModulus: 65537})
	if err != nil {
		t.Fatal(err)
	}
	orig, err := NewMaskedTransformProtocol(paramsIn, paramsOut, paramsIn.Xe())
	if err != nil {
		t.Fatal(err)
	}
	run := func(name string, p MaskedTransformProtocol) {
		defer func() {
			if r := recover(); r != nil {
				t.Errorf("%s: Transform panics: %v", name, r)
			}
		}()
		skIn := rlwe.NewKeyGenerator(paramsIn).GenSecretKeyNew()
		skOut := rlwe.NewKeyGenerator(paramsOut).GenSecretKeyNew()
		crs, _ := sampling.NewKeyedPRNG([]byte("f31"))
		crp := p.SampleCRP(paramsOut.MaxLevel(), crs)
		share := p.AllocateShare(0, paramsOut.MaxLevel())
		want := make([]uint64, paramsIn.MaxSlots())
		for i := range want {
			want[i] = uint64(3*i+1) % paramsIn.PlaintextModulus()
		}
		pt := bgv.NewPlaintext(paramsIn, 0)
		if err := bgv.NewEncoder(paramsIn).Encode(want, pt); err != nil {
			t.Fatal(err)
		}
		ct, err := rlwe.NewEncryptor(paramsIn, skIn).EncryptNew(pt)
		if err != nil {
			t.Fatal(err)
		}
		transform := &MaskedTransformFunc{Decode: true, Func: func(c []uint64) {}, Encode: true}
		if err := p.GenShare(skIn, skOut, ct, crp, transform, &share); err != nil {
			t.Fatal(err)
		}
		out := bgv.NewCiphertext(paramsOut, 1, paramsOut.MaxLevel())
		*out.MetaData = *ct.MetaData
		if err := p.Transform(ct, transform, crp, share, out); err != nil {
			t.Fatal(err)
		}
		have := make([]uint64, paramsOut.MaxSlots())
		if err := bgv.NewEncoder(paramsOut).Decode(rlwe.NewDecryptor(paramsOut.Parameters, skOut).DecryptNew(out), have); err != nil {
			t.Fatal(err)
		}
		if !slices.Equal(want, have) {
			t.Errorf("%s: wrong message after the masked transform", name)
		}
	}
	run("original", orig)
	run("shallow copy", orig.ShallowCopy())
}

package bgv

import (
	"testing"
)

// Encoder.Decode is documented to decode "on an IntegerSlice mod PlaintextModulus of size at most N":
// a destination shorter than N receives the first len(values) entries. This holds for []uint64 and []int64
// destinations of a batched plaintext and for a []uint64 destination of a non-batched (coefficient encoded)
// plaintext, and must also hold for a []int64 destination of a non-batched plaintext.
func TestC05DecodeShortInt64NonBatched(t *testing.T) {

	params, err := NewParametersFromLiteral(ParametersLiteral{
		LogN:             5,
		Q:                []uint64{0x10000000006e0001, 0xfffffffff840001},
		PlaintextModulus: 65537,
	})
	if err != nil {
		t.Fatal(err)
	}

	ecd := NewEncoder(params)

	values := []int64{1, -2, 3, -4, 5, -6, 7, -8}

	for _, batched := range []bool{true, false} {

		pt := NewPlaintext(params, params.MaxLevel())
		pt.IsBatched = batched

		if err := ecd.Encode(values, pt); err != nil {
			t.Fatal(err)
		}

		haveU := make([]uint64, len(values))
		if err := ecd.Decode(pt, haveU); err != nil {
			t.Fatal(err)
		}

		for i := range values {
			if want := uint64((values[i] + 65537) % 65537); haveU[i] != want {
				t.Fatalf("batched=%v: []uint64 decode: have %d want %d", batched, haveU[i], want)
			}
		}

		haveI := make([]int64, len(values))

		var pan interface{}
		func() {
			defer func() { pan = recover() }()
			err = ecd.Decode(pt, haveI)
		}()

		if pan != nil {
			t.Errorf("batched=%v: Decode into a []int64 of size %d < N panics: %v", batched, len(haveI), pan)
			continue
		}

		if err != nil {
			t.Fatal(err)
		}

		for i := range values {
			if haveI[i] != values[i] {
				t.Errorf("batched=%v: []int64 decode: have %d want %d", batched, haveI[i], values[i])
			}
		}
	}
}

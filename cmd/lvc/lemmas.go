package main

// The lemma library.  Every lemma is a closed statement about the integers; its instance
// formula (Stmt) may be used as a hint in contracts, and its proof obligation (Proof) is
// discharged on every run with native multiplication, so the library is proved, not assumed.
//
// cong(a,b,q) means: exists k in Z, a = b + k*q.  In verification conditions it is an
// uninterpreted predicate that is only ever manipulated through the rule instances below;
// every rule is proved here from the definition with an explicit witness.

import (
	"fmt"
	"math/big"
	"sort"
)

type Lemma struct {
	Name    string
	NParams int
	Params  []string
	Stmt    func(a []*Term) *Term
	Proof   func() *Obligation // nil: definitional
	Doc     string
}

var lemmaLib = map[string]*Lemma{}
var usedLemmas = map[string]bool{}

func congT(a, b, q *Term) *Term { return App("cong", SBool, a, b, q) }

type triple struct{ a, b *Term }

type congRule struct {
	name   string
	params []string // last one must be q
	side   func(a []*Term) *Term
	hyps   func(a []*Term) []triple
	concl  func(a []*Term) triple
	wit    func(a []*Term, k []*Term) *Term
	doc    string
}

func addCongRule(r congRule) {
	n := len(r.params)
	lm := &Lemma{Name: r.name, NParams: n, Params: r.params, Doc: r.doc}
	lm.Stmt = func(a []*Term) *Term {
		q := a[n-1]
		pre := TTrue
		if r.side != nil {
			pre = r.side(a)
		}
		if r.hyps != nil {
			for _, h := range r.hyps(a) {
				pre = And(pre, congT(h.a, h.b, q))
			}
		}
		c := r.concl(a)
		return Implies(pre, congT(c.a, c.b, q))
	}
	lm.Proof = func() *Obligation {
		a := make([]*Term, n)
		for i, p := range r.params {
			a[i] = Var(p, SInt)
		}
		q := a[n-1]
		var assume []*Term
		if r.side != nil {
			assume = append(assume, r.side(a))
		}
		var ks []*Term
		if r.hyps != nil {
			for i, h := range r.hyps(a) {
				k := Var(fmt.Sprintf("k%d", i), SInt)
				ks = append(ks, k)
				assume = append(assume, Eq(h.a, Add(h.b, Mul(k, q))))
			}
		}
		c := r.concl(a)
		goal := Eq(c.a, Add(c.b, Mul(r.wit(a, ks), q)))
		return &Obligation{Name: "lemma/" + r.name, Func: "lemma-library", Kind: "lemma", Assume: assume, Goal: goal, Native: true}
	}
	lemmaLib[r.name] = lm
}

func addArith(name string, params []string, stmt func(a []*Term) *Term, doc string) {
	addArithBy(name, params, stmt, nil, doc)
}

// addArithBy: a lemma proved from instances of other library lemmas.  With hints the proof
// obligation is rendered with the uninterpreted mul (the hints carry the nonlinear steps and
// the rest is linear arithmetic over the monomials); without hints it is rendered natively.
func addArithBy(name string, params []string, stmt func(a []*Term) *Term, hints func(a []*Term) []*Term, doc string) {
	lm := &Lemma{Name: name, NParams: len(params), Params: params, Stmt: stmt, Doc: doc}
	lm.Proof = func() *Obligation {
		a := make([]*Term, len(params))
		for i, p := range params {
			a[i] = Var(p, SInt)
		}
		o := &Obligation{Name: "lemma/" + name, Func: "lemma-library", Kind: "lemma", Goal: stmt(a), Native: hints == nil}
		if hints != nil {
			o.Assume = hints(a)
		}
		return o
	}
	lemmaLib[name] = lm
}

// addLean: an inductive lemma; its proof obligation is the Lean theorem of that name in
// /verif/lean/PowLemmas.lean (checked by `lean` with Mathlib on every run that uses it).
func addLean(name, theorem string, params []string, stmt func(a []*Term) *Term, doc string) {
	lm := &Lemma{Name: name, NParams: len(params), Params: params, Stmt: stmt, Doc: doc}
	lm.Proof = func() *Obligation {
		a := make([]*Term, len(params))
		for i, p := range params {
			a[i] = Var(p, SInt)
		}
		return &Obligation{Name: "lemma/" + name, Func: "lemma-library", Kind: "lemma", Goal: stmt(a), Lean: theorem}
	}
	lemmaLib[name] = lm
}

func powT(x, n *Term) *Term { return App("pow", SInt, x, n) }

func init() {
	zero := ConstI(0)
	two := ConstI(2)
	// two representatives in [0, q) of the same class are equal
	{
		lm := &Lemma{Name: "cong_small", NParams: 3, Params: []string{"a", "b", "q"}, Doc: "a ≡ b (mod q), 0 <= a, b < q  =>  a = b"}
		lm.Stmt = func(a []*Term) *Term {
			return Implies(And(congT(a[0], a[1], a[2]), Le(zero, a[0]), Lt(a[0], a[2]), Le(zero, a[1]), Lt(a[1], a[2])), Eq(a[0], a[1]))
		}
		lm.Proof = func() *Obligation {
			a, b, q, k := Var("a", SInt), Var("b", SInt), Var("q", SInt), Var("k", SInt)
			return &Obligation{Name: "lemma/cong_small", Func: "lemma-library", Kind: "lemma", Native: true,
				Assume: []*Term{Eq(a, Add(b, Mul(k, q))), Le(zero, a), Lt(a, q), Le(zero, b), Lt(b, q)}, Goal: Eq(a, b)}
		}
		lemmaLib["cong_small"] = lm
	}
	addLean("pow_one", "pow_one_lvc", []string{"x"},
		func(a []*Term) *Term { return Eq(powT(a[0], ConstI(1)), a[0]) }, "x^1 = x")
	addLean("pow_odd_unit", "odd_pow_2_63", []string{"x"},
		func(a []*Term) *Term {
			return Implies(Eq(Mod(a[0], two), ConstI(1)), congT(powT(a[0], Const(pow2(63))), ConstI(1), Const(W64)))
		}, "x odd => x^(2^63) ≡ 1 (mod 2^64)")
	addLean("pow_zero", "pow_zero_lvc", []string{"x"},
		func(a []*Term) *Term { return Eq(powT(a[0], zero), ConstI(1)) }, "x^0 = 1")
	addLean("pow_even", "pow_even_step", []string{"x", "i"},
		func(a []*Term) *Term {
			return Implies(And(Le(zero, a[1]), Eq(Mod(a[1], two), zero)), Eq(powT(a[0], a[1]), powT(Mul(a[0], a[0]), Div(a[1], two))))
		}, "i even => x^i = (x*x)^(i/2)")
	addLean("pow_odd", "pow_odd_step", []string{"x", "i"},
		func(a []*Term) *Term {
			return Implies(And(Le(zero, a[1]), Eq(Mod(a[1], two), ConstI(1))), Eq(powT(a[0], a[1]), Mul(a[0], powT(Mul(a[0], a[0]), Div(a[1], two)))))
		}, "i odd => x^i = x*(x*x)^(i/2)")
	addLean("pow_cong", "pow_cong", []string{"a", "b", "n", "q"},
		func(a []*Term) *Term {
			return Implies(And(Le(zero, a[2]), congT(a[0], a[1], a[3])), congT(powT(a[0], a[2]), powT(a[1], a[2]), a[3]))
		}, "a ≡ b (mod q) => a^n ≡ b^n (mod q)")
	addLean("pow_add", "pow_add_lvc", []string{"x", "m", "n"},
		func(a []*Term) *Term {
			return Implies(And(Le(zero, a[1]), Le(zero, a[2])), Eq(powT(a[0], Add(a[1], a[2])), Mul(powT(a[0], a[1]), powT(a[0], a[2]))))
		}, "x^(m+n) = x^m * x^n")
	// ---- bit-level facts about powers of two (a power of two is written as a divisor of 2^64) ----
	W := Const(W64)
	one := ConstI(1)
	addLean("and_mask", "and_mask_dvd", []string{"x", "p"},
		func(a []*Term) *Term {
			return Implies(And(Le(zero, a[0]), Lt(zero, a[1]), Eq(Mod(W, a[1]), zero)),
				Eq(App("bvand", SInt, a[0], Sub(a[1], one)), Mod(a[0], a[1])))
		}, "p a power of two (p | 2^64) => x & (p-1) = x mod p")
	addLean("or_pow2", "or_add_pow2", []string{"a", "p"},
		func(a []*Term) *Term {
			return Implies(And(Le(zero, a[0]), Lt(a[0], a[1]), Eq(Mod(W, a[1]), zero)),
				Eq(App("bvor", SInt, a[0], a[1]), Add(a[0], a[1])))
		}, "p a power of two (p | 2^64), a < p => a | p = a + p")
	addLean("cong_dvd", "cong_dvd", []string{"a", "b", "w", "p"},
		func(a []*Term) *Term {
			return Implies(And(congT(a[0], a[1], a[2]), Lt(zero, a[3]), Eq(Mod(a[2], a[3]), zero)), congT(a[0], a[1], a[3]))
		}, "a ≡ b (mod w), p | w => a ≡ b (mod p)")
	// Go's truncated remainder (the encoding of exec.go: sign of the dividend) against the residue
	addLean("tmod_shift", "tmod_shift", []string{"k", "M"},
		func(a []*Term) *Term {
			k, M := a[0], a[1]
			absK := Ite(Le(zero, k), k, Neg(k))
			r := Ite(Le(zero, k), Mod(absK, M), Neg(Mod(absK, M)))
			return Implies(Lt(zero, M), And(Lt(Neg(M), r), Lt(r, M), Eq(Mod(Add(r, M), M), Mod(k, M)), Le(zero, Mod(k, M)), Lt(Mod(k, M), M)))
		}, "0 < M, r = k %go M  =>  -M < r < M, (r + M) mod M = k mod M in [0, M)")
	addLean("mod_range", "mod_range", []string{"a", "M"},
		func(a []*Term) *Term {
			x, M := a[0], a[1]
			return Implies(Lt(zero, M), And(
				Implies(And(Le(zero, x), Lt(x, M)), Eq(Mod(x, M), x)),
				Implies(And(Le(M, x), Lt(x, MulC(big2, M))), Eq(Mod(x, M), Sub(x, M)))))
		}, "0 < M: a in [0,M) => a mod M = a;  a in [M,2M) => a mod M = a - M")
	addLean("div_ceil", "div_ceil", []string{"r", "w"},
		func(a []*Term) *Term {
			r, w := a[0], a[1]
			return Implies(Lt(zero, w), Le(r, Mul(Div(Sub(Add(r, w), ConstI(1)), w), w)))
		}, "0 < w  =>  r <= ((r + w - 1) / w) * w")
	addLean("mod_add_multiple", "mod_add_multiple", []string{"a", "b", "M"},
		func(a []*Term) *Term {
			return Implies(Eq(Mod(a[1], a[2]), zero), Eq(Mod(Add(a[0], a[1]), a[2]), Mod(a[0], a[2])))
		}, "b mod M = 0 => (a + b) mod M = a mod M")
	addLean("mod_shift", "mod_shift", []string{"a", "k", "M"},
		func(a []*Term) *Term {
			return Eq(Mod(Add(a[0], Mul(a[1], a[2])), a[2]), Mod(a[0], a[2]))
		}, "(a + k*M) mod M = a mod M")
	// one iteration of the bit-by-bit discrete logarithm of SolveDiscreteLogGaloisElement
	// (Lean: dlog_step_cases with m = n-3): N = 2^n, E = 2^(n-3), g ≡ 5^k (mod N), k < 2^(n-2),
	// x | E, c = E/x, ku = (k mod c)*x, r1 ≡ 5^ku, r2 ≡ g^x, both reduced
	addLean("dlog_step", "dlog_step_cases", []string{"n", "k", "x", "g", "r1", "r2"},
		func(a []*Term) *Term {
			n, k, x, g, r1, r2 := a[0], a[1], a[2], a[3], a[4], a[5]
			N := App("pow2", SInt, n)
			E := App("pow2", SInt, Sub(n, ConstI(3)))
			Q := App("pow2", SInt, Sub(n, two))
			c := Div(E, x)
			ku := Mul(Mod(k, c), x)
			b := Mod(Div(k, c), two)
			x2 := Div(x, two)
			next := Mul(Mod(k, Div(E, x2)), x2)
			hyp := And(Le(ConstI(3), n), Lt(zero, x), Eq(Mod(E, x), zero), Le(zero, k), Lt(k, Q),
				Eq(N, MulC(big8, E)), Eq(Q, MulC(big2, E)), Lt(zero, E),
				congT(g, powT(ConstI(5), k), N),
				congT(r1, powT(ConstI(5), ku), N), Le(zero, r1), Lt(r1, N),
				congT(r2, powT(g, x), N), Le(zero, r2), Lt(r2, N))
			concl := And(Lt(ku, E), Le(zero, ku),
				Iff(Eq(r1, r2), Eq(b, zero)),
				Implies(Eq(x, one), And(Implies(Eq(b, zero), Eq(ku, k)), Implies(Eq(b, one), Eq(Add(ku, E), k)))),
				Implies(Lt(one, x), And(Eq(Mod(x, two), zero), Eq(Mod(E, x2), zero),
					Implies(Eq(b, zero), Eq(Div(ku, two), next)),
					Implies(Eq(b, one), Eq(Div(Add(ku, E), two), next)))))
			return Implies(hyp, concl)
		}, "one step of the Pohlig-Hellman logarithm of a power of 5 modulo 2^n")
}

var big8 = big.NewInt(8)
var big2 = big.NewInt(2)

func useLemma(name string, args ...*Term) *Term {
	usedLemmas[name] = true
	return lemmaLib[name].Stmt(args)
}

func init() {
	Wc := Const(W64)
	zero := ConstI(0)
	addCongRule(congRule{name: "cong_intro", params: []string{"a", "b", "k", "q"},
		side:  func(a []*Term) *Term { return Eq(a[0], Add(a[1], Mul(a[2], a[3]))) },
		concl: func(a []*Term) triple { return triple{a[0], a[1]} },
		wit:   func(a, k []*Term) *Term { return a[2] }, doc: "a = b + k*q  =>  a ≡ b (mod q)"})
	addCongRule(congRule{name: "cong_refl", params: []string{"a", "q"},
		concl: func(a []*Term) triple { return triple{a[0], a[0]} },
		wit:   func(a, k []*Term) *Term { return zero }})
	addCongRule(congRule{name: "cong_mod", params: []string{"a", "q"},
		side:  func(a []*Term) *Term { return Lt(zero, a[1]) },
		concl: func(a []*Term) triple { return triple{Mod(a[0], a[1]), a[0]} },
		wit:   func(a, k []*Term) *Term { return Neg(Div(a[0], a[1])) }, doc: "0 < q  =>  a mod q ≡ a (mod q)"})
	addCongRule(congRule{name: "cong_sym", params: []string{"a", "b", "q"},
		hyps:  func(a []*Term) []triple { return []triple{{a[0], a[1]}} },
		concl: func(a []*Term) triple { return triple{a[1], a[0]} },
		wit:   func(a, k []*Term) *Term { return Neg(k[0]) }})
	addCongRule(congRule{name: "cong_trans", params: []string{"a", "b", "c", "q"},
		hyps:  func(a []*Term) []triple { return []triple{{a[0], a[1]}, {a[1], a[2]}} },
		concl: func(a []*Term) triple { return triple{a[0], a[2]} },
		wit:   func(a, k []*Term) *Term { return Add(k[0], k[1]) }})
	addCongRule(congRule{name: "cong_add", params: []string{"a", "b", "c", "d", "q"},
		hyps:  func(a []*Term) []triple { return []triple{{a[0], a[1]}, {a[2], a[3]}} },
		concl: func(a []*Term) triple { return triple{Add(a[0], a[2]), Add(a[1], a[3])} },
		wit:   func(a, k []*Term) *Term { return Add(k[0], k[1]) }})
	addCongRule(congRule{name: "cong_sub", params: []string{"a", "b", "c", "d", "q"},
		hyps:  func(a []*Term) []triple { return []triple{{a[0], a[1]}, {a[2], a[3]}} },
		concl: func(a []*Term) triple { return triple{Sub(a[0], a[2]), Sub(a[1], a[3])} },
		wit:   func(a, k []*Term) *Term { return Sub(k[0], k[1]) }})
	addCongRule(congRule{name: "cong_neg", params: []string{"a", "b", "q"},
		hyps:  func(a []*Term) []triple { return []triple{{a[0], a[1]}} },
		concl: func(a []*Term) triple { return triple{Neg(a[0]), Neg(a[1])} },
		wit:   func(a, k []*Term) *Term { return Neg(k[0]) }})
	addCongRule(congRule{name: "cong_scale", params: []string{"a", "b", "s", "q"},
		hyps:  func(a []*Term) []triple { return []triple{{a[0], a[1]}} },
		concl: func(a []*Term) triple { return triple{Mul(a[0], a[2]), Mul(a[1], a[2])} },
		wit:   func(a, k []*Term) *Term { return Mul(k[0], a[2]) }})
	addCongRule(congRule{name: "cong_shift", params: []string{"a", "b", "k", "q"},
		hyps:  func(a []*Term) []triple { return []triple{{a[0], a[1]}} },
		concl: func(a []*Term) triple { return triple{Add(a[0], Mul(a[2], a[3])), a[1]} },
		wit:   func(a, k []*Term) *Term { return Add(k[0], a[2]) }})
	addCongRule(congRule{name: "cong_shift_r", params: []string{"a", "b", "k", "q"},
		hyps:  func(a []*Term) []triple { return []triple{{a[0], a[1]}} },
		concl: func(a []*Term) triple { return triple{a[0], Add(a[1], Mul(a[2], a[3]))} },
		wit:   func(a, k []*Term) *Term { return Sub(k[0], a[2]) }})
	addCongRule(congRule{name: "cong_mul", params: []string{"a", "b", "c", "d", "q"},
		hyps:  func(a []*Term) []triple { return []triple{{a[0], a[1]}, {a[2], a[3]}} },
		concl: func(a []*Term) triple { return triple{Mul(a[0], a[2]), Mul(a[1], a[3])} },
		wit: func(a, k []*Term) *Term {
			return Add(Mul(k[0], a[3]), Mul(k[1], a[1]), Mul(Mul(k[0], k[1]), a[4]))
		}})
	addCongRule(congRule{name: "cong_cancelW", params: []string{"a", "b", "c", "e", "q"},
		side:  func(a []*Term) *Term { return Eq(Mul(a[4], a[2]), Add(ConstI(1), MulC(W64, a[3]))) },
		hyps:  func(a []*Term) []triple { return []triple{{MulC(W64, a[0]), MulC(W64, a[1])}} },
		concl: func(a []*Term) triple { return triple{a[0], a[1]} },
		wit: func(a, k []*Term) *Term {
			return Sub(Mul(Sub(a[0], a[1]), a[2]), Mul(k[0], a[3]))
		}, doc: "q*c = 1 + 2^64*e,  a*2^64 ≡ b*2^64 (mod q)  =>  a ≡ b (mod q)   (2^64 is invertible modulo an odd q)"})
	addCongRule(congRule{name: "cong_eq", params: []string{"a", "b", "a2", "b2", "q"},
		side:  func(a []*Term) *Term { return And(Eq(a[0], a[2]), Eq(a[1], a[3])) },
		hyps:  func(a []*Term) []triple { return []triple{{a[0], a[1]}} },
		concl: func(a []*Term) triple { return triple{a[2], a[3]} },
		wit:   func(a, k []*Term) *Term { return k[0] }})
	// cancel a factor W = 2^64 is not available in general; Montgomery proofs keep the factor.

	addArith("mulhyp", []string{"l", "r", "f"}, func(a []*Term) *Term {
		return Implies(Eq(a[0], a[1]), Eq(Mul(a[0], a[2]), Mul(a[1], a[2])))
	}, "l = r  =>  l*f = r*f  (both sides are expanded by the polynomial normal form)")
	addArithBy("mont_cancel", []string{"m", "c", "q"}, func(a []*Term) *Term {
		m, c, q := a[0], a[1], a[2]
		pre := And(Le(zero, m), Lt(m, Wc), Le(zero, c), Le(zero, q), Eq(Mod(Mul(q, c), Wc), ConstI(1)))
		return Implies(pre, Eq(Mod(Mul(Mod(Mul(m, c), Wc), q), Wc), m))
	}, func(a []*Term) []*Term {
		m, c, q := a[0], a[1], a[2]
		mc, qc := Mul(m, c), Mul(q, c)
		return []*Term{
			useLemma("mulhyp", mc, Add(MulC(W64, Div(mc, Wc)), Mod(mc, Wc)), q),
			useLemma("mulhyp", qc, Add(MulC(W64, Div(qc, Wc)), ConstI(1)), m),
		}
	}, "q*c ≡ 1 (mod 2^64), 0<=m<2^64  =>  (((m*c) mod 2^64)*q) mod 2^64 = m")
	addArith("mono_le", []string{"a", "a2", "b"}, func(a []*Term) *Term {
		return Implies(And(Le(a[0], a[1]), Le(zero, a[2])), Le(Mul(a[0], a[2]), Mul(a[1], a[2])))
	}, "a <= a2, 0 <= b  =>  a*b <= a2*b")
	addArith("mono_lt", []string{"a", "a2", "b"}, func(a []*Term) *Term {
		return Implies(And(Lt(a[0], a[1]), Lt(zero, a[2])), Lt(Mul(a[0], a[2]), Mul(a[1], a[2])))
	}, "a < a2, 0 < b  =>  a*b < a2*b")
	addArith("mul_pos", []string{"a", "b"}, func(a []*Term) *Term {
		return Implies(And(Le(zero, a[0]), Le(zero, a[1])), Le(zero, Mul(a[0], a[1])))
	}, "0<=a, 0<=b => 0 <= a*b")
	addArith("barrett", []string{"P", "u", "q"}, func(a []*Term) *Term {
		P, u, q := a[0], a[1], a[2]
		WW := Const(new(big.Int).Mul(W64, W64))
		pre := And(Lt(zero, q), Le(zero, P), Lt(P, WW), Le(Mul(u, q), WW), Lt(WW, Mul(Add(u, ConstI(1)), q)))
		s := Div(Mul(P, u), WW)
		d := Sub(P, Mul(s, q))
		return Implies(pre, And(Le(zero, d), Lt(d, MulC(big.NewInt(2), q))))
	}, "u = floor(2^128/q), 0<=P<2^128, s = floor(P*u/2^128)  =>  0 <= P - s*q < 2q")
	addArith("barrett_w", []string{"P", "u", "q", "s", "rem"}, func(a []*Term) *Term {
		P, u, q, sq, rem := a[0], a[1], a[2], a[3], a[4]
		WW := Const(new(big.Int).Mul(W64, W64))
		pre := And(Lt(zero, q), Le(zero, P), Lt(P, WW), Le(Mul(u, q), WW), Lt(WW, Mul(Add(u, ConstI(1)), q)),
			Eq(Mul(P, u), Add(Mul(sq, WW), rem)), Le(zero, rem), Lt(rem, WW))
		d := Sub(P, Mul(sq, q))
		return Implies(pre, And(Le(zero, d), Lt(d, MulC(big.NewInt(2), q))))
	}, "u = floor(2^128/q), 0<=P<2^128, P*u = s*2^128 + rem, 0<=rem<2^128  =>  0 <= P - s*q < 2q")
	addArith("barrett1", []string{"a", "u", "q"}, func(a []*Term) *Term {
		x, u, q := a[0], a[1], a[2]
		WW := Const(new(big.Int).Mul(W64, W64))
		pre := And(Lt(zero, q), Le(zero, x), Lt(x, Wc), Le(Mul(u, q), WW), Lt(WW, Mul(Add(u, ConstI(1)), q)))
		s := Div(Mul(x, u), Wc)
		d := Sub(MulC(W64, x), Mul(s, q))
		return Implies(pre, And(Le(zero, d), Lt(d, MulC(big.NewInt(2), q))))
	}, "u = floor(2^128/q), 0<=a<2^64, s = floor(a*u/2^64)  =>  0 <= a*2^64 - s*q < 2q")
	addArith("small_multiple", []string{"k", "q", "lo", "hi"}, func(a []*Term) *Term {
		// lo <= k*q <= hi with -q < lo, hi < q and q > 0 forces k = 0
		k, q, lo, hi := a[0], a[1], a[2], a[3]
		return Implies(And(Lt(zero, q), Le(lo, Mul(k, q)), Le(Mul(k, q), hi), Lt(Neg(q), lo), Lt(hi, q)), Eq(k, zero))
	}, "a multiple of q strictly between -q and q is 0")
}

func lemmaNames() []string {
	var ns []string
	for n := range lemmaLib {
		ns = append(ns, n)
	}
	sort.Strings(ns)
	return ns
}

package ring

import (
	"math/big"
	"math/rand"
	"testing"
)

// Conjugate-invariant ring (the ring used by CKKS with RingType = ConjugateInvariant),
// N = 2^5 (odd log2(N)) and the library's own 61-bit test primes Qi60 / Pi60 (< 2^61,
// accepted by rlwe.CheckModuli).

func demoC02Round(x, d *big.Int) *big.Int {
	// floor((2x+d)/(2d)) : rounded half-up quotient
	n := new(big.Int).Lsh(x, 1)
	n.Add(n, d)
	q, m := new(big.Int), new(big.Int)
	q.DivMod(n, new(big.Int).Lsh(d, 1), m)
	return q
}

func demoC02Center(x, M *big.Int) *big.Int {
	h := new(big.Int).Rsh(M, 1)
	y := new(big.Int).Add(x, h)
	y.Mod(y, M)
	return y.Sub(y, h)
}

func TestDemoC02ConjugateInvariantModDownAndRescaleNTT(t *testing.T) {

	N := 32

	ringQ, err := NewRingConjugateInvariant(N, Qi60[:3])
	if err != nil {
		t.Fatal(err)
	}
	ringP, err := NewRingConjugateInvariant(N, Pi60[:2])
	if err != nil {
		t.Fatal(err)
	}

	rnd := rand.New(rand.NewSource(1))

	t.Run("ModDownQPtoQNTT", func(t *testing.T) {
		be := NewBasisExtender(ringQ, ringP)
		levelQ, levelP := ringQ.MaxLevel(), ringP.MaxLevel()
		Q, P := ringQ.ModulusAtLevel[levelQ], ringP.ModulusAtLevel[levelP]
		QP := new(big.Int).Mul(Q, P)

		xs := make([]*big.Int, N)
		for j := range xs {
			xs[j] = new(big.Int).Rand(rnd, QP)
		}
		pQ, pP := ringQ.NewPoly(), ringP.NewPoly()
		ringQ.SetCoefficientsBigint(xs, pQ)
		ringP.SetCoefficientsBigint(xs, pP)
		ringQ.NTT(pQ, pQ)
		ringP.NTT(pP, pP)

		out := ringQ.NewPoly()
		be.ModDownQPtoQNTT(levelQ, levelP, pQ, pP, out)
		ringQ.INTT(out, out)

		got := make([]*big.Int, N)
		ringQ.PolyToBigint(out, 1, got)

		bad := 0
		for j := range xs {
			want := demoC02Round(demoC02Center(xs[j], QP), P)
			diff := demoC02Center(new(big.Int).Sub(got[j], want), Q)
			if diff.CmpAbs(big.NewInt(1)) > 0 {
				if bad < 3 {
					t.Errorf("coeff %d: round(x/P) = %v, got %v (error %v)", j, new(big.Int).Mod(want, Q), got[j], diff)
				}
				bad++
			}
		}
		if bad > 0 {
			t.Errorf("ModDownQPtoQNTT: %d/%d coefficients differ from round(x/P) by more than 1", bad, N)
		}
	})

	t.Run("DivRoundByLastModulusNTT", func(t *testing.T) {
		level := ringQ.MaxLevel()
		Q := ringQ.ModulusAtLevel[level]
		qL := new(big.Int).SetUint64(Qi60[level])
		rOut := ringQ.AtLevel(level - 1)

		xs := make([]*big.Int, N)
		for j := range xs {
			xs[j] = new(big.Int).Rand(rnd, Q)
		}
		p0 := ringQ.NewPoly()
		ringQ.SetCoefficientsBigint(xs, p0)
		ringQ.NTT(p0, p0)

		out := rOut.NewPoly()
		ringQ.DivRoundByLastModulusNTT(p0, ringQ.NewPoly(), out)
		rOut.INTT(out, out)

		got := make([]*big.Int, N)
		rOut.PolyToBigint(out, 1, got)

		bad := 0
		for j := range xs {
			want := demoC02Round(xs[j], qL)
			want.Mod(want, rOut.ModulusAtLevel[level-1])
			if got[j].Cmp(want) != 0 {
				if bad < 3 {
					t.Errorf("coeff %d: round(x/q_L) = %v, got %v", j, want, got[j])
				}
				bad++
			}
		}
		if bad > 0 {
			t.Errorf("DivRoundByLastModulusNTT: %d/%d coefficients are not the rounded quotient", bad, N)
		}
	})
}

package main

// Per-property configuration of the registered checks.

var stdTrusted = []string{
	"go/packages + go/types front end (x/tools v0.29.0)",
	"mathematical lemmas stated in DESIGN.md section 5 (CRT isomorphism, Fermat for the oracle-prime moduli, Cooley-Tukey composition)",
}

func copySimple(id string) func(prog *Program, repo, tier string) ([]simpleObligation, []string) {
	return func(prog *Program, repo, tier string) ([]simpleObligation, []string) {
		return copyObligations(prog, id), nil
	}
}

var engineBAssumptions = []string{
	"Engine B executes the go/ssa form of the function under contract; polynomials are elements of an abstract commutative ring (ghost val/mexp/domain), so an ensures clause is a polynomial identity over the integers that then holds in Z_Q[X]/(X^N+1)",
	"arithmetic leaves (ring.Ring methods, samplers, Poly.Copy/Resize, ExtendBasisSmallNormAndCenter) carry ASSUMED abstract contracts: the ring-element reading of the coefficient-level contracts of property C01/C02 (link: CRT, row-wise congruence on every modulus = equality in the ring)",
	"module functions called without a contract are executed inline (transparent accessors such as Level(), Degree(), RingQ(), AtLevel()); calls leaving the module are assumed not to touch polynomial storage",
	"distinct access paths from the inputs denote distinct storage unless the contract declares an alias (case ... ; alias / set)",
	"machine integers above the ring layer (levels, degrees) are mathematical; loops are unwound to the contract's bound with an unwinding obligation",
	"symbolic pointers inside inputs are non-nil unless the contract sets them nil (e.g. parameter sets without auxiliary modulus P are covered only where a case says so)",
	"NOT decided: noise magnitude, statistical quality of the samples, anything about serialization",
}

var propertyConfigs = map[string]*propertyConfig{
	"C03": {
		ID: "C03", Packages: []string{"./..."}, Level: "proof",
		Explain: "Abstract contracts (afunc blocks in core/rlwe/zz_contracts_verif.go) on secret-key encryption of zero (both the Q and the QP variant, every NTT flag and degree case), its dispatcher for *Ciphertext, public-key encryption without P, and Decrypt (degree 1 and 2): " +
			"c0 + c1*s equals exactly one fresh draw of the declared error distribution, public-key encryption adds two distinct error draws and one secret draw, decryption computes c0 + c1*s (+ c2*s^2) and copies the metadata.",
		Assumptions: engineBAssumptions, Trusted: stdTrusted,
	},
	"C14": {
		ID: "C14", Packages: []string{"./..."}, Level: "proof",
		Explain: "Abstract contracts on the collective public-key protocol: GenShare = e_i - s_i*crp with one fresh error draw, in NTT/Montgomery form on Q and P; AggregateShares = +; GenPublicKey = (aggregate, crp). " +
			"Lemma over the contracts (stated): aggregation being + in a commutative ring, the key is (sum e_i - (sum s_i)*crp, crp) for every order and grouping.",
		Assumptions: engineBAssumptions, Trusted: stdTrusted,
	},
	"C16": {
		ID: "C16", Packages: []string{"./..."}, Level: "proof",
		Explain: "Abstract contracts on collective key switching to a secret-shared key: GenShare = c1*(s_in - s_out) + one fresh draw of the smudging distribution; AggregateShares = + (error on level mismatch); KeySwitch = (c0 + sum shares, c1); " +
			"plus the copy contracts that keep the smudging sampler bound to the stored noise distribution in ShallowCopy.",
		Assumptions: append(append([]string{}, engineBAssumptions...), "NOT decided: public-key switching, encryption-to-shares, refresh and masked transform (encoder semantics / float bounds)"),
		Trusted: stdTrusted, Simple: copySimple("C16"),
	},
	"C19": {
		ID: "C19", Packages: []string{"./core/rlwe/...", "./ring/..."}, Level: "proof",
		Explain: "Acceptance-soundness bridge: rlwe.CheckModuli / checkSizeParams / checkModuliLogSize are under contract; their postconditions say that an accepted moduli chain satisfies the precondition under which the ring kernels and the lazy NTT schedule were verified " +
			"(every Q modulus < 2^61 and prime, every P modulus < 2^62 and prime, 4 <= logN <= 20, requested sizes in ]0,60] / ]0,61]).  NewParameters calls CheckModuli and returns its error (by inspection; the constructor itself is outside the subset).",
		Assumptions: []string{
			"primality oracle ring.IsPrime = math/big.ProbablyPrime(0), exact below 2^64 (assumed contract)",
			"P moduli in [2^61, 2^62) are accepted on purpose (LogP = 61 requests generate primes just above 2^61 and shipped bootstrapping sets use them): for those the lazy NTT bound 8p < 2^64 is NOT implied; no failing input is known (DESIGN.md, findings F1b)",
			"NOT decided: prime generation from bit sizes (float log2 window), plaintext-modulus checks of bgv.NewParameters, the 128-bit security table, JSON round trip",
		},
		Trusted: stdTrusted,
	},
	"C10": {
		ID:       "C10",
		Packages: []string{"./..."},
		Level:    "proof",
		Explain: "Copy-constructor contracts (`//@ copy T.M` with shared / fresh / copied / rebound / derived classes for every field) in the zz_contracts_verif.go files; " +
			"the constructor's returned composite literal is executed symbolically on the typed AST, one obligation per struct field: the field is classified (completeness), set, and set the way its class demands " +
			"(shared = exactly receiver.f; fresh = newly built, not receiver.f; copied = a call on receiver.f; rebound = the parameter; derived = built from the named receiver fields).",
		Assumptions: []string{
			"decides the completeness / sharing-discipline clauses of C10 only: every field of the copy is accounted for and owned (scratch, sampler, PRNG-backed) state is never shared between copies",
			"NOT decided: behavioural equality of copy and original beyond field provenance, deep-copy contents, and data-race freedom of memory classified shared (that needs the frame engine over all methods, see DESIGN.md)",
			"constructors must return a composite literal (directly or through one local); other shapes are reported as failed target obligations, not skipped",
		},
		Trusted: []string{"go/packages + go/types front end (x/tools v0.29.0)", "the field classification in the contract files is the specification (written from the documented intent of each constructor)"},
		Simple:  copySimple("C10"),
	},
	"C01": {
		ID:       "C01",
		Packages: []string{"./ring/..."},
		Level:    "proof",
		Explain: "Every function of the ring layer listed under 'functions' carries a contract (requires/ensures/assigns/loop invariants) in ring/zz_contracts_verif.go; " +
			"lvc symbolically executes the real body from /repo's working tree and discharges one SMT obligation per postcondition, callee precondition, bounds check, " +
			"unsafe 8-lane window, loop-invariant clause (per lane) and frame condition, for all inputs in the stated ranges and all lengths.",
		Assumptions: []string{
			"uint64 arithmetic is modelled exactly (wrap-around mod 2^64); signed int arithmetic is mathematical with an overflow obligation at every operation",
			"variable*variable products are the uninterpreted function mul in polynomial normal form; the nonlinear facts used are instances of library lemmas that are themselves proved on every run",
			"slices have length <= 2^40 and addresses <= 2^56 (address-space bound)",
			"meaning clauses of vector kernels follow from the per-lane data-flow postcondition plus the scalar 'meaning' lemma (meta-step of the engine)",
			"NOT decided here: that the log N butterfly layers compose to the negacyclic DFT (stated lemma, DESIGN.md 4/C01 4c)",
		},
		Trusted: stdTrusted,
	},
}

package rlwe

// Finding F36 (property C10, "nothing that the original can do fails on the copy"):
// EvaluationKey.CopyNew copies the gadget ciphertext but not the seed of a compressed key: the
// original serializes, its deep copy fails with "seed is nil".

import (
	"bytes"
	"testing"

)

func TestF36EvaluationKeyCopyDropsSeed(t *testing.T) {
	params, err := NewParametersFromLiteral(ParametersLiteral{LogN: 10, LogQ: []int{50, 40}, LogP: []int{50}, NTTFlag: true})
	if err != nil {
		t.Fatal(err)
	}
	kgen := NewKeyGenerator(params)
	sk := kgen.GenSecretKeyNew()
	evk := kgen.GenEvaluationKeyNew(sk, kgen.GenSecretKeyNew(), EvaluationKeyParameters{Compressed: true})
	if !evk.IsCompressed() {
		t.Skip("key generator did not produce a compressed key")
	}
	var b0, b1 bytes.Buffer
	if _, err := evk.WriteTo(&b0); err != nil {
		t.Fatalf("original: %v", err)
	}
	cpy := evk.CopyNew()
	if _, err := cpy.WriteTo(&b1); err != nil {
		t.Fatalf("deep copy of a compressed key cannot be written: %v", err)
	}
	if !bytes.Equal(b0.Bytes(), b1.Bytes()) {
		t.Fatalf("deep copy serializes differently from the original")
	}
	if cpy.Seed == evk.Seed {
		t.Fatalf("deep copy shares the seed array with the original")
	}
}

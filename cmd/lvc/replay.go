package main

// tryReplay attempts to turn a failed obligation into a concrete failing input replayed on the
// real code.  (Filled in per function shape; when no replay is possible the violation is
// reported with no-failing-input-found and the solver output.)
func tryReplay(prog *Program, r *FuncResult, o *Obligation) {
}

package main

import (
	"strings"
	"fmt"
	"go/types"
	"math/big"
)

// Symbolic values of the executor.

type Value interface{}

type IntV struct{ T *Term }
type BoolV struct{ T *Term }
type ArrV struct{ Elems []Value }

// SliceV is a Go slice whose elements live in the heap named Heap (one SMT array per
// element kind).  For slices of slices the elements are headers given by the
// uninterpreted functions row.addr/row.len/row.cap of (Addr, index): outer slices are
// immutable in the code under contract.
type SliceV struct {
	Addr, Len, Cap *Term
	Elem           types.Type
}

// WinV is the result of the idiom (*[N]uint64)(unsafe.Pointer(&p[j])).
type WinV struct {
	Addr *Term
	N    int
	Elem types.Type
}

// StructV is a struct value or the target of a pointer to a struct whose fields are
// materialised lazily as symbolic values named Prefix.field.
type StructV struct {
	T      types.Type
	Prefix string
	F      map[string]Value
	// Key: when non-nil the struct is an element of a slice of structs; its leaf fields are the
	// uninterpreted functions F.<Prefix>.<field>(Key...) so that they are functions of the index
	Key []*Term
}

// ErrV is a value of type error: only nil-ness is modelled (the text of errors is dropped).
type ErrV struct{ IsNil *Term }

type TupleV struct{ Vs []Value }
type NilV struct{}
// RefV is a pointer to an object of a struct type declared outside the module (math/big.Int,
// math/big.Float): the object is modelled by ONE ghost integer, its mathematical value, kept in
// the ghost heap G.<type> at the object's identity ID.  Methods on it carry assumed (`ext:`)
// contracts with `refset` effects.
type RefV struct {
	ID *Term
	T  types.Type // pointee type
}

// extRefType: t is a pointer to a named struct type that is not declared in the module under verification.
func extRefType(t types.Type) (types.Type, bool) {
	p, ok := t.Underlying().(*types.Pointer)
	if !ok {
		return nil, false
	}
	n, ok := p.Elem().(*types.Named)
	if !ok || n.Obj().Pkg() == nil {
		return nil, false
	}
	if _, isStruct := n.Underlying().(*types.Struct); !isStruct {
		return nil, false
	}
	if strings.HasPrefix(n.Obj().Pkg().Path(), modPath) {
		return nil, false
	}
	return n, true
}

func refHeapName(t types.Type) string {
	return "G." + types.TypeString(t, func(p *types.Package) string { return p.Path() })
}

type OpaqueV struct {
	Desc string
	T    types.Type
}

func pow2(n int) *big.Int { return new(big.Int).Lsh(bigOne, uint(n)) }

type intKind struct {
	bits   int
	signed bool
}

func intKindOf(t types.Type) (intKind, bool) {
	b, ok := t.Underlying().(*types.Basic)
	if !ok {
		return intKind{}, false
	}
	switch b.Kind() {
	case types.Uint64, types.Uint, types.Uintptr:
		return intKind{64, false}, true
	case types.Uint32:
		return intKind{32, false}, true
	case types.Uint16:
		return intKind{16, false}, true
	case types.Uint8:
		return intKind{8, false}, true
	case types.Int64, types.Int:
		return intKind{64, true}, true
	case types.Int32:
		return intKind{32, true}, true
	case types.Int16:
		return intKind{16, true}, true
	case types.Int8:
		return intKind{8, true}, true
	case types.UntypedInt, types.UntypedRune:
		return intKind{0, true}, true // mathematical
	}
	return intKind{}, false
}

func (k intKind) rng() (lo, hi *big.Int) {
	if k.bits == 0 {
		return nil, nil
	}
	if k.signed {
		return new(big.Int).Neg(pow2(k.bits - 1)), new(big.Int).Sub(pow2(k.bits-1), bigOne)
	}
	return bigZero, new(big.Int).Sub(pow2(k.bits), bigOne)
}

func isBoolType(t types.Type) bool {
	b, ok := t.Underlying().(*types.Basic)
	return ok && b.Info()&types.IsBoolean != 0
}

func isErrorType(t types.Type) bool {
	n, ok := t.(*types.Named)
	return ok && n.Obj().Pkg() == nil && n.Obj().Name() == "error"
}

func heapName(elem types.Type) string {
	if b, ok := elem.Underlying().(*types.Basic); ok {
		return "H." + b.Name()
	}
	return "H." + types.TypeString(elem, func(p *types.Package) string { return p.Name() })
}

func asInt(v Value) *Term {
	switch x := v.(type) {
	case IntV:
		return x.T
	case BoolV:
		return Ite(x.T, ConstI(1), ConstI(0))
	}
	panic(verr("expected integer value, got %T", v))
}

func asBool(v Value) *Term {
	switch x := v.(type) {
	case BoolV:
		return x.T
	}
	panic(verr("expected boolean value, got %T", v))
}

// verifError aborts the verification of one function (out-of-subset or contract error).
type verifError struct{ msg string }

func (e verifError) Error() string { return e.msg }
func verr(f string, a ...interface{}) verifError { return verifError{fmt.Sprintf(f, a...)} }

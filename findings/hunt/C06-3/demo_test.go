package ckks

import (
	"math"
	"math/cmplx"
	"testing"

	"github.com/tuneinsight/lattigo/v6/core/rlwe"
)

// c + (a*a rescaled) * b with MulThenAdd / MulRelinThenAdd. The receiver c has the default scale
// 2^30, the product has scale (2^60/q)*2^30, so the receiver must be scaled up by 2^60/q, which
// is not an integer. mulRelinThenAdd passes this *big.Float to Evaluator.Mul, which for a
// non-integer scalar additionally multiplies by q_level, and then overwrites the scale of the
// receiver with op0.Scale*op1.Scale: the c term comes out multiplied by about 2^30.
func TestC06Demo3MulThenAddNonIntegerRatio(t *testing.T) {
	p, err := NewParametersFromLiteral(ParametersLiteral{LogN: 6, LogQ: []int{40, 30, 30, 30, 30}, LogP: []int{50}, LogDefaultScale: 30})
	if err != nil {
		t.Fatal(err)
	}
	kgen := rlwe.NewKeyGenerator(p)
	sk := kgen.GenSecretKeyNew()
	ecd := NewEncoder(p)
	eval := NewEvaluator(p, rlwe.NewMemEvaluationKeySet(kgen.GenRelinearizationKeyNew(sk)))
	enc := rlwe.NewEncryptor(p, sk)
	dec := rlwe.NewDecryptor(p, sk)
	n := p.MaxSlots()
	a, b, c, want := make([]complex128, n), make([]complex128, n), make([]complex128, n), make([]complex128, n)
	for i := range a {
		a[i] = complex(math.Sin(float64(i)), math.Cos(float64(3*i))) * 0.7
		b[i] = complex(math.Cos(float64(2*i)), math.Sin(float64(5*i))) * 0.7
		c[i] = complex(math.Sin(float64(7*i)), math.Cos(float64(i))) * 0.7
		want[i] = c[i] + a[i]*a[i]*b[i]
	}
	encrypt := func(v []complex128) *rlwe.Ciphertext {
		pt := NewPlaintext(p, p.MaxLevel())
		if err := ecd.Encode(v, pt); err != nil {
			t.Fatal(err)
		}
		ct, err := enc.EncryptNew(pt)
		if err != nil {
			t.Fatal(err)
		}
		return ct
	}
	cta, ctb, ctc := encrypt(a), encrypt(b), encrypt(c)
	ctaa, err := eval.MulRelinNew(cta, cta)
	if err != nil {
		t.Fatal(err)
	}
	if err = eval.Rescale(ctaa, ctaa); err != nil {
		t.Fatal(err)
	}
	for _, relin := range []bool{false, true} {
		out := ctc.CopyNew()
		if relin {
			err = eval.MulRelinThenAdd(ctaa, ctb, out)
		} else {
			err = eval.MulThenAdd(ctaa, ctb, out)
		}
		if err != nil {
			t.Fatal(err)
		}
		got := make([]complex128, n)
		if err = ecd.Decode(dec.DecryptNew(out), got); err != nil {
			t.Fatal(err)
		}
		for i := range got {
			if e := cmplx.Abs(got[i] - want[i]); !(e < 1e-4) {
				t.Errorf("relin=%v: slot %d: got %v want %v (recorded scale 2^%.2f)", relin, i, got[i], want[i], math.Log2(out.Scale.Float64()))
				break
			}
		}
	}
}

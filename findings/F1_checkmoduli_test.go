// Demonstration of finding F1 (property C19, also C01): place in core/rlwe and run
//   go test -vet=off -run TestFindingF1 ./core/rlwe/
// On the tree before the "fix:" commit the 62-bit NTT-friendly prime below is ACCEPTED by
// NewParametersFromLiteral although the lazy forward NTT needs 8q < 2^64, and INTT(NTT(a)) != a.
// After the fix the literal is rejected with an error (the test then passes).
package rlwe

import "testing"

func TestFindingF1(t *testing.T) {
	const q = uint64(4611686018427322369) // 62 bits, q = 1 mod 2^13
	params, err := NewParametersFromLiteral(ParametersLiteral{LogN: 12, Q: []uint64{q}, NTTFlag: true})
	if err != nil {
		return // rejected: the acceptance-soundness obligation holds
	}
	r := params.RingQ()
	a, b := r.NewPoly(), r.NewPoly()
	for i := range a.Coeffs[0] {
		a.Coeffs[0][i] = q - 1
	}
	r.NTT(a, b)
	r.INTT(b, b)
	for i := range a.Coeffs[0] {
		if a.Coeffs[0][i] != b.Coeffs[0][i] {
			t.Fatalf("accepted modulus %d (62 bits) but INTT(NTT(a))[%d] = %d != %d", q, i, b.Coeffs[0][i], a.Coeffs[0][i])
		}
	}
}

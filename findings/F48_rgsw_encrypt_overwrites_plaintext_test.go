package rgsw

// Finding F48 (properties C20 / C09): rgsw.Encryptor.Encrypt with a plaintext that is already in the NTT
// domain and in Montgomery form copied the WRONG way (pt.Value.CopyLvl(levelQ, buffer)): the caller's
// plaintext was overwritten with the encryptor's buffer and the old contents of the buffer (zero for a
// new encryptor) were encrypted.  The library's tests compare the ciphertext with the plaintext AFTER the
// call, i.e. with the overwritten one.

import (
	"testing"

	"github.com/tuneinsight/lattigo/v6/core/rlwe"
	"github.com/tuneinsight/lattigo/v6/ring/ringqp"
)

func TestF48RGSWEncryptLeavesPlaintextIntact(t *testing.T) {
	params, _ := rlwe.NewParametersFromLiteral(rlwe.ParametersLiteral{LogN: 10, LogQ: []int{27}, LogP: []int{30}, NTTFlag: true})
	kgen := rlwe.NewKeyGenerator(params)
	sk, pk := kgen.GenKeyPairNew()
	for name, key := range map[string]rlwe.EncryptionKey{"sk": sk, "pk": pk} {
		pt := rlwe.NewPlaintext(params, params.MaxLevel())
		kgen.GenSecretKey(&rlwe.SecretKey{Value: ringqp.Poly{Q: pt.Value, P: params.RingP().NewPoly()}})
		pt.IsMontgomery = true
		want := *pt.Value.CopyNew()
		ct := NewCiphertext(params, params.MaxLevelQ(), params.MaxLevelP(), 7)
		enc := NewEncryptor(params, key)
		if err := enc.Encrypt(pt, ct); err != nil {
			t.Fatal(err)
		}
		if !pt.Value.Equal(&want) {
			t.Errorf("%s: Encrypt modified the caller's plaintext", name)
		}
		if l, r := NoiseRGSWCiphertext(ct, want, sk, params); l > 12 || r > 12 {
			t.Errorf("%s: noise of the RGSW ciphertext against the ORIGINAL plaintext: (%.1f, %.1f) bits", name, l, r)
		}
	}
}

package rgsw

import (
	"math/big"
	"testing"

	"github.com/tuneinsight/lattigo/v6/core/rlwe"
	"github.com/tuneinsight/lattigo/v6/ring"
	"github.com/tuneinsight/lattigo/v6/utils/sampling"
)

// External product of a coefficient-domain RLWE ciphertext (IsNTT = false) in the path taken for
// two or more auxiliary primes: the values are computed correctly but left in the NTT domain,
// while the receiver keeps announcing IsNTT = false, so that decrypting the receiver gives garbage.
func TestDemoC20_2_ExternalProductMultiPNonNTTOutputDomain(t *testing.T) {

	params, err := rlwe.NewParametersFromLiteral(rlwe.ParametersLiteral{
		LogN:    10,
		Q:       []uint64{0x1fffffffffe00001, 0x1fffffffffc80001},
		P:       []uint64{0x1fffffffff500001, 0x1fffffffff380001},
		NTTFlag: false,
	})
	if err != nil {
		t.Fatal(err)
	}

	sk := rlwe.NewKeyGenerator(params).GenSecretKeyNew()
	rQ := params.RingQ()
	prng, _ := sampling.NewPRNG()

	m := rQ.NewPoly()
	ring.NewUniformSampler(prng, rQ).Read(m)
	g := rQ.NewPoly()
	for i, s := range rQ.SubRings {
		g.Coeffs[i][0] = 1
		g.Coeffs[i][3] = s.Modulus - 1
		g.Coeffs[i][params.N()-1] = 1
	}

	want := rQ.NewPoly()
	a, b := rQ.NewPoly(), rQ.NewPoly()
	rQ.NTT(m, a)
	rQ.NTT(g, b)
	rQ.MForm(b, b)
	rQ.MulCoeffsMontgomery(a, b, want)
	rQ.INTT(want, want)

	ptM := rlwe.NewPlaintext(params, params.MaxLevel())
	ptM.Value.Copy(m)
	ptG := rlwe.NewPlaintext(params, params.MaxLevel())
	ptG.Value.Copy(g)

	ct := rlwe.NewCiphertext(params, 1, params.MaxLevel())
	if ct.IsNTT {
		t.Fatal("expected a coefficient-domain ciphertext")
	}
	if err = rlwe.NewEncryptor(params, sk).Encrypt(ptM, ct); err != nil {
		t.Fatal(err)
	}

	ctG := NewCiphertext(params, params.MaxLevelQ(), params.MaxLevelP(), 0)
	if err = NewEncryptor(params, sk).Encrypt(ptG, ctG); err != nil {
		t.Fatal(err)
	}

	for _, inplace := range []bool{false, true} {

		in := ct.CopyNew()
		out := in
		if !inplace {
			out = rlwe.NewCiphertext(params, 1, params.MaxLevel())
		}

		NewEvaluator(params, nil).ExternalProduct(in, ctG, out)

		// Decrypt the receiver as it describes itself.
		pt := rlwe.NewDecryptor(params, sk).DecryptNew(out)
		have := rQ.NewPoly()
		if pt.IsNTT {
			rQ.INTT(pt.Value, have)
		} else {
			have.Copy(pt.Value)
		}

		d := rQ.NewPoly()
		rQ.Sub(have, want, d)
		c := make([]*big.Int, rQ.N())
		for i := range c {
			c[i] = new(big.Int)
		}
		rQ.PolyToBigintCentered(d, 1, c)
		max := new(big.Int)
		for i := range c {
			if c[i].Abs(c[i]).Cmp(max) > 0 {
				max.Set(c[i])
			}
		}

		// With NTTFlag = true the same set-up gives about 7 bits of noise.
		if max.BitLen() > 20 {
			t.Errorf("inplace=%v: receiver (IsNTT=%v) does not decrypt to m*g: |error| has %d bits, want <= 20 bits (log2(Q) = 122)", inplace, out.IsNTT, max.BitLen())
		}
	}
}

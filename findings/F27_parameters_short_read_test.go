package rlwe

// Finding F27 (property C08): rlwe.Parameters.ReadFrom reads the JSON body with a single Read call.
// A reader that legally returns fewer bytes than asked for (any network connection, a small bufio
// buffer) makes a valid stream fail to parse, or - at the count level - consume fewer bytes than
// were written.

import (
	"bytes"
	"testing"
	"testing/iotest"
)

func TestF27ParametersShortRead(t *testing.T) {
	params, err := NewParametersFromLiteral(ParametersLiteral{LogN: 10, LogQ: []int{50, 40}, LogP: []int{50}, NTTFlag: true})
	if err != nil {
		t.Fatal(err)
	}
	var buf bytes.Buffer
	written, err := params.WriteTo(&buf)
	if err != nil {
		t.Fatal(err)
	}
	data := buf.Bytes()
	for name, r := range map[string]func() interface {
		Read([]byte) (int, error)
	}{
		"one byte at a time": func() interface{ Read([]byte) (int, error) } { return iotest.OneByteReader(bytes.NewReader(data)) },
		"half reads":         func() interface{ Read([]byte) (int, error) } { return iotest.HalfReader(bytes.NewReader(data)) },
	} {
		var back Parameters
		n, err := back.ReadFrom(r())
		if err != nil {
			t.Errorf("%s: a valid stream of %d bytes is rejected after %d bytes: %v", name, written, n, err)
			continue
		}
		if n != written || !back.Equal(&params) {
			t.Errorf("%s: read %d bytes of %d, equal=%v", name, n, written, back.Equal(&params))
		}
	}
}

package ckks

import (
	"math/cmplx"
	"testing"

	"github.com/tuneinsight/lattigo/v6/core/rlwe"
)

// Evaluator.Add/Sub/Mul/MulThenAdd document `uint` as an accepted scalar type
// (and list it in their type switch), but bignum.ToComplex has no `uint` case and panics.
func TestC06Demo1UintScalar(t *testing.T) {
	p, err := NewParametersFromLiteral(ParametersLiteral{LogN: 6, LogQ: []int{55, 45, 45}, LogP: []int{60}, LogDefaultScale: 45})
	if err != nil {
		t.Fatal(err)
	}
	sk := rlwe.NewKeyGenerator(p).GenSecretKeyNew()
	ecd := NewEncoder(p)
	eval := NewEvaluator(p, nil)
	v := make([]complex128, p.MaxSlots())
	for i := range v {
		v[i] = complex(float64(i)/64, -float64(i)/128)
	}
	pt := NewPlaintext(p, p.MaxLevel())
	if err = ecd.Encode(v, pt); err != nil {
		t.Fatal(err)
	}
	ct, err := rlwe.NewEncryptor(p, sk).EncryptNew(pt)
	if err != nil {
		t.Fatal(err)
	}
	dec := rlwe.NewDecryptor(p, sk)

	run := func(name string, f func() (*rlwe.Ciphertext, error), ref func(complex128) complex128) {
		defer func() {
			if r := recover(); r != nil {
				t.Errorf("%s with a uint scalar panics: %v", name, r)
			}
		}()
		out, err := f()
		if err != nil {
			t.Errorf("%s with a uint scalar: %v", name, err)
			return
		}
		got := make([]complex128, p.MaxSlots())
		if err = ecd.Decode(dec.DecryptNew(out), got); err != nil {
			t.Fatal(err)
		}
		for i := range got {
			if cmplx.Abs(got[i]-ref(v[i])) > 1e-6 {
				t.Errorf("%s: slot %d: got %v want %v", name, i, got[i], ref(v[i]))
				return
			}
		}
	}
	run("Add", func() (*rlwe.Ciphertext, error) { return eval.AddNew(ct, uint(3)) }, func(x complex128) complex128 { return x + 3 })
	run("Sub", func() (*rlwe.Ciphertext, error) { return eval.SubNew(ct, uint(3)) }, func(x complex128) complex128 { return x - 3 })
	run("Mul", func() (*rlwe.Ciphertext, error) { return eval.MulNew(ct, uint(3)) }, func(x complex128) complex128 { return x * 3 })
	run("MulThenAdd", func() (*rlwe.Ciphertext, error) { out := ct.CopyNew(); return out, eval.MulThenAdd(ct, uint(3), out) }, func(x complex128) complex128 { return x * 4 })
}

package probe2

import (
	"os"
	"os/exec"
	"testing"

	"github.com/tuneinsight/lattigo/v6/ring"
)

// A truncated polynomial encoding handed to UnmarshalBinary: the slice reader recurses forever on
// an exhausted buffer (stack overflow: the process dies, it is not a recoverable panic).
func TestTruncatedPoly(t *testing.T) {
	if os.Getenv("LVC_CHILD") == "1" {
		r, _ := ring.NewRing(16, []uint64{97})
		p := r.NewPoly()
		b, _ := p.MarshalBinary()
		q := new(ring.Poly)
		err := q.UnmarshalBinary(b[:len(b)-3])
		if err == nil {
			os.Exit(3)
		}
		os.Exit(0)
	}
	cmd := exec.Command(os.Args[0], "-test.run=^TestTruncatedPoly$")
	cmd.Env = append(os.Environ(), "LVC_CHILD=1")
	out, err := cmd.CombinedOutput()
	if err != nil {
		n := len(out)
		if n > 300 {
			n = 300
		}
		t.Errorf("reading a truncated encoding did not return an error: %v\n%s", err, out[:n])
	}
}

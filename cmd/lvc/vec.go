package main

import (
	"fmt"
	"go/ast"
	"go/parser"
	"strings"
)

// expandVecKernel turns the veckernel sugar into ordinary clauses on the real loop:
//
//	veckernel out=p3 in=p1,p2 idx=j
//	lanepre  <expr over k>      precondition of lane k (entry values)
//	lane     <expr over k>      what lane k of the output holds afterwards, as an exact
//	                            expression of the entry values (pins the data flow)
//	meaning  <expr over k>      what that expression means (congruence + range): proved once
//	                            for arbitrary scalars from lanepre and lane ("meaning" lemma)
//
// becomes: requires len/alias/lanepre, assigns out[0:L], ensures forall lane (proved through
// the loop invariant), ensures forall meaning (derived: lane + the scalar meaning lemma),
// loop 0 invariants (index shape, done-prefix, unchanged-outside) and decreases.
func expandVecKernel(con *Contract) {
	v := con.Vec
	if v.Out == "" || len(v.In) == 0 {
		panic(verr("%s: veckernel needs out= and in=", con.File))
	}
	idx := v.Idx
	if idx == "" {
		idx = "j"
	}
	L := fmt.Sprintf("len(%s)", v.In[0])
	mk := func(s string) *Clause {
		e, err := parser.ParseExpr(s)
		if err != nil {
			panic(verr("%s: generated clause %q: %v", con.File, s, err))
		}
		return &Clause{Text: s, Expr: e, Line: con.File}
	}
	var req []*Clause
	req = append(req, mk(L+" % 8 == 0"))
	seen := map[string]bool{v.In[0]: true}
	for _, s := range append(append([]string{}, v.In...), v.Out) {
		if !seen[s] {
			seen[s] = true
			req = append(req, mk(fmt.Sprintf("len(%s) >= %s", s, L)))
		}
	}
	for _, s := range v.In {
		if s != v.Out {
			req = append(req, mk(fmt.Sprintf("sameOrDisjoint(%s[0:%s], %s[0:%s])", v.Out, L, s, L)))
		}
	}
	for _, lp := range v.LanePre {
		req = append(req, mk(fmt.Sprintf("forall(k, 0, %s, %s)", L, lp.Text)))
	}
	con.Requires = append(req, con.Requires...)
	e, _ := parser.ParseExpr(fmt.Sprintf("%s[0:%s]", v.Out, L))
	con.Assigns = append(con.Assigns, e)
	con.HasAssigns = true
	ls := con.Loops[0]
	if ls == nil {
		ls = &LoopSpec{}
		con.Loops[0] = ls
	}
	ls.Inv = append(ls.Inv, mk(fmt.Sprintf("0 <= %s && %s <= %s && %s %% 8 == 0", idx, idx, L, idx)))
	for _, ln := range v.Lane {
		con.Ensures = append(con.Ensures, mk(fmt.Sprintf("forall(k, 0, %s, %s)", L, ln.Text)))
		inv := mk(fmt.Sprintf("forall(k, 0, %s, %s)", idx, ln.Text))
		inv.By = ln.By
		ls.Inv = append(ls.Inv, inv)
	}
	ls.Inv = append(ls.Inv, mk(fmt.Sprintf("unchangedOutside(%s[0:%s])", v.Out, idx)))
	if ls.Decreases == nil {
		ls.Decreases = mk(fmt.Sprintf("%s - %s", L, idx))
	}
	for _, m := range v.Meaning {
		cl := mk(fmt.Sprintf("forall(k, 0, %s, %s)", L, m.Text))
		cl.Derived = true
		con.Ensures = append(con.Ensures, cl)
	}
}

// vecMeaningObligations proves, for arbitrary heap contents (i.e. arbitrary scalars) and an
// arbitrary index k, that  requires && lanepre(k) && lane(k)  implies  meaning(k).
func (c *FuncCtx) vecMeaningObligations(st *State) {
	v := c.con.Vec
	if v == nil || len(v.Meaning) == 0 {
		return
	}
	cur := c.entry.clone()
	for _, h := range sortedHeapNames(cur.heaps) {
		cur.heaps[h] = Var(h+"'", SArr)
	}
	k := Var("k!lane", SInt)
	L := c.entry.vars[nil]
	_ = L
	mkEnv := func(s *State, facts *[]*Term) *SpecEnv {
		se := c.specEnv(s, facts)
		se.bound["k"] = IntV{k}
		return se
	}
	var facts []*Term
	base := c.entry.clone()
	lenE, _ := parser.ParseExpr(fmt.Sprintf("len(%s)", v.In[0]))
	Lt_ := mkEnv(base, &facts).Int(lenE)
	base.assume(And(Le(ConstI(0), k), Lt(k, Lt_)))
	for _, lp := range v.LanePre {
		base.assume(mkEnv(c.entry, &facts).Bool(lp.Expr))
	}
	for _, ln := range v.Lane {
		base.assume(mkEnv(cur, &facts).Bool(ln.Expr))
	}
	for _, f := range facts {
		base.assume(f)
	}
	for i, m := range v.Meaning {
		var mf []*Term
		se := mkEnv(cur, &mf)
		var by []*Term
		if len(m.By) > 0 {
			by = c.evalHints(cur, m.By, se, m.Line)
		}
		g := se.Bool(m.Expr)
		for j, gj := range conjuncts(g) {
			o := c.oblige(base, "meaning", fmt.Sprintf("%d.%d", i, j), gj, nil, append(mf, by...)...)
			o.File = m.Line
		}
	}
}

var _ = strings.TrimSpace
var _ ast.Expr

package ckks

// Finding F90 (property C19): ckks.NewParametersFromLiteral rejects LogDefaultScale > 128 with the message
// "LogDefaultScale > 128 or < 0" but tests only the first half: a NEGATIVE LogDefaultScale is accepted and
// yields parameters whose default scale is below 1.

import "testing"

func TestF90NegativeLogDefaultScale(t *testing.T) {
	for _, ls := range []int{-1, -5} {
		p, err := NewParametersFromLiteral(ParametersLiteral{LogN: 10, LogQ: []int{50, 40}, LogP: []int{50}, LogDefaultScale: ls})
		if err == nil {
			t.Fatalf("LogDefaultScale=%d accepted (default scale %v)", ls, p.DefaultScale().Float64())
		}
	}
	if _, err := NewParametersFromLiteral(ParametersLiteral{LogN: 10, LogQ: []int{50, 40}, LogP: []int{50}, LogDefaultScale: 0}); err != nil {
		t.Fatalf("LogDefaultScale=0 refused: %v", err)
	}
}

package rgsw

import (
	"math/big"
	"testing"

	"github.com/tuneinsight/lattigo/v6/core/rlwe"
	"github.com/tuneinsight/lattigo/v6/ring"
	"github.com/tuneinsight/lattigo/v6/utils/sampling"
)

// demoC201MaxErr returns the bit-length of max_i |have_i - want_i| (centered mod Q).
func demoC201MaxErr(r *ring.Ring, have, want ring.Poly) int {
	d := r.NewPoly()
	r.Sub(have, want, d)
	c := make([]*big.Int, r.N())
	for i := range c {
		c[i] = new(big.Int)
	}
	r.PolyToBigintCentered(d, 1, c)
	m := new(big.Int)
	for i := range c {
		if c[i].Abs(c[i]).Cmp(m) > 0 {
			m.Set(c[i])
		}
	}
	return m.BitLen()
}

// External product of an RLWE ciphertext given in the coefficient domain (IsNTT = false, parameters with
// NTTFlag = false) in the paths taken for at most one auxiliary prime (general single-P / power-of-two
// decomposition path and 32-bit fast path). The result must decrypt to m*g with the noise implied by the
// decomposition; the same set-ups with NTTFlag = true give less than 26 bits of noise.
func TestDemoC20_1_ExternalProductNonNTTInput(t *testing.T) {

	for _, tc := range []struct {
		name     string
		Q, P     []uint64
		pw2      int
		maxNoise int // bits
	}{
		{"general/Q61/P0/pw2=16", []uint64{0x1fffffffffe00001}, nil, 16, 34},
		{"general/Q61/P1/pw2=0", []uint64{0x1fffffffffe00001}, []uint64{0x1fffffffff500001}, 0, 20},
		{"32bit/Q27/P0/pw2=7", []uint64{0x7fff801}, nil, 7, 21},
	} {
		t.Run(tc.name, func(t *testing.T) {

			params, err := rlwe.NewParametersFromLiteral(rlwe.ParametersLiteral{LogN: 10, Q: tc.Q, P: tc.P, NTTFlag: false})
			if err != nil {
				t.Fatal(err)
			}

			sk := rlwe.NewKeyGenerator(params).GenSecretKeyNew()
			rQ := params.RingQ()
			prng, _ := sampling.NewPRNG()

			// m uniform, g = 1 - X^3 + X^(N-1), both in the coefficient domain
			m := rQ.NewPoly()
			ring.NewUniformSampler(prng, rQ).Read(m)
			g := rQ.NewPoly()
			g.Coeffs[0][0] = 1
			g.Coeffs[0][3] = tc.Q[0] - 1
			g.Coeffs[0][params.N()-1] = 1

			// want = m*g
			want := rQ.NewPoly()
			a, b := rQ.NewPoly(), rQ.NewPoly()
			rQ.NTT(m, a)
			rQ.NTT(g, b)
			rQ.MForm(b, b)
			rQ.MulCoeffsMontgomery(a, b, want)
			rQ.INTT(want, want)

			ptM := rlwe.NewPlaintext(params, 0) // IsNTT = false
			ptM.Value.Copy(m)
			ptG := rlwe.NewPlaintext(params, 0) // IsNTT = false
			ptG.Value.Copy(g)

			ct := rlwe.NewCiphertext(params, 1, 0)
			if ct.IsNTT {
				t.Fatal("expected a coefficient-domain ciphertext")
			}
			if err = rlwe.NewEncryptor(params, sk).Encrypt(ptM, ct); err != nil {
				t.Fatal(err)
			}

			ctG := NewCiphertext(params, 0, params.MaxLevelP(), tc.pw2)
			if err = NewEncryptor(params, sk).Encrypt(ptG, ctG); err != nil {
				t.Fatal(err)
			}

			out := rlwe.NewCiphertext(params, 1, 0)
			NewEvaluator(params, nil).ExternalProduct(ct, ctG, out)

			dec := rlwe.NewDecryptor(params, sk)

			// The demo is lenient on the representation of the output: it accepts m*g
			// either in the domain announced by out.IsNTT or in the NTT domain.
			best := 1 << 20
			for _, asNTT := range []bool{out.IsNTT, true} {
				o := out.CopyNew()
				o.IsNTT = asNTT
				pt := dec.DecryptNew(o)
				have := rQ.NewPoly()
				if pt.IsNTT {
					rQ.INTT(pt.Value, have)
				} else {
					have.Copy(pt.Value)
				}
				if e := demoC201MaxErr(rQ, have, want); e < best {
					best = e
				}
			}

			if best > tc.maxNoise {
				t.Fatalf("external product of a coefficient-domain RLWE ciphertext does not decrypt to m*g: |error| has %d bits, want <= %d bits (log2(Q) = %d)", best, tc.maxNoise, int(params.LogQ()+0.5))
			}
		})
	}
}

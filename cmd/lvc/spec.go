package main

import (
	"fmt"
	"go/ast"
	"go/constant"
	"go/parser"
	"go/token"
	"go/types"
	"math/big"
	"strconv"
)

// SpecEnv evaluates contract expressions (mathematical integers) against a symbolic state.
type SpecEnv struct {
	c      *FuncCtx
	pkg    string                          // package path for spec/pure function lookup
	cur    func(name string) (Value, bool) // current values
	old    func(name string) (Value, bool) // entry values
	st     *State                          // state whose heaps are "current"
	oldSt  *State                          // state whose heaps are "old"
	bound  map[string]Value
	lets   []LetDef
	inOld  bool
	prevSt *State // loop lemma hints: the state at the head of the iteration (prev(e))
	facts  *[]*Term // side facts (instances of pure-function contracts, cell ranges)
	depth  int
	// quantifier re-parametrisation: shared by pointer between the copies of an environment made
	// while one quantified body is evaluated (old(), lets, macros), chained for nested quantifiers
	qs *quantState
}

type quantState struct {
	qvar  string // name of the quantified index being re-parametrised
	prim  *Term  // address of the primary slice (nil until chosen)
	heap  *Term
	qp    *Term // absolute-address bound variable
	pat   *Term
	outer *quantState
}

func (e *SpecEnv) sub() *SpecEnv {
	n := *e
	n.bound = map[string]Value{}
	for k, v := range e.bound {
		n.bound[k] = v
	}
	return &n
}

func (e *SpecEnv) fact(t *Term) {
	if e.facts != nil && !t.IsTrue() {
		*e.facts = append(*e.facts, t)
	}
}

func (e *SpecEnv) heapFor(elem types.Type) *Term {
	st := e.st
	if e.inOld && e.oldSt != nil {
		st = e.oldSt
	}
	return e.c.heap(st, heapName(elem))
}

func (e *SpecEnv) lookup(name string) (Value, bool) {
	if v, ok := e.bound[name]; ok {
		return v, true
	}
	if e.inOld && e.old != nil {
		if v, ok := e.old(name); ok {
			return v, true
		}
	}
	if e.cur != nil {
		if v, ok := e.cur(name); ok {
			return v, true
		}
	}
	return nil, false
}

func (e *SpecEnv) Bool(x ast.Expr) *Term {
	v := e.Eval(x)
	b, ok := v.(BoolV)
	if !ok {
		panic(verr("spec: expected boolean: %s", exprString(x)))
	}
	return b.T
}

func (e *SpecEnv) Int(x ast.Expr) *Term {
	v := e.Eval(x)
	switch t := v.(type) {
	case IntV:
		return t.T
	}
	panic(verr("spec: expected integer: %s (got %T)", exprString(x), v))
}

func exprString(x ast.Expr) string { return types.ExprString(x) }

func (e *SpecEnv) Eval(x ast.Expr) Value {
	switch n := x.(type) {
	case *ast.ParenExpr:
		return e.Eval(n.X)
	case *ast.BasicLit:
		switch n.Kind {
		case token.INT:
			v, ok := new(big.Int).SetString(n.Value, 0)
			if !ok {
				panic(verr("spec: bad int literal %s", n.Value))
			}
			return IntV{Const(v)}
		case token.CHAR:
			r, _, _, _ := strconv.UnquoteChar(n.Value[1:len(n.Value)-1], '\'')
			return IntV{ConstI(int64(r))}
		}
		panic(verr("spec: unsupported literal %s", n.Value))
	case *ast.Ident:
		return e.ident(n.Name)
	case *ast.UnaryExpr:
		switch n.Op {
		case token.SUB:
			return IntV{Neg(e.Int(n.X))}
		case token.NOT:
			return BoolV{Not(e.Bool(n.X))}
		case token.ADD:
			return e.Eval(n.X)
		}
	case *ast.BinaryExpr:
		return e.binary(n)
	case *ast.CallExpr:
		return e.call(n)
	case *ast.IndexExpr:
		base := e.Eval(n.X)
		return e.index(base, n.Index, n)
	case *ast.SliceExpr:
		base := e.Eval(n.X)
		s, ok := base.(SliceV)
		if !ok {
			panic(verr("spec: slicing non-slice %s", exprString(n.X)))
		}
		lo := ConstI(0)
		if n.Low != nil {
			lo = e.Int(n.Low)
		}
		hi := s.Len
		if n.High != nil {
			hi = e.Int(n.High)
		}
		return SliceV{Addr: Add(s.Addr, lo), Len: Sub(hi, lo), Cap: Sub(s.Cap, lo), Elem: s.Elem}
	case *ast.SelectorExpr:
		// package-qualified constant?
		if id, ok := n.X.(*ast.Ident); ok {
			if _, isVar := e.lookup(id.Name); !isVar {
				if v, ok := e.pkgConst(id.Name, n.Sel.Name); ok {
					return v
				}
			}
		}
		base := e.Eval(n.X)
		if sv, ok := base.(*StructV); ok {
			st := e.st
			if e.inOld && e.oldSt != nil {
				st = e.oldSt
			}
			return e.c.field(st, sv, n.Sel.Name)
		}
		panic(verr("spec: selector on %T: %s", base, exprString(n)))
	}
	panic(verr("spec: unsupported expression %s (%T)", exprString(x), x))
}

func (e *SpecEnv) pkgConst(pkgName, name string) (Value, bool) {
	for _, imp := range e.c.pkg.Types.Imports() {
		if imp.Name() == pkgName {
			if c, ok := imp.Scope().Lookup(name).(*types.Const); ok {
				return constValue(c.Val())
			}
		}
	}
	return nil, false
}

func constValue(v constant.Value) (Value, bool) {
	switch v.Kind() {
	case constant.Int:
		b, ok := new(big.Int).SetString(v.ExactString(), 10)
		if ok {
			return IntV{Const(b)}, true
		}
	case constant.Bool:
		return BoolV{Bool(constant.BoolVal(v))}, true
	}
	return nil, false
}

func (e *SpecEnv) ident(name string) Value {
	switch name {
	case "true":
		return BoolV{TTrue}
	case "false":
		return BoolV{TFalse}
	case "W":
		return IntV{Const(W64)}
	case "nil":
		return NilV{}
	}
	if v, ok := e.lookup(name); ok {
		return v
	}
	if e.c.prog.GhostVars[name] {
		st := e.st
		if e.inOld && e.oldSt != nil {
			st = e.oldSt
		}
		return IntV{e.c.ghostVar(st, name)}
	}
	for i := len(e.lets) - 1; i >= 0; i-- {
		if e.lets[i].Name == name {
			ne := *e
			ne.lets = e.lets[:i]
			return ne.Eval(e.lets[i].Expr)
		}
	}
	if c, ok := e.c.prog.Pkgs[e.pkg]; ok {
		if k, ok := c.Types.Scope().Lookup(name).(*types.Const); ok {
			if v, ok := constValue(k.Val()); ok {
				return v
			}
		}
	}
	panic(verr("spec: unknown identifier %s", name))
}

func (e *SpecEnv) binary(n *ast.BinaryExpr) Value {
	switch n.Op {
	case token.LAND:
		return BoolV{And(e.Bool(n.X), e.Bool(n.Y))}
	case token.LOR:
		return BoolV{Or(e.Bool(n.X), e.Bool(n.Y))}
	}
	if n.Op == token.EQL || n.Op == token.NEQ {
		// comparison of a float field with a literal: the same unknown boolean the executor uses
		// for the test with that source text (floating point is not modelled)
		if _, isLit := n.Y.(*ast.BasicLit); isLit {
			if _, isSel := n.X.(*ast.SelectorExpr); isSel {
				if ov, ok := e.Eval(n.X).(OpaqueV); ok && ov.T != nil {
					if b, ok := ov.T.Underlying().(*types.Basic); ok && b.Info()&types.IsFloat != 0 {
						t := Var(feqName(n.X, n.Y), SBool)
						if n.Op == token.NEQ {
							t = Not(t)
						}
						return BoolV{t}
					}
				}
			}
		}
	}
	lv, rv := e.Eval(n.X), e.Eval(n.Y)
	if n.Op == token.EQL || n.Op == token.NEQ {
		if lr, ok := lv.(RefV); ok {
			if rr, ok := rv.(RefV); ok {
				t := Eq(lr.ID, rr.ID)
				if n.Op == token.NEQ {
					t = Not(t)
				}
				return BoolV{t}
			}
		}
		if t := nilEq(lv, rv); t != nil {
			if n.Op == token.NEQ {
				t = Not(t)
			}
			return BoolV{t}
		}
	}
	if lb, ok := lv.(BoolV); ok {
		rb := asBool(rv)
		switch n.Op {
		case token.EQL:
			return BoolV{Eq(lb.T, rb)}
		case token.NEQ:
			return BoolV{Not(Eq(lb.T, rb))}
		}
		panic(verr("spec: bad boolean operator in %s", exprString(n)))
	}
	a, b := asInt(lv), asInt(rv)
	switch n.Op {
	case token.ADD:
		return IntV{Add(a, b)}
	case token.SUB:
		return IntV{Sub(a, b)}
	case token.MUL:
		if e.facts != nil && e.c.defs != nil {
			for _, f := range e.c.productFacts(a, b) {
				e.fact(f)
			}
		}
		return IntV{Mul(a, b)}
	case token.QUO:
		return IntV{Div(a, b)}
	case token.REM:
		return IntV{Mod(a, b)}
	case token.SHL:
		if b.IsConst() && b.Val.IsInt64() && b.Val.Int64() >= 0 && b.Val.Int64() < 4096 {
			return IntV{MulC(pow2(int(b.Val.Int64())), a)}
		}
		return IntV{Mul(a, App("pow2", SInt, b))}
	case token.SHR:
		if b.IsConst() && b.Val.IsInt64() && b.Val.Int64() >= 0 && b.Val.Int64() < 4096 {
			return IntV{Div(a, Const(pow2(int(b.Val.Int64()))))}
		}
		{
			// variable shift of a non-negative value by less than its width: the executor's term
			pw := App("pow2", SInt, b)
			for i := 0; i <= 64; i++ {
				e.fact(Implies(Eq(b, ConstI(int64(i))), Eq(pw, Const(pow2(i)))))
			}
			return IntV{Div(a, pw)}
		}
	case token.AND:
		if b.IsConst() {
			m := new(big.Int).Add(b.Val, bigOne)
			if m.Sign() > 0 && new(big.Int).And(m, b.Val).Sign() == 0 {
				return IntV{Mod(a, Const(m))}
			}
		}
		r := App("bvand", SInt, a, b)
		for _, f := range bitTableFacts("bvand", a, b, r) {
			e.fact(f)
		}
		return IntV{r}
	case token.OR, token.XOR:
		nm := map[token.Token]string{token.OR: "bvor", token.XOR: "bvxor"}[n.Op]
		r := App(nm, SInt, a, b)
		for _, f := range bitTableFacts(nm, a, b, r) {
			e.fact(f)
		}
		return IntV{r}
	case token.EQL:
		return BoolV{Eq(a, b)}
	case token.NEQ:
		return BoolV{Ne(a, b)}
	case token.LSS:
		return BoolV{Lt(a, b)}
	case token.LEQ:
		return BoolV{Le(a, b)}
	case token.GTR:
		return BoolV{Gt(a, b)}
	case token.GEQ:
		return BoolV{Ge(a, b)}
	}
	panic(verr("spec: unsupported operator %s", n.Op))
}

func (e *SpecEnv) index(base Value, idx ast.Expr, n ast.Node) Value {
	switch b := base.(type) {
	case SliceV:
		if _, isSlice := b.Elem.Underlying().(*types.Slice); isSlice {
			i := e.Int(idx)
			return rowOf(b, i)
		}
		if _, isInt := intKindOf(b.Elem); !isInt && !isBoolType(b.Elem) {
			st := e.st
			if e.inOld && e.oldSt != nil {
				st = e.oldSt
			}
			return e.c.elemOf(st, b, e.Int(idx))
		}
		var addr *Term
		if id, ok := idx.(*ast.Ident); ok {
			for q := e.qs; q != nil; q = q.outer {
				if id.Name == q.qvar {
					// re-parametrise that quantifier over the absolute address of its primary slice
					if q.prim == nil {
						q.prim = b.Addr
						q.heap = e.heapFor(b.Elem)
						q.pat = Select(q.heap, q.qp)
					}
					break
				}
			}
		}
		i := e.Int(idx)
		addr = Add(b.Addr, i)
		h := e.heapFor(b.Elem)
		t := Select(h, addr)
		if isBoolType(b.Elem) {
			return BoolV{Ne(t, ConstI(0))}
		}
		if t.Op == "select" && e.qs == nil {
			if k, ok := intKindOf(b.Elem); ok && k.bits > 0 {
				lo, hi := k.rng()
				e.c.setRange(t, lo, hi)
				e.fact(And(Le(Const(lo), t), Le(t, Const(hi))))
			}
		}
		return IntV{t}
	case WinV:
		i := e.Int(idx)
		t := Select(e.heapFor(b.Elem), Add(b.Addr, i))
		return IntV{t}
	case ArrV:
		i := e.Int(idx)
		if i.IsConst() {
			k := int(i.Val.Int64())
			if k < 0 || k >= len(b.Elems) {
				panic(verr("spec: constant index out of range"))
			}
			return b.Elems[k]
		}
		// symbolic index: ite chain over integer elements
		var r *Term
		for k := len(b.Elems) - 1; k >= 0; k-- {
			ek := asInt(b.Elems[k])
			if r == nil {
				r = ek
			} else {
				r = Ite(Eq(i, ConstI(int64(k))), ek, r)
			}
		}
		return IntV{r}
	}
	panic(verr("spec: indexing %T", base))
}

func rowOf(b SliceV, i *Term) SliceV {
	el := b.Elem.Underlying().(*types.Slice).Elem()
	return SliceV{Addr: App("row.addr", SInt, b.Addr, i), Len: App("row.len", SInt, b.Addr, i), Cap: App("row.cap", SInt, b.Addr, i), Elem: el}
}

func (e *SpecEnv) call(n *ast.CallExpr) Value {
	fn, ok := n.Fun.(*ast.Ident)
	if !ok {
		if sel, ok := n.Fun.(*ast.SelectorExpr); ok {
			// pkg.Func(...) pure function of another package
			if id, ok := sel.X.(*ast.Ident); ok {
				for _, imp := range e.c.pkg.Types.Imports() {
					if imp.Name() == id.Name {
						return e.pureCall(imp.Path(), sel.Sel.Name, n.Args)
					}
				}
			}
		}
		panic(verr("spec: unsupported call %s", exprString(n)))
	}
	arg := func(i int) ast.Expr {
		if i >= len(n.Args) {
			panic(verr("spec: %s: missing argument %d", fn.Name, i))
		}
		return n.Args[i]
	}
	switch fn.Name {
	case "old":
		ne := *e
		ne.inOld = true
		return ne.Eval(arg(0))
	case "prev":
		// prev(e), in the lemma hints of a loop: the value of e at the head of the iteration
		if e.prevSt == nil {
			panic(verr("spec: prev() is only available in loop lemma hints"))
		}
		ne := *e
		ne.st = e.prevSt
		ne.cur = e.prevSt.lookupName
		return ne.Eval(arg(0))
	case "val":
		// val("<source text>"): the last value of the code expression with that source text
		lit, ok := arg(0).(*ast.BasicLit)
		if !ok || lit.Kind != token.STRING {
			panic(verr("spec: val expects a string literal"))
		}
		txt, _ := strconv.Unquote(lit.Value)
		pe, err := parser.ParseExpr(txt)
		if err != nil {
			panic(verr("spec: val(%q): %v", txt, err))
		}
		if len(specRename) > 0 {
			ast.Inspect(pe, func(n ast.Node) bool {
				if id, ok := n.(*ast.Ident); ok {
					id.Name = renamed(id.Name)
				}
				return true
			})
		}
		if v, ok := e.st.tmps[exprString(pe)]; ok {
			return v
		}
		panic(verr("spec: no evaluated expression %q on this path", txt))
	case "ver":
		// ver(x, n): the n-th value assigned to local x on this path (1-based; declaration counts)
		id, ok := arg(0).(*ast.Ident)
		nv := e.Int(arg(1))
		if !ok || !nv.IsConst() {
			panic(verr("spec: ver(x, n) expects a local name and a constant"))
		}
		if v, ok := e.st.version(id.Name, int(nv.Val.Int64())); ok {
			return v
		}
		panic(verr("spec: %s has no version %d on this path", id.Name, nv.Val.Int64()))
	case "len":
		switch v := e.Eval(arg(0)).(type) {
		case SliceV:
			return IntV{v.Len}
		case ArrV:
			return IntV{ConstI(int64(len(v.Elems)))}
		case WinV:
			return IntV{ConstI(int64(v.N))}
		}
		panic(verr("spec: len of non-slice %s", exprString(arg(0))))
	case "cap":
		if v, ok := e.Eval(arg(0)).(SliceV); ok {
			return IntV{v.Cap}
		}
		panic(verr("spec: cap of non-slice"))
	case "addr":
		if v, ok := e.Eval(arg(0)).(SliceV); ok {
			return IntV{v.Addr}
		}
		panic(verr("spec: addr of non-slice"))
	case "ite":
		c := e.Bool(arg(0))
		a, b := e.Eval(arg(1)), e.Eval(arg(2))
		if ab, ok := a.(BoolV); ok {
			return BoolV{Ite(c, ab.T, asBool(b))}
		}
		return IntV{Ite(c, asInt(a), asInt(b))}
	case "implies":
		return BoolV{Implies(e.Bool(arg(0)), e.Bool(arg(1)))}
	case "iff":
		return BoolV{Eq(e.Bool(arg(0)), e.Bool(arg(1)))}
	case "min":
		a, b := e.Int(arg(0)), e.Int(arg(1))
		return IntV{Ite(Le(a, b), a, b)}
	case "max":
		a, b := e.Int(arg(0)), e.Int(arg(1))
		return IntV{Ite(Le(a, b), b, a)}
	case "abs":
		a := e.Int(arg(0))
		return IntV{Ite(Le(ConstI(0), a), a, Neg(a))}
	case "cong":
		return BoolV{App("cong", SBool, e.Int(arg(0)), e.Int(arg(1)), e.Int(arg(2)))}
	case "bitlen":
		// bitlen(x), x a uint64: what math/bits.Len64 returns (the executor's term for that call)
		x := e.Int(arg(0))
		if x.IsConst() {
			return IntV{ConstI(int64(x.Val.BitLen()))}
		}
		l := App("bitlen", SInt, x)
		e.fact(And(Le(ConstI(0), l), Le(l, ConstI(64))))
		return IntV{l}
	case "pow2":
		a := e.Int(arg(0))
		if a.IsConst() && a.Val.IsInt64() && a.Val.Int64() >= 0 && a.Val.Int64() < 4096 {
			return IntV{Const(pow2(int(a.Val.Int64())))}
		}
		pw := App("pow2", SInt, a)
		// defining facts on the range of shift amounts
		for i := 0; i <= 64; i++ {
			e.fact(Implies(Eq(a, ConstI(int64(i))), Eq(pw, Const(pow2(i)))))
		}
		return IntV{pw}
	case "bigval", "refid":
		// bigval(x): the mathematical value of the external object x points to; refid(x): its identity
		r, ok := e.Eval(arg(0)).(RefV)
		if !ok {
			panic(verr("spec: %s(%s): not a pointer to an external object", fn.Name, exprString(arg(0))))
		}
		if fn.Name == "refid" {
			return IntV{r.ID}
		}
		st := e.st
		if e.inOld && e.oldSt != nil {
			st = e.oldSt
		}
		return IntV{e.c.refVal(st, r)}
	case "reftop":
		st := e.st
		if e.inOld && e.oldSt != nil {
			st = e.oldSt
		}
		return IntV{e.c.refTop(st)}
	case "same":
		a, b := e.slice(arg(0)), e.slice(arg(1))
		return BoolV{Eq(a.Addr, b.Addr)}
	case "pow":
		// pow(x, n): x to the n-th power over the integers (n >= 0); an uninterpreted function in the
		// verification conditions, reasoned about through the Lean-checked pow_* library rules
		return IntV{App("pow", SInt, e.Int(arg(0)), e.Int(arg(1)))}
	case "fresh":
		// fresh(s): the storage of s was allocated during the call (it lies at or above the entry watermark)
		a := e.slice(arg(0))
		return BoolV{Le(brk0, a.Addr)}
	case "disjoint":
		a, b := e.slice(arg(0)), e.slice(arg(1))
		return BoolV{Or(Le(Add(a.Addr, a.Len), b.Addr), Le(Add(b.Addr, b.Len), a.Addr))}
	case "sameOrDisjoint":
		a, b := e.slice(arg(0)), e.slice(arg(1))
		return BoolV{Or(Eq(a.Addr, b.Addr), Le(Add(a.Addr, a.Len), b.Addr), Le(Add(b.Addr, b.Len), a.Addr))}
	case "forall", "exists":
		return e.quant(fn.Name, n)
	case "unchangedOutside":
		// unchangedOutside(s) : every cell of s's heap outside s has its old value
		s := e.slice(arg(0))
		p := Var(fmt.Sprintf("p!%d", e.nextQ()), SInt)
		cur := e.c.heap(e.st, heapName(s.Elem))
		var oldH *Term
		if e.oldSt != nil {
			oldH = e.c.heap(e.oldSt, heapName(s.Elem))
		} else {
			oldH = cur
		}
		body := Implies(Or(Lt(p, s.Addr), Le(Add(s.Addr, s.Len), p)), Eq(Select(cur, p), Select(oldH, p)))
		return BoolV{Forall([]*Term{p}, []*Term{Select(cur, p)}, body)}
	case "unchanged":
		// unchanged(s) : every cell of s has its old value
		s := e.slice(arg(0))
		p := Var(fmt.Sprintf("p!%d", e.nextQ()), SInt)
		cur := e.c.heap(e.st, heapName(s.Elem))
		oldH := cur
		if e.oldSt != nil {
			oldH = e.c.heap(e.oldSt, heapName(s.Elem))
		}
		body := Implies(And(Le(s.Addr, p), Lt(p, Add(s.Addr, s.Len))), Eq(Select(cur, p), Select(oldH, p)))
		return BoolV{Forall([]*Term{p}, []*Term{Select(cur, p)}, body)}
	}
	return e.pureCall(e.pkg, fn.Name, n.Args)
}

var qCounter int

func (e *SpecEnv) nextQ() int { qCounter++; return qCounter }

func (e *SpecEnv) slice(x ast.Expr) SliceV {
	v := e.Eval(x)
	if s, ok := v.(SliceV); ok {
		return s
	}
	if w, ok := v.(WinV); ok {
		return SliceV{Addr: w.Addr, Len: ConstI(int64(w.N)), Cap: ConstI(int64(w.N)), Elem: w.Elem}
	}
	panic(verr("spec: expected slice: %s", exprString(x)))
}

// quant handles forall(k, lo, hi, body): for all lo <= k < hi.
func (e *SpecEnv) quant(kind string, n *ast.CallExpr) Value {
	if len(n.Args) != 4 {
		panic(verr("spec: %s(k, lo, hi, body) expected", kind))
	}
	kid, ok := n.Args[0].(*ast.Ident)
	if !ok {
		panic(verr("spec: %s: first argument must be an identifier", kind))
	}
	// split conjunctions so that every conjunct gets its own primary slice / trigger
	if be, ok := stripParens(n.Args[3]).(*ast.BinaryExpr); ok && be.Op == token.LAND && kind == "forall" {
		l := &ast.CallExpr{Fun: n.Fun, Args: []ast.Expr{n.Args[0], n.Args[1], n.Args[2], be.X}}
		r := &ast.CallExpr{Fun: n.Fun, Args: []ast.Expr{n.Args[0], n.Args[1], n.Args[2], be.Y}}
		return BoolV{And(e.Bool(l), e.Bool(r))}
	}
	lo, hi := e.Int(n.Args[1]), e.Int(n.Args[2])
	if e.c.expandQuant && lo.IsConst() && hi.IsConst() && kind == "forall" {
		// replay: concrete bounds, the quantifier is a finite conjunction of ground instances
		if d := new(big.Int).Sub(hi.Val, lo.Val); d.IsInt64() && d.Int64() <= 64 {
			t := TTrue
			for v := new(big.Int).Set(lo.Val); v.Cmp(hi.Val) < 0; v = new(big.Int).Add(v, bigOne) {
				ne := e.sub()
				ne.bound[kid.Name] = IntV{Const(v)}
				t = And(t, ne.Bool(n.Args[3]))
			}
			return BoolV{t}
		}
	}
	return BoolV{e.quantTerm(kind, kid.Name, lo, hi, n.Args[3])}
}

func stripParens(x ast.Expr) ast.Expr {
	for {
		p, ok := x.(*ast.ParenExpr)
		if !ok {
			return x
		}
		x = p.X
	}
}

// quantTerm builds the quantified formula; lo/hi are already evaluated.
func (e *SpecEnv) quantTerm(kind, kname string, lo, hi *Term, body ast.Expr) *Term {
	// First pass: find the primary slice by evaluating with a plain index variable.
	id := e.nextQ()
	k := Var(fmt.Sprintf("%s!%d", kname, id), SInt)
	probe := e.sub()
	probe.facts = nil
	probe.qs = &quantState{qvar: kname, qp: Var(fmt.Sprintf("p!%d", id), SInt), outer: e.qs}
	probe.bound[kname] = IntV{k}
	bt := probe.Bool(body)
	if probe.qs.prim == nil || kind == "exists" {
		rng := And(Le(lo, k), Lt(k, hi))
		if kind == "exists" {
			return Not(Forall([]*Term{k}, nil, Not(And(rng, bt))))
		}
		return Forall([]*Term{k}, nil, Implies(rng, bt))
	}
	// Second pass: substitute k := p - addr(primary); the normal form turns
	// addr + (p - addr) into p, so the primary access is exactly (select H p).
	p := probe.qs.qp
	prim := probe.qs.prim
	ev := e.sub()
	ev.facts = nil
	ev.qs = &quantState{qvar: kname, qp: p, prim: prim, heap: probe.qs.heap, pat: probe.qs.pat, outer: e.qs}
	ev.bound[kname] = IntV{Sub(p, prim)}
	bt = ev.Bool(body)
	rng := And(Le(Add(prim, lo), p), Lt(p, Add(prim, hi)))
	return Forall([]*Term{p}, []*Term{probe.qs.pat}, Implies(rng, bt))
}

// pureCall: application of a spec function (macro) or of a pure Go function under contract.
func (e *SpecEnv) pureCall(pkgPath, name string, args []ast.Expr) Value {
	if sf, ok := e.c.prog.SpecFuncs[pkgPath+"."+name]; ok {
		if len(args) != len(sf.Params) {
			panic(verr("spec: %s expects %d arguments", name, len(sf.Params)))
		}
		if sf.Body == nil {
			// ghost (uninterpreted) function
			ts := make([]*Term, len(args))
			for i, a := range args {
				// `mem`: the memory of 64-bit words the function may depend on - the heap of the OLD state of the
				// clause (the state before the call for a callee's postcondition, the entry state for the
				// function's own), the current one where there is no old state.  A slice argument stands for
				// its address.  This is how a trusted leaf NAMES its output as a function of its input
				// (`p2[k] == inttval(mem, p1, q, k)`) without saying what the function is.
				if id, ok := a.(*ast.Ident); ok && id.Name == "mem" {
					hs := e.st
					if e.oldSt != nil {
						hs = e.oldSt
					}
					ts[i] = e.c.heap(hs, "H.uint64")
					continue
				}
				if sv, ok := e.Eval(a).(SliceV); ok {
					ts[i] = sv.Addr
					continue
				}
				ts[i] = e.Int(a)
			}
			if sf.Bool {
				return BoolV{App("ghost."+name, SBool, ts...)}
			}
			return IntV{App("ghost."+name, SInt, ts...)}
		}
		ne := e.sub()
		ne.lets = nil
		ne.cur, ne.old = nil, nil
		ne.bound = map[string]Value{}
		for i, p := range sf.Params {
			ne.bound[p] = e.Eval(args[i])
		}
		ne.pkg = pkgPath
		return ne.Eval(sf.Body)
	}
	key := pkgPath + "." + name
	con, ok := e.c.prog.Contracts[key]
	fi, ok2 := e.c.prog.Funcs[key]
	if !ok || !ok2 {
		panic(verr("spec: unknown function %s", name))
	}
	if !isPureScalar(fi) {
		panic(verr("spec: %s is not a pure scalar function", name))
	}
	vals := make([]Value, len(args))
	for i, a := range args {
		vals[i] = e.Eval(a)
	}
	res := e.c.applyPure(fi, con, vals, func(t *Term) { e.fact(t) }, e.st)
	if len(res) == 1 {
		return res[0]
	}
	return TupleV{res}
}

// isPureScalar: all parameters and results are integers, booleans or small arrays of them,
// and the function has no receiver: its results are then a function of its arguments.
func isPureScalar(fi *FuncInfo) bool {
	if fi.Obj == nil {
		return false
	}
	sig := fi.Obj.Type().(*types.Signature)
	if sig.Recv() != nil || sig.Results().Len() == 0 {
		return false
	}
	ok := func(t types.Type) bool {
		if _, is := intKindOf(t); is {
			return true
		}
		if isBoolType(t) {
			return true
		}
		if a, is := t.Underlying().(*types.Array); is && a.Len() <= 8 {
			_, is2 := intKindOf(a.Elem())
			return is2
		}
		return false
	}
	for i := 0; i < sig.Params().Len(); i++ {
		if !ok(sig.Params().At(i).Type()) {
			return false
		}
	}
	for i := 0; i < sig.Results().Len(); i++ {
		if !ok(sig.Results().At(i).Type()) {
			return false
		}
	}
	return true
}

func flattenScalars(v Value) []*Term {
	switch x := v.(type) {
	case IntV:
		return []*Term{x.T}
	case BoolV:
		return []*Term{Ite(x.T, ConstI(1), ConstI(0))}
	case ArrV:
		var out []*Term
		for _, el := range x.Elems {
			out = append(out, flattenScalars(el)...)
		}
		return out
	}
	panic(verr("non-scalar argument %T to pure function", v))
}

// applyPure returns the results of a pure scalar function as uninterpreted function
// applications and emits the instance  requires(args) => ensures(args, results).
func (c *FuncCtx) applyPure(fi *FuncInfo, con *Contract, args []Value, emit func(*Term), st *State) []Value {
	sig := fi.Obj.Type().(*types.Signature)
	var flat []*Term
	for _, a := range args {
		flat = append(flat, flattenScalars(a)...)
	}
	var res []Value
	for i := 0; i < sig.Results().Len(); i++ {
		rt := sig.Results().At(i).Type()
		nm := fmt.Sprintf("%s$%d", fi.Obj.Name(), i)
		if sig.Results().Len() == 1 {
			nm = fi.Obj.Name() + "$"
		}
		if isBoolType(rt) {
			res = append(res, BoolV{App(nm, SBool, flat...)})
		} else if _, ok := intKindOf(rt); ok {
			t := App(nm, SInt, flat...)
			res = append(res, IntV{t})
			if k, _ := intKindOf(rt); k.bits > 0 {
				lo, hi := k.rng()
				c.setRange(t, lo, hi)
				emit(And(Le(Const(lo), t), Le(t, Const(hi))))
			}
		} else if at, ok := rt.Underlying().(*types.Array); ok && at.Len() <= 8 {
			// a small array of integers: one uninterpreted function per element
			arr := ArrV{}
			for j := int64(0); j < at.Len(); j++ {
				t := App(fmt.Sprintf("%s.%d", nm, j), SInt, flat...)
				if k, ok := intKindOf(at.Elem()); ok && k.bits > 0 {
					lo, hi := k.rng()
					c.setRange(t, lo, hi)
					emit(And(Le(Const(lo), t), Le(t, Const(hi))))
				}
				arr.Elems = append(arr.Elems, IntV{t})
			}
			res = append(res, arr)
		} else {
			panic(verr("pure function %s: unsupported result type %s", fi.Obj.Name(), rt))
		}
	}
	// instance of the contract
	bind := map[string]Value{}
	for i := 0; i < sig.Params().Len(); i++ {
		bind[sig.Params().At(i).Name()] = args[i]
	}
	for i := 0; i < sig.Results().Len(); i++ {
		if n := sig.Results().At(i).Name(); n != "" {
			bind[n] = res[i]
		}
	}
	if len(res) == 1 {
		bind["result"] = res[0]
	}
	var sub []*Term
	se := &SpecEnv{c: c, pkg: fi.Pkg.PkgPath, st: st, oldSt: st, bound: bind, lets: con.Lets, facts: &sub}
	pre := TTrue
	for _, r := range con.Requires {
		pre = And(pre, se.Bool(r.Expr))
	}
	post := TTrue
	for _, en := range con.Ensures {
		post = And(post, se.Bool(en.Expr))
	}
	for _, f := range sub {
		emit(f)
	}
	emit(Implies(pre, post))
	return res
}

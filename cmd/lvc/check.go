package main

import (
	"regexp"
	"go/types"
	"go/ast"
	"os/exec"
	"encoding/json"
	"runtime/pprof"
	"flag"
	"fmt"
	"os"
	"path/filepath"
	"sort"
	"strconv"
	"strings"
	"time"
)

// ---- registered checks: lvc check <property> [--tier quick|thorough] ----

type KnownFinding struct {
	Property   string `json:"property"`
	Obligation string `json:"obligation"` // obligation name (function/kind:detail), never a line number
	What       string `json:"what"`
}

type FixedEntry struct {
	Property string `json:"property"`
	Commit   string `json:"commit"`
	What     string `json:"what"`
}

type KnownFile struct {
	Findings []KnownFinding `json:"known_findings"`
	Fixed    []FixedEntry   `json:"fixed"`
}

type funcEvidence struct {
	Function    string             `json:"function"`
	File        string             `json:"file"`
	Status      string             `json:"status"` // proved | trusted | out-of-subset | failed
	Obligations int                `json:"obligations"`
	Discharged  int                `json:"discharged"`
	Backends    map[string]int     `json:"backends"`
	SolverS     float64            `json:"solver_s"`
	Note        string             `json:"note,omitempty"`
}

type propertyConfig struct {
	ID          string
	Packages    []string
	Level       string
	Assumptions []string
	Trusted     []string
	Explain     string
	Extra       func(prog *Program, tier string) ([]*Obligation, []string) // extra obligations + notes
	SkipKinds   []string
	Simple      func(prog *Program, repo string, tier string) ([]simpleObligation, []string) // structurally decided obligations (copy / frame contracts)
}

var verifRoot = "/verif"

func cmdCheck(args []string) {
	if len(args) < 1 {
		usage()
	}
	id := args[0]
	fs := flag.NewFlagSet("check", flag.ExitOnError)
	tier := fs.String("tier", "", "quick|thorough")
	repo := fs.String("repo", "/repo", "repository root")
	_ = fs.Parse(args[1:])
	if *tier == "" {
		*tier = os.Getenv("VERIF_TIER")
	}
	if *tier != "thorough" {
		*tier = "quick"
	}
	seed := 0
	if s := os.Getenv("VERIF_SEED"); s != "" {
		seed, _ = strconv.Atoi(s)
	}
	cfg, ok := propertyConfigs[id]
	if !ok {
		fmt.Fprintf(os.Stderr, "no check registered for %s\n", id)
		os.Exit(2)
	}
	code := runCheck(cfg, *tier, *repo, seed)
	pprof.StopCPUProfile()
	os.Exit(code)
}

func loadKnown() KnownFile {
	var k KnownFile
	b, err := os.ReadFile(filepath.Join(verifRoot, "known_findings.json"))
	if err == nil {
		_ = json.Unmarshal(b, &k)
	}
	return k
}

func runCheck(cfg *propertyConfig, tier, repo string, seed int) int {
	t0 := time.Now()
	workDir = filepath.Join(verifRoot, "work", cfg.ID)
	evidenceDir := filepath.Join(verifRoot, "evidence")
	replayDir := filepath.Join(verifRoot, "replay", cfg.ID)
	if repo != "/repo" {
		// runs against a scratch copy (seeded changes, mutation tests) never touch the registered
		// evidence / replay files, which must describe /repo itself
		tag := fileSafe.ReplaceAllString(repo, "_")
		workDir = filepath.Join(verifRoot, "work", "scratch"+tag, cfg.ID)
		evidenceDir = filepath.Join(verifRoot, "work", "scratch"+tag, "evidence")
		replayDir = filepath.Join(verifRoot, "work", "scratch"+tag, "replay", cfg.ID)
	}
	_ = os.RemoveAll(workDir)
	_ = os.MkdirAll(workDir, 0o755)
	_ = os.RemoveAll(replayDir)
	_ = os.MkdirAll(replayDir, 0o755)
	timeout := 8
	if tier == "thorough" {
		timeout = 40
	}
	prog, err := LoadProgram(repo, cfg.Packages...)
	var loadErr string
	if err != nil {
		loadErr = err.Error()
	}
	var results []*FuncResult
	var all []*Obligation
	var notes []string
	if prog != nil {
		for _, k := range prog.Order {
			c := prog.Contracts[k]
			serves := false
			for _, p := range c.Props {
				if p == cfg.ID {
					serves = true
				}
			}
			if !serves {
				continue
			}
			r := prog.VerifyFunc(k)
			if r.Err != "" {
				if r2, note := tryRebind(prog, k, r.Err, timeout); r2 != nil {
					r = r2
					notes = append(notes, note)
				}
			}
			results = append(results, r)
			all = append(all, r.Obls...)
		}
	}
	// Engine B: abstract contracts serving this property
	var bresults []*bResult
	if prog != nil {
		var keys []string
		for _, k := range prog.AOrder {
			c := prog.AContracts[k]
			for _, p := range c.Props {
				if p == cfg.ID {
					keys = append(keys, k)
				}
			}
		}
		if len(keys) > 0 {
			fp, err := LoadFrameProg(repo)
			if err != nil {
				loadErr = err.Error()
			} else {
				for _, k := range keys {
					r := VerifyAbstract(prog, fp, k)
					bresults = append(bresults, r)
					all = append(all, r.Obls...)
				}
				// the abstract leaf contracts are assumptions: list them
				for _, k := range prog.AOrder {
					c := prog.AContracts[k]
					if c.Trusted {
						why := strings.Join(c.Raw["trusted"], " ")
						notes = append(notes, "assumed abstract (ring-element level) contract: "+shortPkg(k)+" "+why)
					}
				}
			}
		}
	}
	if cfg.Extra != nil && prog != nil {
		obs, ns := cfg.Extra(prog, tier)
		all = append(all, obs...)
		notes = append(notes, ns...)
	}
	var simple []simpleObligation
	if cfg.Simple != nil && prog != nil {
		so, ns := cfg.Simple(prog, repo, tier)
		simple = append(simple, so...)
		notes = append(notes, ns...)
		if os.Getenv("LVC_SHOW_SIMPLE") != "" {
			for _, o := range so {
				fmt.Printf("simple %v %s: %s\n", o.OK, o.Name, o.Detail)
			}
		}
	}
	var ln []string
	for n := range usedLemmas {
		ln = append(ln, n)
	}
	sort.Strings(ln)
	var lemmaObs []*Obligation
	for _, n := range ln {
		o := lemmaLib[n].Proof()
		lemmaObs = append(lemmaObs, o)
	}
	// proving a lemma may use further lemmas
	for changed := true; changed; {
		changed = false
		for n := range usedLemmas {
			found := false
			for _, o := range lemmaObs {
				if o.Name == "lemma/"+n {
					found = true
				}
			}
			if !found {
				lemmaObs = append(lemmaObs, lemmaLib[n].Proof())
				changed = true
			}
		}
	}
	all = append(all, lemmaObs...)
	tGen := time.Since(t0).Seconds()
	DischargeAll(all, timeout)
	if os.Getenv("LVC_TIMING") != "" {
		fmt.Fprintf(os.Stderr, "timing: load+generate %.1fs, discharge %.1fs\n", tGen, time.Since(t0).Seconds()-tGen)
		sorted := append([]*Obligation(nil), all...)
		sort.Slice(sorted, func(i, j int) bool { return sorted[i].Wall > sorted[j].Wall })
		tot := 0.0
		for _, o := range sorted {
			tot += o.Wall
		}
		fmt.Fprintf(os.Stderr, "total wall over obligations %.1fs\n", tot)
		for _, o := range sorted[:15] {
			fmt.Fprintf(os.Stderr, "  %6.2fs %-8s %-7s %s\n", o.Wall, o.Status, o.Solver, o.Name)
		}
	}

	known := loadKnown()
	isKnown := func(name string) *KnownFinding {
		for i := range known.Findings {
			ob := known.Findings[i].Obligation
			// a finding names an obligation; the per-path copies of it (name#n) and its conjuncts (name.k) are the same finding
			if known.Findings[i].Property == cfg.ID && (ob == name || strings.HasPrefix(name, ob+"#") || strings.HasPrefix(name, ob+".")) {
				return &known.Findings[i]
			}
		}
		return nil
	}

	nObl, nDis := 0, 0
	nBounded, boundedOK := 0, 0 // bounded stand-ins: reported, never counted as proved
	boundedWhy := map[string]string{}
	var violations []string
	seenViolationBase := map[string]bool{}
	var knownHit []string
	knownObls := 0
	var fev []funcEvidence
	var samples []map[string]interface{}
	totalSolver := 0.0
	backendTotals := map[string]int{}
	trustedFuncs := []string{}
	var outOfSubset []string
	fail := func(name, why, detail string, o *Obligation) {
		if k := isKnown(name); k != nil {
			knownObls++
			line := fmt.Sprintf("KNOWN-FINDING: property=%s %s: %s", cfg.ID, k.Obligation, k.What)
			for _, l := range knownHit {
				if l == line {
					return
				}
			}
			knownHit = append(knownHit, line)
			return
		}
		// the same clause failing on several paths of one function (Engine B numbers them #k) is one violation
		if o == nil || !o.Replayed {
			base := name
			if i := strings.LastIndex(base, "#"); i > 0 && strings.Trim(base[i+1:], "0123456789") == "" {
				base = base[:i]
			}
			if seenViolationBase[base] {
				return
			}
			seenViolationBase[base] = true
		}
		path := writeReplay(replayDir, cfg.ID, name, why, detail, o)
		line := fmt.Sprintf("VIOLATION property=%s replay=%s", cfg.ID, path)
		if o == nil || !o.Replayed {
			line += " obligation=" + name + " no-failing-input-found"
		} else {
			line += " obligation=" + name
		}
		violations = append(violations, line)
	}
	if loadErr != "" {
		fail("load", "the repository (with -tags verif) or its contract files failed to load", loadErr, nil)
	}
	for _, r := range results {
		fe := funcEvidence{Function: r.Name, File: r.File, Backends: map[string]int{}}
		if r.Trusted {
			fe.Status = "trusted"
			trustedFuncs = append(trustedFuncs, r.Name)
			fev = append(fev, fe)
			continue
		}
		if r.Err != "" {
			fe.Status = "out-of-subset"
			fe.Note = r.Err
			outOfSubset = append(outOfSubset, r.Name+": "+r.Err)
			// a function under contract that can no longer be translated is an undischarged obligation
			nObl++
			fail(r.Name+"/translate", "function under contract could not be translated / contract does not match the code", r.Err, nil)
			fev = append(fev, fe)
			continue
		}
		okAll := true
		for _, o := range r.Obls {
			if o.Kind == "vacuity" {
				// must be satisfiable: an unsat answer means contradictory preconditions
				nObl++
				if o.Status == "unsat" {
					okAll = false
					fail(o.Name, "vacuous contract: the preconditions are contradictory", o.Output, o)
				} else {
					nDis++
					fe.Discharged++
				}
				fe.Obligations++
				continue
			}
			nObl++
			fe.Obligations++
			fe.SolverS += o.Seconds
			if o.Status == "unsat" {
				nDis++
				fe.Discharged++
				fe.Backends[o.Solver]++
				backendTotals[o.Solver]++
			} else {
				okAll = false
				tryReplay(prog, r, o)
				fail(o.Name, "obligation not discharged ("+o.Status+")", o.Output, o)
			}
		}
		totalSolver += fe.SolverS
		if okAll {
			fe.Status = "proved"
		} else {
			fe.Status = "failed"
		}
		fev = append(fev, fe)
		if len(samples) < 6 && len(r.Obls) > 1 {
			o := r.Obls[len(r.Obls)/2]
			samples = append(samples, map[string]interface{}{"obligation": o.Name, "kind": o.Kind, "at": o.File,
				"result": o.Status, "backend": o.Solver, "seconds": o.Seconds, "goal": trunc(o.Goal.Key(), 300), "assumptions": len(o.Assume)})
		}
	}
	for _, r := range bresults {
		fe := funcEvidence{Function: r.Name + " [abstract]", File: r.File, Backends: map[string]int{}}
		if r.Err != "" {
			fe.Status = "out-of-subset"
			fe.Note = r.Err
			outOfSubset = append(outOfSubset, r.Name+": "+r.Err)
			nObl++
			fail(r.Name+"/translate", "function under abstract contract could not be executed / contract does not match the code", r.Err, nil)
			fev = append(fev, fe)
			continue
		}
		okAll := true
		for _, o := range r.Obls {
			if o.Bounded != "" {
				// a bounded stand-in (one fixed shape): must hold, is reported, is never counted as proved
				nBounded++
				fe.SolverS += o.Seconds
				if o.Kind != "vacuity" && o.Status != "unsat" || o.Kind == "vacuity" && o.Status == "unsat" {
					okAll = false
					if isKnown(o.Name) != nil {
						nObl++ // cancelled by the subtraction of the known findings below
					}
					fail(o.Name, "bounded obligation not discharged ("+o.Status+")", o.Output, o)
				} else {
					boundedOK++
				}
				boundedWhy[r.Name] = o.Bounded
				continue
			}
			nObl++
			fe.Obligations++
			fe.SolverS += o.Seconds
			if o.Kind == "vacuity" {
				if o.Status == "unsat" {
					okAll = false
					fail(o.Name, "vacuous contract: the preconditions are contradictory", o.Output, o)
				} else {
					nDis++
					fe.Discharged++
				}
				continue
			}
			if o.Status == "unsat" {
				nDis++
				fe.Discharged++
				fe.Backends[o.Solver]++
				backendTotals[o.Solver]++
			} else {
				okAll = false
				fail(o.Name, "obligation not discharged ("+o.Status+")", o.Output, o)
			}
		}
		totalSolver += fe.SolverS
		fe.Status = map[bool]string{true: "proved", false: "failed"}[okAll]
		if why, isBounded := boundedWhy[r.Name]; isBounded && okAll {
			// a bounded stand-in is never counted as proved
			fe.Status = "bounded"
			fe.Note = "BOUNDED instance, not a proof: " + why + "; "
		}
		fe.Note += fmt.Sprintf("paths=%d; executed inline (transparent accessors): %s", r.Paths, strings.Join(r.Inlined, ", "))
		for _, n := range r.Notes {
			notes = append(notes, r.Name+": "+n)
		}
		fev = append(fev, fe)
		if len(samples) < 6 && len(r.Obls) > 1 {
			o := r.Obls[len(r.Obls)-1]
			samples = append(samples, map[string]interface{}{"obligation": o.Name, "kind": o.Kind, "at": o.File,
				"result": o.Status, "backend": o.Solver, "seconds": o.Seconds, "goal": trunc(o.Goal.Key(), 300), "assumptions": len(o.Assume)})
		}
	}
	for _, o := range all {
		if o.Func == "lemma-library" || strings.HasPrefix(o.Func, "extra:") {
			nObl++
			totalSolver += o.Seconds
			if o.Bounded != "" {
				continue
			}
			if o.Status == "unsat" {
				nDis++
				backendTotals[o.Solver]++
			} else {
				fail(o.Name, "obligation not discharged ("+o.Status+")", o.Output, o)
			}
		}
	}
	structural := 0
	for _, so := range simple {
		nObl++
		if so.OK {
			nDis++
			structural++
			backendTotals["structural"]++
		} else {
			o := &Obligation{Name: so.Name, Func: so.Func, Kind: "structural", File: so.File, Goal: TFalse, Status: "failed", Solver: "structural", Output: so.Detail}
			fail(so.Name, "structural obligation failed: "+so.Detail, so.Detail, o)
		}
		if len(samples) < 6 && structural%17 == 1 {
			samples = append(samples, map[string]interface{}{"obligation": so.Name, "kind": "structural", "at": so.File, "result": map[bool]string{true: "discharged", false: "failed"}[so.OK]})
		}
	}
	// an obligation listed as a known finding is reported (KNOWN-FINDING line, evidence key
	// known_findings_hit) and is not part of what this run claims as proved
	nObl -= knownObls
	if nObl == 0 {
		fail("no-obligations", "the check generated no obligation at all (vacuous run)", "", nil)
	}
	for _, l := range knownHit {
		fmt.Println(l)
	}
	for _, v := range violations {
		fmt.Println(v)
	}
	// evidence
	wall := time.Since(t0).Seconds()
	assumptions := append([]string{}, cfg.Assumptions...)
	assumptions = append(assumptions, notes...)
	for _, f := range trustedFuncs {
		assumptions = append(assumptions, "trusted (assumed) contract, body not verified: "+f)
	}
	for _, r := range results {
		for _, a := range r.Assumed {
			assumptions = append(assumptions, r.Name+": "+a)
		}
	}
	ev := map[string]interface{}{
		"property_id": cfg.ID,
		"tier":        tier,
		"seed":        seed,
		"level":       cfg.Level,
		"wall_s":      wall,
		"violations":  len(violations),
		"assumptions": dedupe(assumptions),
		"coverage": map[string]interface{}{
			"obligations":        nObl,
			"discharged":         nDis,
			"checker_cmd":        fmt.Sprintf("/verif/bin/lvc check %s --tier %s  (VC generator over the typed AST of %s with -tags verif; portfolio z3-new 5.1.0 / z3 4.8.12 / cvc5 1.0.3, %ds per obligation)", cfg.ID, tier, repo, timeout),
			"trusted_base":       append([]string{"lvc VC generator (translation rules, polynomial normal form, heap model)", "SMT solvers' unsat answers"}, cfg.Trusted...),
			"explanation":        cfg.Explain,
			"functions":          fev,
			"functions_under_contract": len(results) + len(bresults),
			"functions_proved":   countStatus(fev, "proved"),
			"functions_trusted":  trustedFuncs,
			"out_of_subset":      outOfSubset,
			"backends":           backendTotals,
			"solver_seconds":     totalSolver,
			"lemmas_proved":      ln,
			"samples":            samples,
			"known_findings_hit": knownHit,
			"bounded": map[string]interface{}{"obligations": nBounded, "discharged": boundedOK, "functions": boundedWhy,
				"note": "bounded stand-ins (one fixed shape, loops unwound): they must hold for the check to pass but are NOT part of obligations / discharged above and are not proofs"},
		},
	}
	// thorough tier on the real tree: must-fail self-test.  Every seeded property-breaking change
	// kept under /verif/seeded/<ID>-n is applied to a scratch copy (outside /repo and /verif, removed
	// afterwards) and this property's quick check is run against it: evidence that the obligations
	// are not vacuous.  The outcome is recorded, it never changes the exit status of the check.
	if tier == "thorough" && repo == "/repo" && os.Getenv("LVC_NO_SELFTEST") == "" {
		ev["coverage"].(map[string]interface{})["selftest"] = seedSelfTest(cfg.ID)
	}
	_ = os.MkdirAll(evidenceDir, 0o755)
	b, _ := json.MarshalIndent(ev, "", " ")
	_ = os.WriteFile(filepath.Join(evidenceDir, cfg.ID+".json"), b, 0o644)
	fmt.Printf("%s tier=%s: %d obligations, %d discharged, %d functions (%d proved, %d bounded, %d trusted), %d violation(s), %d known finding(s), %.1fs\n",
		cfg.ID, tier, nObl, nDis, len(results)+len(bresults), countStatus(fev, "proved"), countStatus(fev, "bounded"), len(trustedFuncs), len(violations), len(knownHit), wall)
	if len(violations) > 0 {
		return 1
	}
	return 0
}

func countStatus(f []funcEvidence, s string) int {
	n := 0
	for _, x := range f {
		if x.Status == s {
			n++
		}
	}
	return n
}

func dedupe(in []string) []string {
	seen := map[string]bool{}
	out := []string{}
	for _, s := range in {
		if !seen[s] {
			seen[s] = true
			out = append(out, s)
		}
	}
	return out
}

func trunc(s string, n int) string {
	if len(s) > n {
		return s[:n] + "…"
	}
	return s
}

func writeReplay(dir, prop, name, why, detail string, o *Obligation) string {
	path := filepath.Join(dir, fileSafe.ReplaceAllString(name, "_")+".txt")
	var b strings.Builder
	fmt.Fprintf(&b, "property: %s\nfailed obligation: %s\nreason: %s\n", prop, name, why)
	if o != nil {
		fmt.Fprintf(&b, "function: %s\nkind: %s\nsource: %s\nsolver: %s  status: %s\nSMT file: %s\n", o.Func, o.Kind, o.File, o.Solver, o.Status, o.SMTFile)
		fmt.Fprintf(&b, "goal: %s\n", trunc(o.Goal.Key(), 2000))
		if len(o.Model) > 0 {
			b.WriteString("solver model (inputs; products are uninterpreted in the VC, so intermediate values may be spurious):\n")
			var ks []string
			for k := range o.Model {
				ks = append(ks, k)
			}
			sort.Strings(ks)
			for _, k := range ks {
				fmt.Fprintf(&b, "  %s = %s\n", k, o.Model[k])
			}
		}
		if o.ReplayNote != "" {
			fmt.Fprintf(&b, "replay against the real code:\n%s\n", o.ReplayNote)
		}
	}
	if detail != "" {
		fmt.Fprintf(&b, "verifier output:\n%s\n", trunc(detail, 6000))
	}
	_ = os.WriteFile(path, []byte(b.String()), 0o644)
	return path
}

// seedSelfTest runs the quick check of property id against each seeded change of that property.
func seedSelfTest(id string) []map[string]interface{} {
	var out []map[string]interface{}
	dirs, _ := filepath.Glob(filepath.Join(verifRoot, "seeded", id+"-*"))
	sort.Strings(dirs)
	if len(dirs) == 0 {
		return out
	}
	base := filepath.Join("/var/tmp", fmt.Sprintf("lvc-selftest-%s-%d", id, os.Getpid()))
	defer os.RemoveAll(base)
	scratch := filepath.Join(base, "repo")
	self, err := os.Executable()
	if err != nil {
		self = filepath.Join(verifRoot, "bin", "lvc")
	}
	for _, d := range dirs {
		patch := filepath.Join(d, "patch.diff")
		if _, err := os.Stat(patch); err != nil {
			continue
		}
		rec := map[string]interface{}{"seed": filepath.Base(d)}
		_ = os.MkdirAll(scratch, 0o755)
		if o, err := exec.Command("rsync", "-a", "--delete", "--exclude", ".git", "/repo/", scratch+"/").CombinedOutput(); err != nil {
			rec["result"] = "scratch copy failed: " + trunc(string(o), 200)
			out = append(out, rec)
			continue
		}
		pc := exec.Command("patch", "-p1", "-s", "-i", patch)
		pc.Dir = scratch
		if o, err := pc.CombinedOutput(); err != nil {
			rec["result"] = "patch does not apply to the current tree: " + trunc(string(o), 200)
			out = append(out, rec)
			continue
		}
		cc := exec.Command(self, "check", id, "--tier", "quick", "--repo", scratch)
		cc.Dir = verifRoot
		cc.Env = append(os.Environ(), "LVC_NO_SELFTEST=1")
		o, _ := cc.CombinedOutput()
		caught := []string{}
		for _, l := range strings.Split(string(o), "\n") {
			if strings.HasPrefix(l, "VIOLATION") {
				if i := strings.Index(l, "obligation="); i >= 0 {
					caught = append(caught, strings.Fields(l[i+len("obligation="):])[0])
				}
			}
		}
		if len(caught) > 0 {
			rec["result"] = "caught"
			rec["failed_obligations"] = caught
		} else {
			rec["result"] = "missed by this property's check"
		}
		out = append(out, rec)
	}
	// the scratch runs wrote under /verif/work/scratch*: remove what they left
	if ms, _ := filepath.Glob(filepath.Join(verifRoot, "work", "scratch_var_tmp_lvc-selftest-*")); len(ms) > 0 {
		for _, m := range ms {
			_ = os.RemoveAll(m)
		}
	}
	return out
}

var rebindRe = regexp.MustCompile("spec: unknown identifier (\\w+)|spec: (\\w+) has no version|has no local named (\\w+)")

// tryRebind: a contract clause names a local that no longer exists (a local was renamed).  Every other
// local of the function is tried in its place; a binding is kept only if the function then verifies
// completely.  The function-level clauses speak about parameters and results, never about locals, so
// a proof found this way proves the same contract.
func tryRebind(prog *Program, key, errMsg string, timeout int) (*FuncResult, string) {
	m := rebindRe.FindStringSubmatch(errMsg)
	if m == nil {
		return nil, ""
	}
	missing := m[1] + m[2] + m[3]
	fi := prog.Funcs[key]
	con := prog.Contracts[key]
	if fi == nil || con == nil || fi.Decl == nil || fi.Decl.Body == nil {
		return nil, ""
	}
	// only names that the function-level clauses do not use may be re-bound (those clauses are the claim)
	mentions := func(x ast.Expr) bool {
		found := false
		if x != nil {
			var visit func(n ast.Node) bool
			visit = func(n ast.Node) bool {
				if se, ok := n.(*ast.SelectorExpr); ok {
					ast.Inspect(se.X, visit) // a field name is not a use of the local
					return false
				}
				if id, ok := n.(*ast.Ident); ok && id.Name == missing {
					found = true
				}
				return !found
			}
			ast.Inspect(x, visit)
		}
		return found
	}
	for _, cl := range con.Requires {
		if mentions(cl.Expr) {
			return nil, ""
		}
	}
	for _, cl := range con.Ensures {
		if mentions(cl.Expr) {
			return nil, ""
		}
	}
	for _, x := range con.Assigns {
		if mentions(x) {
			return nil, ""
		}
	}
	for _, l := range con.Lets {
		if mentions(l.Expr) {
			return nil, ""
		}
	}
	info := fi.Pkg.TypesInfo
	seen := map[string]bool{missing: true}
	var cands []string
	ast.Inspect(fi.Decl.Body, func(n ast.Node) bool {
		if id, ok := n.(*ast.Ident); ok {
			if obj, isVar := info.Defs[id].(*types.Var); isVar && obj != nil && !seen[id.Name] && id.Name != "_" {
				seen[id.Name] = true
				cands = append(cands, id.Name)
			}
		}
		return true
	})
	defer func() {
		for k := range specRename {
			delete(specRename, k)
		}
	}()
	for _, cand := range cands {
		specRename[missing] = cand
		r := prog.VerifyFunc(key)
		if r.Err != "" {
			continue
		}
		DischargeAll(r.Obls, timeout)
		ok := true
		for _, o := range r.Obls {
			if o.Kind == "vacuity" {
				if o.Status == "unsat" {
					ok = false
				}
				continue
			}
			if o.Status != "unsat" {
				ok = false
			}
		}
		if ok {
			return r, fmt.Sprintf("%s: the contract names a local `%s` that the code no longer has; verified with `%s` in its place (a renamed local)", shortPkg(key), missing, cand)
		}
	}
	return nil, ""
}
